"""C18 — eccentricities: formula, bound, rotation / reflection / scaling / permutation, lattice variant.

Tie T: `harness/translate/ecc.py` regenerates `Gen/Ecc.lean` (`Gen.Ecc.particles`, `Gen.Ecc.lattice`) from the
current source of `eccentricity_from_particles` / `eccentricity_from_lattice` on every run; `Lemmas/EccGen.lean`
proves the generated functions equal to the hand model for all inputs and `Props/C18/Gen.lean` restates the property
theorems about them.
Tie C: the generic model `Core/Ecc.lean` AND the generated functions (driver ops `gp`, `gl`) are run at Float
(C libm) by the driver and compared with `EventCharacteristics(...).eccentricity(...)` of the tree under test on
the same inputs.
The oracle (`search`) checks the PROPERTY on the real code: an independent complex-arithmetic reference
(no arctan2/cos/sin) and the metamorphic relations (rotate, reflect, scale, permute, lattice = nodes).

Besides single calls on fresh objects, both halves run SESSIONS: one long-lived `EventCharacteristics` object
serves a history  compute -> mutate the held data in place (Lattice3D through its public API; the particle
list through list operations and Particle setters) -> compute again,  with `set_event_data` switching between
particle and lattice input and a different (n, m, weight_quantity) per call.  After every call the result is
compared with the model / the formula on the CURRENT content of the held data and with a freshly constructed
object on the same data.  A failure that a fresh object does not show is reported as `instance-reuse-...` with
the whole (shrunk) history as replay.
"""
import cmath
import collections
import copy
import json
import math
import os
import pickle
import random as _random
import shutil
import tempfile
import time
import warnings

import numpy as np

import common
from common import f2h, h2f

warnings.filterwarnings("ignore")

WQS = ["energy", "number", "charge", "baryon", "strangeness"]
WIDX = {"energy": 0, "charge": 1, "baryon": 2, "strangeness": 3}
TOL = 1e-9


# ------------------------------------------------------------------ translator (tie T)
def translate(ctx):
    from translate import ecc
    src = common.read_src("EventCharacteristics.py")
    text, regions = ecc.render(src)
    common.write_if_changed(common.LEAN / "SparkxVerif/Gen/Ecc.lean", text)
    golden = common.LEAN / "golden/Gen/Ecc.lean"
    ctx.cov["gen_equals_golden"] = golden.exists() and golden.read_text() == text
    ctx.cov["tie"] = ("T+C: eccentricity_from_particles / eccentricity_from_lattice re-translated from the source "
                      "(Gen/Ecc.lean), proved equal to the hand model (Lemmas/EccGen.lean); model and generated "
                      "functions both run against the real code")
    return regions


# ------------------------------------------------------------------ real code access
# Particle attributes the eccentricity must NOT depend on (for any weight quantity); a row of `parts` may carry,
# as a 7th element, a dict of such attributes set to arbitrary values
EXTRA_ATTRS = ["t", "z", "mass", "px", "py", "pz", "pdg", "ID", "ncoll", "form_time", "xsecfac", "proc_id_origin",
               "proc_type_origin", "t_last_coll", "pdg_mother1", "pdg_mother2", "status", "weight"]


class PList(list):
    """a list subclass (accepted wherever 'a list' is)"""


class PArr(np.ndarray):
    """an ndarray subclass"""


def _subclass(base, name):
    """a trivial subclass of a sparkx class, importable from this module (so that it pickles)"""
    cls = globals().get(name)
    if cls is None or cls.__mro__[1] is not base:
        cls = type(name, (base,), {"__module__": __name__, "__qualname__": name})
        globals()[name] = cls
    return cls


def _cp(obj, mode):
    """obj or one of its copies: copy.copy / copy.deepcopy / pickle round trip"""
    if not mode:
        return obj
    if mode == "copy":
        return copy.copy(obj)
    if mode == "deepcopy":
        return copy.deepcopy(obj)
    return pickle.loads(pickle.dumps(obj))


COPY_MODES = ["copy", "deepcopy", "pickle"]
ENV_CHANGES = []  # filled by calls run under `_Env`: what the call left changed


class _Env:
    """an unusual but legitimate process environment for one call: cwd = a fresh empty temp dir, non-default numpy
    print options, np.seterr(all='warn'), advanced global `random` / `np.random` states.  `changes()` names what
    differs from the state at entry; everything is restored on exit."""

    def __init__(self, seed):
        self.seed = seed

    def _snap(self):
        return dict(cwd=os.getcwd(), files=sorted(os.listdir(".")), geterr=dict(np.geterr()),
                    printoptions=repr(sorted(np.get_printoptions().items())), random=repr(_random.getstate()),
                    np_random=repr(np.random.get_state()))

    def __enter__(self):
        self.saved = (os.getcwd(), np.geterr(), np.get_printoptions(), _random.getstate(), np.random.get_state())
        self.tmp = tempfile.mkdtemp(prefix="c18env_")
        os.chdir(self.tmp)
        np.set_printoptions(precision=2, suppress=True, threshold=5, linewidth=40)
        np.seterr(all="warn")
        _random.seed(self.seed)
        [_random.random() for _ in range(self.seed % 7)]
        np.random.seed(self.seed % (2 ** 31))
        np.random.rand(self.seed % 5)
        self.entry = self._snap()
        return self

    def changes(self):
        now = self._snap()
        return [k for k in self.entry if self.entry[k] != now[k]]

    def __exit__(self, *a):
        cwd, err, po, rs, nrs = self.saved
        os.chdir(cwd)
        np.seterr(**err)
        np.set_printoptions(**{k: v for k, v in po.items() if k != "override_repr"})
        _random.setstate(rs)
        np.random.set_state(nrs)
        shutil.rmtree(self.tmp, ignore_errors=True)


def _particles(parts, var=None):
    """parts: list of [E, charge, baryon, strangeness, x, y (, {irrelevant attribute: value})] -> sparkx Particle
    objects (of a Particle subclass / individually copied, when the variant says so)"""
    from sparkx.Particle import Particle
    var = var or {}
    cls = _subclass(Particle, "TaggedParticle") if var.get("psub") else Particle
    out = []
    for row in parts:
        E, ch, b, s, x, y = row[:6]
        p = cls()
        for k, v in (row[6] if len(row) > 6 and row[6] else {}).items():
            setattr(p, k, v)
        p.E = E
        p.charge = ch
        p.baryon_number = b
        p.strangeness = s
        p.x = x
        p.y = y
        out.append(_cp(p, (var.get("copy") or {}).get("particle")))
    return out


def _seen(plist):
    """what the loop reads through the getters (this is what the model is given)"""
    return [[float(p.E), float(p.charge), float(p.baryon_number), float(p.strangeness), float(p.x), float(p.y)]
            for p in plist]


def _canon(fn):
    """run `fn`, canonicalise: ('ok', complex) | ('err', kind)"""
    try:
        with np.errstate(all="ignore"):
            r = complex(fn())
    except ValueError:
        return ("err", "value")
    except ZeroDivisionError:
        return ("err", "zerodiv")
    except Exception as e:  # anything else is reported as its class name (never equal to a model answer)
        return ("err", "other:" + type(e).__name__)
    if not (math.isfinite(r.real) and math.isfinite(r.imag)):
        return ("err", "zerodiv")
    return ("ok", r)


# memory layout / representation of the arrays the inputs can carry.  A layout is a '+'-joined list of tokens,
# applied left to right; every token keeps the shape and (up to the dtype's own rounding) the LOGICAL content
# a[i, j, k] and only changes how it is stored.
LAYOUT_TOKENS = ["F", "T", "swap01", "swap02", "swap12", "neg0", "neg1", "neg2", "negall", "slice", "f32", "int", "ro"]
CONTAINERS = ["list", "ndarray", "ndarray-strided", "ndarray-reversed", "ndarray-ro", "list-subclass", "ndarray-subclass"]
# what the docs exclude ("list, numpy.ndarray or Lattice3D"; TypeError otherwise): sequences and one-shot iterators
REJECTED_CONTAINERS = ["tuple", "generator", "iter", "map", "deque"]


def _lay(a, layout):
    """same logical array, other representation (works for any number of dimensions)"""
    a = np.array(a, dtype=float)
    for tok in (layout or "C").split("+"):
        nd = a.ndim
        if tok == "C":
            a = np.ascontiguousarray(a)
        elif tok == "F":
            a = np.asfortranarray(a)
        elif tok == "T":  # stored transposed, a transposing view put in place
            a = np.ascontiguousarray(a.T).T
        elif tok.startswith("swap"):
            p, q = int(tok[4]), int(tok[5])
            if p < nd and q < nd:
                a = np.ascontiguousarray(np.swapaxes(a, p, q)).swapaxes(p, q)
        elif tok.startswith("neg"):  # negative strides
            ax = None if tok == "negall" else int(tok[3])
            if ax is None or ax < nd:
                a = np.flip(np.ascontiguousarray(np.flip(a, ax)), ax)
        elif tok == "slice":  # non-contiguous slice of a bigger array full of other numbers
            big = np.full(tuple(2 * d + 1 for d in a.shape), -777.25, dtype=a.dtype)
            view = big[tuple(slice(1, 2 * d, 2) for d in a.shape)]
            view[...] = a
            a = view
        elif tok == "f32":
            a = a.astype(np.float32)
        elif tok == "int":
            a = a.astype(np.int64)
        elif tok == "ro":
            a = a.view()
            a.setflags(write=False)
        else:
            raise ValueError("unknown layout token " + tok)
    return a


def _stored(a):
    """how a live array is stored, for keys: '' for a plain C-contiguous writeable float64 array"""
    d = []
    if not a.flags["C_CONTIGUOUS"]:
        d.append("F-contiguous" if a.flags["F_CONTIGUOUS"] else "non-contiguous")
    if a.dtype != np.float64:
        d.append(str(a.dtype))
    if not a.flags.writeable:
        d.append("read-only")
    return ":stored=" + "+".join(d) if d else ""


def strip_dtype(layout):
    toks = [t for t in (layout or "C").split("+") if t not in ("f32", "int")]
    return "+".join(toks) or "C"


ORDER_TOKENS = ["F", "T", "swap01", "swap02", "swap12", "neg0", "neg1", "neg2", "negall", "slice"]


def gen_layout(rng, plain=0.45):
    """at most one storage-order token, then optionally a dtype token, then optionally read-only
    (astype keeps the stride order, so the combination really has all the chosen features)"""
    if rng.random() < plain:
        return "C"
    toks = []
    if rng.random() < 0.8:
        toks.append(rng.choice(ORDER_TOKENS))
    if rng.random() < 0.25:
        toks.append(rng.choice(["f32", "int"]))
    if rng.random() < 0.2 or not toks:
        toks.append("ro")
    return "+".join(toks)


def gen_axes_layout(rng):
    return "C" if rng.random() < 0.7 else "+".join(rng.sample(["neg0", "slice", "ro"], rng.choice([1, 2])))


def _container(pl, container):
    """the particle objects `pl` in the requested container (list / 1-d object ndarray in several representations)"""
    if not container or container == "list":
        return pl
    if container == "list-subclass":
        return PList(pl)
    if container == "tuple":
        return tuple(pl)
    if container == "generator":
        return (q for q in pl)
    if container == "iter":
        return iter(pl)
    if container == "map":
        return map(lambda q: q, pl)
    if container == "deque":
        return collections.deque(pl)
    n = len(pl)
    if container == "ndarray-strided":
        big = np.empty(2 * n + 1, dtype=object)
        arr = big[1:2 * n:2]
    elif container == "ndarray-reversed":
        arr = np.empty(n, dtype=object)[::-1]
    else:
        arr = np.empty(n, dtype=object)
    for i, p in enumerate(pl):
        arr[i] = p
    if container == "ndarray-ro":
        arr.setflags(write=False)
    if container == "ndarray-subclass":
        arr = arr.view(PArr)
    return arr


# ------------------------------------------------------------------ call forms
# the DOCUMENTED parameter order and defaults of the public calls (docstrings / signatures at HEAD); every call
# the harness issues goes through `_invoke` in one of several equivalent forms, so that a signature change that
# re-binds positional arguments or alters a default shows as a wrong result
DOC_ORDER = {
    "__init__": ["event_data"],
    "set_event_data": ["event_data"],
    "eccentricity": ["harmonic_n", "harmonic_m", "weight_quantity"],
    "eccentricity_from_particles": ["harmonic_n", "harmonic_m", "weight_quantity"],
    "eccentricity_from_lattice": ["harmonic_n", "harmonic_m"],
}
DOC_DEFAULTS = {"harmonic_m": None, "weight_quantity": "energy"}
FORMS = ["pos", "kw", "mixed", "omit-kw", "omit-pos"]


def _bind(method, values, form):
    """(args, kwargs) for `method` carrying `values` (name -> value) in the given call form"""
    names = DOC_ORDER[method]
    vals = [values[k] for k in names]

    def is_default(k):
        return k in DOC_DEFAULTS and type(values[k]) is type(DOC_DEFAULTS[k]) and values[k] == DOC_DEFAULTS[k]
    if form == "kw":
        return [], dict(zip(names, vals))
    if form == "mixed":
        return vals[:1], dict(zip(names[1:], vals[1:]))
    if form == "omit-kw":  # defaults left out, the rest by keyword
        return vals[:1], {k: values[k] for k in names[1:] if not is_default(k)}
    if form == "omit-pos":  # positional, trailing defaults left out
        keep = len(names)
        while keep > 1 and is_default(names[keep - 1]):
            keep -= 1
        return vals[:keep], {}
    return vals, {}


def _invoke(obj, method, form, **values):
    args, kw = _bind(method, values, form or "pos")
    return getattr(obj, method)(*args, **kw)


def _construct(data, form="pos"):
    from sparkx.EventCharacteristics import EventCharacteristics
    return EventCharacteristics(event_data=data) if form in ("kw", "omit-kw") else EventCharacteristics(data)


def _ecc(obj, lat, via, form, n, m, wq):
    """one eccentricity call in the requested form.  via: 'eccentricity' | 'direct' (the variant's own method) |
    'cross' (the OTHER variant's method: expected to be rejected)"""
    if via in ("direct", "cross"):
        use_lattice = lat if via == "direct" else not lat
        if use_lattice:
            return _invoke(obj, "eccentricity_from_lattice", form, harmonic_n=n, harmonic_m=m)
        return _invoke(obj, "eccentricity_from_particles", form, harmonic_n=n, harmonic_m=m, weight_quantity=wq)
    return _invoke(obj, "eccentricity", form, harmonic_n=n, harmonic_m=m, weight_quantity=wq)


def _canon_strict(fn, strict=False, env=None):
    """like `_canon`, also telling whether the call RAISED.  strict: warnings are errors (numpy's too), the way a
    caller running with -W error sees them, so a call that warns fails at that point of its work."""
    raised = True
    try:
        if env is not None:  # the call runs in the altered environment as it is (no errstate override)
            with _Env(env) as e_:
                try:
                    with warnings.catch_warnings():
                        warnings.simplefilter("error" if strict else "ignore")
                        r = complex(fn())
                finally:
                    ENV_CHANGES.extend(e_.changes())
        elif strict:
            with warnings.catch_warnings(), np.errstate(all="warn"):
                warnings.simplefilter("error")
                r = complex(fn())
        else:
            with warnings.catch_warnings(), np.errstate(all="ignore"):
                warnings.simplefilter("ignore")
                r = complex(fn())
        raised = False
    except ValueError:
        return ("err", "value"), raised
    except ZeroDivisionError:
        return ("err", "zerodiv"), raised
    except Exception as e:
        return ("err", "other:" + type(e).__name__), raised
    if not (math.isfinite(r.real) and math.isfinite(r.imag)):
        return ("err", "zerodiv"), raised
    return ("ok", r), raised


def _made(data, form, var):
    """an EventCharacteristics object on `data`; data and object possibly replaced by a copy first"""
    cp = (var or {}).get("copy") or {}
    return _cp(_construct(_cp(data, cp.get("data")), form), cp.get("ec"))


def real_particles(parts, n, m, wq, via="eccentricity", container="list", form=None, var=None):
    form = form or "pos"

    def run():
        ec = _made(_container(_particles(parts, var), container), form, var)
        return _ecc(ec, False, "direct" if via != "eccentricity" else via, form, n, m, wq)
    return _canon_strict(run, env=(var or {}).get("env"))[0]


def _lattice(ext, shape, grid, layout="C", axes="C", var=None):
    from sparkx.Lattice3D import Lattice3D
    cls = _subclass(Lattice3D, "TaggedLattice") if (var or {}).get("lsub") else Lattice3D
    lat = cls(ext[0], ext[1], ext[2], ext[3], ext[4], ext[5], shape[0], shape[1], shape[2])
    lat.grid_ = _lay(np.array(grid, dtype=float).reshape(shape), layout)
    if axes and axes != "C":
        lat.x_values_ = _lay(lat.x_values_, axes)
        lat.y_values_ = _lay(lat.y_values_, axes)
        lat.z_values_ = _lay(lat.z_values_, axes)
    return lat


def logical_grid(lat):
    """the densities as the lattice holds them, read element by element: grid_[i, j, k]"""
    sh = lat.grid_.shape
    return [[[float(lat.grid_[i, j, l]) for l in range(sh[2])] for j in range(sh[1])] for i in range(sh[0])]


def real_lattice(ext, shape, grid, n, m, layout="C", axes="C", form=None, via="eccentricity", var=None, wq="energy"):
    form = form or "pos"

    def run():
        ec = _made(_lattice(ext, shape, grid, layout, axes, var), form, var)
        return _ecc(ec, True, via, form, n, m, wq)
    return _canon_strict(run, env=(var or {}).get("env"))[0]


# ------------------------------------------------------------------ independent reference (the property's formula)
def radial_power(n, m):
    return m if m is not None else (3 if n == 1 else n)


def weight_of(wq, part):
    return 1.0 if wq == "number" else part[WIDX[wq]]


def ref_ecc(pts, n, k):
    """-sum(w r^k u^n)/sum(w r^k), u = (x+iy)/r, by complex multiplication only.
    Returns (value | None when the denominator is zero, condition number sum|a|/|sum a|)."""
    num_re, num_im, den, sabs = [], [], [], 0.0
    for w, x, y in pts:
        r = math.hypot(x, y)
        if r == 0.0:
            continue
        u = complex(x / r, y / r)
        un = 1 + 0j
        for _ in range(n):
            un *= u
        a = w * r ** k
        num_re.append(a * un.real)
        num_im.append(a * un.imag)
        den.append(a)
        sabs += abs(a)
    d = math.fsum(den)
    if d == 0.0:
        return None, math.inf
    return -complex(math.fsum(num_re) / d, math.fsum(num_im) / d), sabs / abs(d)


def pts_of(parts, wq):
    return [(weight_of(wq, p), p[4], p[5]) for p in parts]


def cclose(a, b, tol):
    return abs(a - b) <= tol


# ------------------------------------------------------------------ generators
def gen_positions(rng, k):
    mode = rng.choice(["uniform", "uniform", "dyadic", "axes", "ring", "mixed"])
    scale = rng.choice([1.0, 1.0, 1.0, 1e-3, 1e3, 0.125, 8.0])
    out = []
    for _ in range(k):
        mm = mode if mode != "mixed" else rng.choice(["uniform", "dyadic", "axes", "origin"])
        if mm == "uniform":
            x, y = rng.uniform(-5, 5), rng.uniform(-5, 5)
        elif mm == "dyadic":
            x, y = rng.randint(-40, 40) / 8.0, rng.randint(-40, 40) / 8.0
        elif mm == "axes":
            v = rng.randint(1, 24) / 4.0
            x, y = rng.choice([(v, 0.0), (-v, 0.0), (0.0, v), (0.0, -v), (-v, -0.0)])
        elif mm == "ring":
            a = rng.uniform(-math.pi, math.pi)
            x, y = 2.5 * math.cos(a), 2.5 * math.sin(a)
        else:
            x, y = 0.0, 0.0
        out.append((x * scale, y * scale))
    return out


def gen_parts(rng, lo=0, hi=10, positive=False):
    k = rng.randint(lo, hi)
    parts = []
    for x, y in gen_positions(rng, k):
        E = rng.choice([rng.uniform(0.1, 10.0), rng.randint(1, 64) / 8.0])
        if not positive and rng.random() < 0.05:
            E = 0.0
        ch = float(rng.choice([-2, -1, 0, 1, 1, 2]))
        b = float(rng.choice([-1, 0, 0, 1, 1]))
        s = float(rng.choice([-3, -2, -1, 0, 0, 1, 2]))
        if positive:
            ch, b, s = abs(ch), abs(b), abs(s)
        parts.append([E, ch, b, s, x, y])
    return parts


def gen_extras(rng):
    """arbitrary values for some of the attributes the eccentricity must not read"""
    ex = {}
    for a in rng.sample(EXTRA_ATTRS, rng.randint(1, 6)):
        if a == "weight":
            ex[a] = rng.choice([0.0, 0.5, 2.0, 3.5, -1.0, 17.0, rng.uniform(0.1, 9.0)])
        elif a == "pdg":
            ex[a] = rng.choice([211, -211, 2212, 22, 3122, -321, 9999999])
        elif a in ("pdg_mother1", "pdg_mother2"):
            ex[a] = rng.choice([113, 2224, 0])
        elif a in ("ID", "ncoll", "status", "proc_id_origin", "proc_type_origin"):
            ex[a] = rng.choice([-1, 0, 1, 2, 7, 45, 1000])
        else:
            ex[a] = rng.choice([0.0, rng.uniform(-50.0, 50.0), rng.uniform(0.0, 5.0), 1e6])
    return ex


def with_extras(rng, parts, prob=0.5):
    """give (some of) the particles irrelevant attributes; 'weight' is set on most of them when at all"""
    if rng.random() >= prob:
        return parts
    out = []
    for p in parts:
        if rng.random() < 0.8:
            ex = gen_extras(rng)
            if rng.random() < 0.5:
                ex["weight"] = rng.choice([0.0, 0.5, 2.0, 3.5, -1.0, 17.0, rng.uniform(0.1, 9.0)])
            out.append(list(p[:6]) + [ex])
        else:
            out.append(list(p[:6]))
    return out


def gen_var(rng, lattice=False):
    """the round-4 devices for one case: copies of the input / the object, subclasses, environment"""
    var = {}
    if rng.random() < 0.3:
        who = rng.sample(["data", "ec"] + ([] if lattice else ["particle"]), rng.choice([1, 1, 2]))
        var["copy"] = {w: rng.choice(COPY_MODES) for w in who}
    if rng.random() < 0.15:
        var["lsub" if lattice else "psub"] = True
    if rng.random() < 0.2:
        var["env"] = rng.randint(1, 10 ** 6)
    return var


def gen_neutral(rng):
    """adjacent pairs with bit-identical radial factor and opposite weight: norm is exactly 0 in any arithmetic"""
    parts = []
    for _ in range(rng.randint(1, 3)):
        x, y = rng.uniform(-4, 4), rng.uniform(-4, 4)
        sx, sy = rng.choice([1, -1]), rng.choice([1, -1])
        c = float(rng.choice([1, 2]))
        parts.append([1.0, c, 1.0, c, x, y])
        parts.append([1.0, -c, -1.0, -c, sx * x, sy * y])
    return parts


def gen_nm(rng, bad=0.0):
    n = rng.choice([1, 1, 2, 2, 3, 3, 4, 5, 6])
    m = None if rng.random() < 0.45 else rng.randint(1, 6)
    if rng.random() < bad:
        if rng.random() < 0.5:
            n = rng.choice([0, -1, -3])
        else:
            m = rng.choice([0, -1, -2])
    return n, m


def gen_lattice(rng, nonneg=None):
    shape = [rng.randint(1, 5), rng.randint(1, 5), rng.randint(1, 3)]

    def axis():
        mode = rng.choice(["sym", "pos", "neg", "gen"])
        if mode == "sym":
            a = rng.randint(1, 16) / 4.0
            return -a, a
        if mode == "pos":
            a = rng.uniform(0.0, 2.0)
            return a, a + rng.uniform(0.5, 4.0)
        if mode == "neg":
            a = rng.uniform(0.0, 2.0)
            return -a - rng.uniform(0.5, 4.0), -a
        a = rng.uniform(-4, 4)
        return a, a + rng.uniform(0.5, 5.0)
    x0, x1 = axis()
    y0, y1 = axis()
    z0, z1 = axis()
    if nonneg is None:
        nonneg = rng.random() < 0.7
    grid = [[[(rng.randint(0, 32) / 8.0 if rng.random() < 0.5 else rng.uniform(0.0, 5.0)) if nonneg
              else rng.uniform(-2.0, 5.0)
              for _ in range(shape[2])] for _ in range(shape[1])] for _ in range(shape[0])]
    return [x0, x1, y0, y1, z0, z1], shape, grid


# ------------------------------------------------------------------ driver lines
def enc_m(m):
    return "-" if m is None else str(m)


def line_particles(n, m, wq, seen):
    ps = ";".join(",".join(f2h(v) for v in p) for p in seen) if seen else "."
    return f"p\t{n}\t{enc_m(m)}\t{common.hexs(wq)}\t{ps}"


def line_lattice(n, m, xs, ys, nz, grid):
    g = "|".join("/".join(";".join(f2h(v) for v in row) for row in plane) for plane in grid)
    return f"l\t{n}\t{enc_m(m)}\t{common.fl(xs)}\t{common.fl(ys)}\t{nz}\t{g}"


def parse_model(out):
    t = out.split()
    if t[:1] == ["ok"] and len(t) == 3:
        return ("ok", complex(h2f(t[1]), h2f(t[2])))
    if t[:1] == ["err"] and len(t) == 2:
        return ("err", t[1])
    return ("bad", out)


def same(real, model, cond, exact_zero=False):
    """compare the canonical outcomes.  Returns True | False | 'ill' (not comparable: the denominator is a
    rounding residue, cond > 1e6, so 'value' vs 'value' / 'zerodiv' differences carry no information)."""
    if exact_zero:  # generated so that norm is exactly 0 in any arithmetic
        return real == model and real[0] == "err"
    if "value" in (real[1], model[1]) or real[0] == "bad" or model[0] == "bad" or str(real[1]).startswith("other"):
        return real == model
    if cond > 1e6:
        return "ill"
    if real[0] != model[0]:
        return False
    if real[0] == "err":
        return real[1] == model[1]
    return cclose(real[1], model[1], TOL * max(1.0, cond))


# ------------------------------------------------------------------ sessions: one long-lived object, a history of ops
P_ATTRS = ["x", "y", "E", "charge", "baryon_number", "strangeness"]


def _build(spec):
    """spec -> the live data object handed to EventCharacteristics (held by reference there)"""
    if spec["kind"] == "lattice":
        return _lattice(spec["extent"], spec["shape"], spec["grid"], spec.get("layout", "C"), spec.get("axes", "C"),
                        spec.get("var"))
    return _container(_particles(spec["particles"], spec.get("var")), spec.get("container"))


def _is_lattice(data):
    from sparkx.Lattice3D import Lattice3D
    return isinstance(data, Lattice3D)


def _content(data):
    """CURRENT content of the live data as plain numbers: ('l', xs, ys, nz, grid) | ('p', seen).
    An element that is not a Particle is shown as None."""
    from sparkx.Particle import Particle
    if _is_lattice(data):
        return ("l", [float(v) for v in data.x_values_], [float(v) for v in data.y_values_],
                int(data.grid_.shape[2]), logical_grid(data))
    return ("p", [_seen([p])[0] if isinstance(p, Particle) else None for p in list(data)])


def content_ok(content, data=None):
    """is the content inside the property's domain: only particles with all read attributes set / a grid whose
    shape is that of the coordinate axes and without NaN"""
    if content[0] == "p":
        return all(p is not None and all(v == v for v in p) for p in content[1])
    _, xs, ys, nz, g = content
    if len(g) != len(xs) or any(len(pl) != len(ys) for pl in g) or (data is not None and nz != len(data.z_values_)):
        return False
    return all(v == v for pl in g for row in pl for v in row)


def _observe(ec):
    """everything observable about an EventCharacteristics object without calling its methods: the documented
    attributes (identity of the held data, has_lattice_), any further instance attribute, and the full content and
    representation of the held data (identity of the elements included)."""
    obs = {}
    for k, v in sorted(vars(ec).items()):
        if isinstance(v, (bool, int, float, str, type(None))):
            obs[k] = repr(v)
        else:
            obs[k] = f"{type(v).__name__}@{id(v)}" + (f"/len={len(v)}" if hasattr(v, "__len__") else "")
    data = getattr(ec, "event_data_", None)
    if data is not None:
        try:
            obs["content"] = repr(_content(data))
            if _is_lattice(data):
                obs["stored"] = _stored(data.grid_) + f"/grid@{id(data.grid_)}"
            else:
                obs["elements"] = [id(p) for p in list(data)]
        except Exception as e:
            obs["content"] = "unreadable:" + type(e).__name__
    return obs


def _content_pts(content, wq):
    if content[0] == "l":
        _, xs, ys, nz, g = content
        return [(g[i][j][l], xs[i], ys[j]) for i in range(len(xs)) for j in range(len(ys)) for l in range(nz)]
    return [(1.0 if wq == "number" else p[WIDX.get(wq, 0)], p[4], p[5]) for p in content[1]]


def _pattern_grid(shape, co):
    a, b, c, d = co
    return np.array([[[a + b * i + c * j + d * l for l in range(shape[2])] for j in range(shape[1])]
                     for i in range(shape[0])], dtype=float)


def _apply(data, op):
    """apply one in-place mutation to the live data through its public API.  Ops that do not fit the kind of data
    currently held (or its size) are no-ops, so every subsequence of a history is a valid history.
    Returns True when the op was applicable."""
    from sparkx.Lattice3D import Lattice3D
    name = op["op"]
    try:
        if _is_lattice(data):
            lat = data
            sh = lat.grid_.shape
            fx = lambda u, lo, hi: lo + u * (hi - lo)
            if name == "reset":
                lat.reset()
            elif name == "set_value_by_index":
                lat.set_value_by_index(op["i"] % sh[0], op["j"] % sh[1], op["k"] % sh[2], op["v"])
            elif name in ("set_value_nearest_neighbor", "set_value"):
                getattr(lat, name)(fx(op["u"][0], lat.x_min_, lat.x_max_), fx(op["u"][1], lat.y_min_, lat.y_max_),
                                   fx(op["u"][2], lat.z_min_, lat.z_max_), op["v"])
            elif name == "rescale":
                lat.rescale(op["f"])
            elif name == "add_particle_data":
                if None in (lat.spacing_x_, lat.spacing_y_, lat.spacing_z_):
                    return False
                from sparkx.Particle import Particle
                q = Particle()
                q.x, q.y, q.z = (fx(op["u"][0], lat.x_min_, lat.x_max_), fx(op["u"][1], lat.y_min_, lat.y_max_),
                                 fx(op["u"][2], lat.z_min_, lat.z_max_))
                q.E, q.charge, q.baryon_number, q.strangeness = op["v"], 1, 1, 1
                sig = 0.5 * min(lat.spacing_x_, lat.spacing_y_, lat.spacing_z_)
                with np.errstate(all="ignore"):
                    lat.add_particle_data([q], sig, op["quantity"], add=op["add"])
            elif name == "add_same_spaced_grid":
                other = Lattice3D(lat.x_min_, lat.x_max_, lat.y_min_, lat.y_max_, lat.z_min_, lat.z_max_, sh[0], sh[1], sh[2])
                other.grid_ = _pattern_grid(sh, op["co"])
                lat.add_same_spaced_grid(other, 0.0, 0.0, 0.0)
            elif name == "assign_arith":  # lattice arithmetic, result put in place of the old contents
                other = Lattice3D(lat.x_min_, lat.x_max_, lat.y_min_, lat.y_max_, lat.z_min_, lat.z_max_, sh[0], sh[1], sh[2])
                other.grid_ = _pattern_grid(sh, op["co"])
                res = {"+": lat + other, "-": lat - other, "*": lat * other}[op["sym"]]
                lat.grid_ = res.grid_
            elif name == "grid_iadd":
                lat.grid_ += _pattern_grid(sh, op["co"])
            elif name == "relayout":  # the same densities assigned again in another representation
                lat.grid_ = _lay(np.array(logical_grid(lat)).reshape(sh), op["layout"])
            elif name == "l_nan":  # a NaN density at the first / a middle / the last node
                g = np.array(lat.grid_, dtype=float)
                g.flat[_pos(op["pos"], g.size)] = np.nan
                lat.grid_ = g
            elif name == "l_shape":  # grid_ longer than the coordinate axes: the node loop fails when it gets there
                g = np.array(lat.grid_, dtype=float)
                ax = op["axis"] % 3
                lat.grid_ = np.concatenate([g, np.take(g, [0], axis=ax)], axis=ax)
            elif name == "heal":
                want = (len(lat.x_values_), len(lat.y_values_), len(lat.z_values_))
                g = np.array(lat.grid_, dtype=float)
                if g.shape != want or np.isnan(g).any():
                    g = g[:want[0], :want[1], :want[2]].copy()
                    g[np.isnan(g)] = op["v"]
                    lat.grid_ = g
            else:
                return False
            return True
        # particle container
        n = len(data)
        if name == "p_set":
            if n == 0:
                return False
            setattr(data[op["idx"] % n], op["attr"], op["value"])
        elif name == "p_replace":
            if n == 0:
                return False
            data[op["idx"] % n] = _particles([op["part"]])[0]
        elif name == "p_reverse":
            data[:] = data[::-1]
        elif name == "p_append":
            if not isinstance(data, list):
                return False
            data.append(_particles([op["part"]])[0])
        elif name == "p_pop":
            if not isinstance(data, list) or n <= 1:
                return False
            data.pop(op["idx"] % n)
        elif name == "p_poison":  # an element of the wrong type at the first / a middle / the last position
            if n == 0:
                return False
            data[_pos(op["pos"], n)] = {"str": "particle", "float": 1.5, "none": None, "dict": {"x": 1.0}}[op["what"]]
        elif name == "p_unset":  # a particle with an unset (NaN) attribute at the first / a middle / the last position
            if n == 0:
                return False
            setattr(data[_pos(op["pos"], n)], op["attr"], np.nan)
        elif name == "p_clear":
            if not isinstance(data, list):
                return False
            del data[:]
        elif name == "heal":
            from sparkx.Particle import Particle
            fill = op["part"]
            for i in range(n):
                if not isinstance(data[i], Particle):
                    data[i] = _particles([fill])[0]
                else:
                    for attr, v in zip(["E", "charge", "baryon_number", "strangeness", "x", "y"], fill):
                        if np.isnan(getattr(data[i], attr)):
                            setattr(data[i], attr, v)
            if n == 0 and isinstance(data, list):
                data.append(_particles([fill])[0])
        else:
            return False
        return True
    except Exception:
        return True  # whatever the call changed before raising is read back from the live object


def _pos(pos, n):
    return {"first": 0, "middle": n // 2, "last": n - 1}[pos]


def _bad_data(spec):
    """data that set_event_data / the constructor must reject, as a caller could hand it in by mistake"""
    what = spec["what"]
    if what == "tuple":
        return tuple(_particles(spec["particles"]))
    if what == "none":
        return None
    if what == "int":
        return 3
    if what == "dict":
        return {"particles": _particles(spec["particles"])}
    if what == "str":
        return "particles.oscar"
    if what == "float-array":
        return np.array([p[4] for p in spec["particles"]], dtype=float)
    if what == "nested":  # a list of events instead of one event
        return [_particles(spec["particles"])]
    if what in REJECTED_CONTAINERS:  # sequences / one-shot iterators the docs do not list
        return _container(_particles(spec["particles"]), what)
    pl = _particles(spec["particles"])  # a list with one element of the wrong type
    bad = {"str": "particle", "float": 1.5, "none": None, "row": list(spec["particles"][0])}[spec["element"]]
    pl[_pos(spec["pos"], len(pl))] = bad
    return _container(pl, spec.get("container"))


def _agree(a, b, tol):
    if a[0] != b[0]:
        return False
    if a[0] == "err":
        return a[1] == b[1]
    return cclose(a[1], b[1], tol)


def form_key(call_in_form, ref, tol, form, method):
    """a call that misses the formula in call form `form`: if the very same call is right in another of the
    equivalent forms, the call form is what matters -> key `call-form:<method>:<form>`"""
    for alt in FORMS:
        if alt != form and _agree(call_in_form(alt), ("ok", ref), tol):
            # ... and wrong again when repeated in the original form (not a one-off caused by an earlier call)
            if not _agree(call_in_form(form), ("ok", ref), tol):
                return f"call-form:{method}:{form}"
            return None
    return None


STATS = {}  # what the sessions exercised (flushed into the evidence histogram)


def _stat(tag):
    STATS[tag] = STATS.get(tag, 0) + 1


def flush_stats(ctx):
    for k, v in STATS.items():
        ctx.count(k, v)
    STATS.clear()


def valid_call(n, m, wq, lat, via):
    """are the arguments inside the property's quantifier (n >= 1, m omitted or >= 1, a known weight quantity)"""
    return (type(n) is int and n >= 1 and (m is None or (type(m) is int and m >= 1))
            and (lat or wq in WQS) and via != "cross")


def run_session(session, record=None, _nested=False):
    """Run a history on long-lived EventCharacteristics objects ('main', and 'other' holding its own data, to see
    state shared between objects).  Every API call is issued in the call form the op names and caught the way a
    caller would.  After every call:
      * a call that RAISED must leave its object exactly as it was (`_observe` before = after),
      * every call is compared with a fresh object on the same live data (outcome class for failing calls),
      * a valid call on valid content is compared with the formula on the CURRENT content.
    Returns None or (key, what, detail).  With `record` (a list) nothing is judged: every valid compute that returned
    is appended as (step, n, m, wq, content, result) for the comparison with the model."""
    objs = {}
    raised_steps = []  # steps whose call raised (on any object)

    def make(name, spec):
        var = {k: v for k, v in (spec.get("var") or {}).items() if k != "env"}
        ec = _made(_build(spec), session.get("cform", "pos"), var)
        # (a copied object / input holds its own data: everything below works on what the object holds)
        objs[name] = dict(ec=ec, data=ec.event_data_, since=[], failed=[])
    make("main", session["init"])
    if session.get("other"):
        make("other", session["other"])
    for step, op in enumerate(session["ops"]):
        name = op["op"]
        o = objs.get(op.get("obj", "main")) or objs["main"]
        ec, data = o["ec"], o["data"]
        form = op.get("form", "pos")
        if name == "bad_construct":  # a constructor call that fails; nothing to hold on to, later calls must not care
            try:
                _construct(_bad_data(op["data"]), form)
            except Exception:
                pass
            continue
        if name == "set_event_data":
            bad = (op.get("data") or {}).get("kind") == "bad"
            new = data if op.get("data") is None else (_bad_data(op["data"]) if bad else
                                                       _cp(_build(op["data"]), ((op["data"].get("var") or {}).get("copy") or {}).get("data")))
            before = _observe(ec) if record is None else None
            try:
                _invoke(ec, "set_event_data", form, event_data=new)
                if bad and record is None:
                    return (f"documented-rejection-missing:event_data:{op['data']['what']}",
                            f"step {step}: set_event_data({op['data']['what']} data) was accepted; the documentation says it raises TypeError",
                            dict(step=step))
                o["data"] = new
                o["since"].append(name)
            except Exception as e:
                raised_steps.append((step, "set_event_data"))
                o["failed"].append("set_event_data")
                _stat(f"session/failed-call/set_event_data/{type(e).__name__}")
                if record is None and _observe(ec) != before:
                    after = _observe(ec)
                    return ("error-path:object-changed-by-failed-call:set_event_data",
                            f"step {step}: set_event_data({op['data'].get('what')!r} data) raised {type(e).__name__} but "
                            f"the object is not what it was before the call: "
                            f"{ {k: (before.get(k), after.get(k)) for k in set(before) | set(after) if before.get(k) != after.get(k)} }",
                            dict(step=step, before=before, after=after))
            continue
        if name == "copy_obj":  # carry on with a copy of the long-lived object
            o["ec"] = _cp(ec, op["mode"])
            o["data"] = o["ec"].event_data_
            o["since"].append("copy_obj:" + op["mode"])
            continue
        if name != "compute":
            if _apply(data, op):
                o["since"].append(name)
            continue
        n, m, wq, via = op["n"], op["m"], op["wq"], op.get("via", "eccentricity")
        lat = _is_lattice(data)
        strict = bool(op.get("strict"))
        method = ("eccentricity" if via == "eccentricity" else
                  "eccentricity_from_lattice" if (lat if via == "direct" else not lat) else "eccentricity_from_particles")
        before = _observe(ec) if record is None else None
        del ENV_CHANGES[:]
        real, raised = _canon_strict(lambda: _ecc(ec, lat, via, form, n, m, wq), strict, env=op.get("env"))
        content = _content(data)
        if ENV_CHANGES and record is None:
            return ("environment:changed-by-call:" + "+".join(sorted(set(ENV_CHANGES))),
                    f"step {step}: the call left the process environment changed: {sorted(set(ENV_CHANGES))}", dict(step=step))
        in_domain = valid_call(n, m, wq, lat, via) and content_ok(content, data)
        if record is not None:
            if in_domain and not raised:
                record.append((step, n, m, wq, content, real))
            if raised:
                o["failed"].append(method)
            else:
                o["since"], o["failed"] = [], []
            continue
        kind = "lattice" if lat else "particles"
        _stat(f"session/call-form/{form}")
        if raised:
            _stat(f"session/failed-call/{method}/{real[1]}{'/warnings-as-errors' if strict else ''}")
        elif in_domain and (o["failed"] or (op.get("obj") == "other" and objs["main"]["failed"])):
            _stat("session/valid-call-after-failed-call" + ("/other-object" if op.get("obj") == "other" else ""))
        shown = f"{method}({n!r},{m!r},{wq!r}) [call form {form}{', warnings as errors' if strict else ''}]"
        # documented rejections: harmonic order < 1, unknown weight quantity (particles) -> ValueError
        if type(n) is int and n < 1 and via != "cross" and real != ("err", "value"):
            return ("documented-rejection-missing:harmonic_n", f"step {step}: {shown} gives {real}; documented: ValueError",
                    dict(step=step))
        if (not lat and via != "cross" and (wq is None or isinstance(wq, str)) and wq not in WQS and content_ok(content, data)
                and content[1] and valid_call(n, m, "energy", lat, via) and real != ("err", "value")):
            return ("documented-rejection-missing:weight_quantity", f"step {step}: {shown} gives {real}; documented: ValueError",
                    dict(step=step))
        if raised:
            after = _observe(ec)
            if after != before:
                return (f"error-path:object-changed-by-failed-call:{method}",
                        f"step {step}: {shown} failed with {real[1]} but the object is not what it was before the call: "
                        f"{ {k: (before.get(k), after.get(k)) for k in set(before) | set(after) if before.get(k) != after.get(k)} }",
                        dict(step=step, before=before, after=after))
        detail = dict(step=step, call=dict(n=n, m=m, weight_quantity=wq, via=via, form=form, strict=strict, obj=op.get("obj", "main")),
                      same_object=str(real), ops_since_previous_call=list(o["since"]),
                      failed_calls_since_previous_result=list(o["failed"]), content=content)
        # a fresh object on the same live data (only constructible when every element still is a Particle)
        constructible = content[0] == "l" or all(p is not None for p in content[1])
        if constructible:
            # (same call form, so that a difference can only come from the object's history)
            fresh, _ = _canon_strict(lambda: _ecc(_construct(data, "kw" if session.get("cform", "pos") == "pos" else "pos"),
                                                  lat, via, form, n, m, wq), strict)
            detail["fresh_object"] = str(fresh)
            scale = max([1.0] + [abs(r[1]) for r in (real, fresh) if r[0] == "ok"])
            ref = cond = None
            if in_domain:
                ref, cond = ref_ecc(_content_pts(content, wq), n, radial_power(n, m))
                if math.isfinite(cond) and cond <= 1e4:
                    scale = cond
                detail["formula_on_current_content"] = str(ref)
            tol = 1e-9 * max(1.0, scale)
            if not _agree(real, fresh, tol):
                if o["failed"]:
                    key = f"instance-reuse-after-error-{kind}-{o['failed'][-1]}"
                else:
                    key = f"instance-reuse-{kind}-after-{o['since'][-1] if o['since'] else 'compute'}"
                return (key, f"step {step}: {shown} on the long-lived object gives {real}, a fresh EventCharacteristics on the "
                             f"same {kind} data gives {fresh} (formula on the current content: {ref!r}); ops since the previous "
                             f"call on this object: {o['since'] or ['(none)']}; calls that failed on it since its previous "
                             f"result: {o['failed'] or ['(none)']}", detail)
            if in_domain and ref is not None and cond <= 1e4 and not _agree(real, ("ok", ref), tol):
                mk = "m-given" if m is not None else ("m-default-n1" if n == 1 else "m-default")
                key = "formula:lattice" + _stored(data.grid_) if lat else f"formula:particles:{wq}:{mk}"
                key = form_key(lambda f: _canon_strict(lambda: _ecc(_construct(data), lat, via, f, n, m, wq), strict)[0],
                               ref, tol, form, method) or key
                if not lat and not key.startswith("call-form"):
                    # does the result depend on an attribute the eccentricity must not read?
                    live = list(data)

                    def with_attrs(attrs):
                        rows = [row + [{a: float(getattr(q, a)) for a in attrs if getattr(q, a) == getattr(q, a)}]
                                for row, q in zip(content[1], live)]
                        return _canon_strict(lambda: _ecc(_construct(_particles(rows)), False, via, form, n, m, wq), strict)[0]
                    if _agree(with_attrs([]), ("ok", ref), tol):
                        need = [a for a in EXTRA_ATTRS if not _agree(with_attrs([a]), ("ok", ref), tol)]
                        if need:
                            key = f"irrelevant-attribute:{wq}:{'+'.join(need)}"
                if raised_steps and not _nested and not key.startswith("call-form"):
                    # fresh objects are wrong too.  Is it because of the calls that failed earlier (state shared
                    # between objects)?  Run the same history without them.
                    drop = {i for i, _ in raised_steps}
                    sub = dict(session, ops=[o_ for i, o_ in enumerate(session["ops"][:step + 1]) if i not in drop])
                    if run_session(sub, _nested=True) is None:
                        key = f"instance-reuse-after-error-shared-state-{kind}-{raised_steps[-1][1]}"
                return (key, f"step {step}: {shown} = {real} but the formula on the current content gives {ref!r} "
                             f"(fresh object: {fresh})", detail)
        if raised:
            raised_steps.append((step, method))
            o["failed"].append(method)
        else:
            o["since"], o["failed"] = [], []
    return None


def gen_spec(rng, kind=None):
    kind = kind or rng.choice(["particles", "lattice"])
    if kind == "particles":
        return dict(kind="particles", particles=with_extras(rng, gen_parts(rng, 2, 7, positive=rng.random() < 0.7), prob=0.4),
                    container=rng.choice(CONTAINERS) if rng.random() < 0.35 else "list", var=gen_var(rng))
    ext, shape, grid = gen_lattice(rng, nonneg=rng.random() < 0.8)
    if rng.random() < 0.6:
        shape = [max(2, v) for v in shape]
        grid = [[[rng.uniform(0.0, 5.0) for _ in range(shape[2])] for _ in range(shape[1])] for _ in range(shape[0])]
    return dict(kind="lattice", extent=ext, shape=shape, grid=grid, layout=gen_layout(rng), axes=gen_axes_layout(rng),
                var=gen_var(rng, lattice=True))


def gen_compute(rng, obj="main"):
    n, m = gen_nm(rng)
    op = dict(op="compute", n=n, m=m, wq=rng.choice(WQS), via="direct" if rng.random() < 0.2 else "eccentricity",
              form=rng.choice(FORMS))
    if rng.random() < 0.15:
        op["strict"] = True  # warnings as errors: harmless on a call that has no reason to warn
    elif rng.random() < 0.12:
        op["env"] = rng.randint(1, 10 ** 6)  # fresh cwd, numpy print options / seterr, advanced global RNG states
    if obj != "main":
        op["obj"] = obj
    return op


def gen_bad_compute(rng):
    """a call that is expected to be rejected: invalid value or type of an argument, unknown weight name,
    the method of the other variant"""
    op = gen_compute(rng)
    what = rng.choice(["n", "n", "m", "m", "wq", "wq", "n-type", "m-type", "cross"])
    if what == "n":
        op["n"] = rng.choice([0, -1, -3])
    elif what == "m":
        op["m"] = rng.choice([0, -1, -2])
    elif what == "wq":
        op["wq"] = rng.choice(BAD_WQ)
    elif what == "n-type":
        op["n"] = rng.choice(["2", None, [2]])
    elif what == "m-type":
        op["m"] = rng.choice(["3", [1]])
    else:
        op["via"] = "cross"
    return op


def gen_bad_data(rng):
    what = rng.choice(["tuple", "none", "int", "dict", "str", "float-array", "nested", "element", "element", "element",
                       "generator", "iter", "map", "deque"])
    spec = dict(kind="bad", what=what, particles=gen_parts(rng, 2, 5, positive=True))
    if what == "element":
        spec.update(element=rng.choice(["str", "float", "none", "row"]), pos=rng.choice(["first", "middle", "last"]),
                    container=rng.choice(["list", "ndarray"]))
    return spec


def gen_error_block(rng, kind):
    """ops around calls that fail at different points of their work, then (mostly) a repair of the data"""
    r = rng.random()
    fill = gen_parts(rng, 1, 1, positive=True)[0]
    heal = dict(op="heal", part=fill, v=rng.randint(1, 20) / 4.0)
    if r < 0.3:  # rejected up front (or at the first element, for the weight name)
        return [gen_bad_compute(rng) for _ in range(rng.randint(1, 2))]
    if r < 0.5:  # data rejected by set_event_data / the constructor, up front or at the offending element
        op = dict(op="set_event_data" if rng.random() < 0.75 else "bad_construct", data=gen_bad_data(rng), form=rng.choice(FORMS))
        return [op]
    if r < 0.62:  # the quotient does not exist: fails (or warns) at the very end of the work
        z = dict(op="reset") if kind == "lattice" else dict(op="p_clear")
        c = gen_compute(rng)
        c["strict"] = rng.random() < 0.6
        return [z, c, heal] if kind != "lattice" else [z, c, gen_mutation(rng, kind)]
    pos = rng.choice(["first", "middle", "last"])
    if kind == "lattice":
        poison = rng.choice([dict(op="l_nan", pos=pos), dict(op="l_shape", axis=rng.randint(0, 2))])
    else:
        poison = rng.choice([dict(op="p_poison", pos=pos, what=rng.choice(["str", "float", "none", "dict"])),
                             dict(op="p_unset", pos=pos, attr=rng.choice(P_ATTRS))])
    ops = [poison] + [gen_compute(rng) for _ in range(rng.randint(1, 2))]
    if rng.random() < 0.85:
        ops.append(heal)
    return ops


def gen_mutation(rng, kind):
    if kind == "lattice":
        name = rng.choice(["reset", "set_value_by_index", "set_value_by_index", "set_value_nearest_neighbor", "set_value",
                           "rescale", "add_particle_data", "add_same_spaced_grid", "assign_arith", "grid_iadd", "relayout"])
        u = [rng.random(), rng.random(), rng.random()]
        co = [rng.randint(0, 8) / 4.0, rng.randint(0, 4) / 4.0, rng.randint(0, 4) / 4.0, rng.randint(0, 4) / 4.0]
        if name == "reset":
            return dict(op=name)
        if name == "relayout":
            return dict(op=name, layout=gen_layout(rng, plain=0.1))
        if name == "set_value_by_index":
            return dict(op=name, i=rng.randint(0, 4), j=rng.randint(0, 4), k=rng.randint(0, 2), v=rng.randint(1, 40) / 4.0)
        if name in ("set_value_nearest_neighbor", "set_value"):
            return dict(op=name, u=u, v=rng.randint(1, 40) / 4.0)
        if name == "rescale":
            return dict(op=name, f=rng.choice([0.0, 0.5, 2.0, 3.0]))
        if name == "add_particle_data":
            return dict(op=name, u=[0.25 + 0.5 * t for t in u], v=rng.uniform(0.5, 5.0),
                        quantity=rng.choice(["energy_density", "number_density"]), add=rng.random() < 0.5)
        if name == "assign_arith":
            return dict(op=name, sym=rng.choice(["+", "-", "*"]), co=co)
        return dict(op=name, co=co)
    name = rng.choice(["p_set", "p_set", "p_set", "p_replace", "p_reverse", "p_append", "p_pop"])
    if name == "p_set":
        if rng.random() < 0.3:  # an attribute the eccentricity must not read
            ex = gen_extras(rng)
            attr = rng.choice(sorted(ex))
            return dict(op=name, idx=rng.randint(0, 9), attr=attr, value=ex[attr])
        attr = rng.choice(P_ATTRS)
        value = (rng.uniform(-5, 5) if attr in ("x", "y") else rng.uniform(0.1, 10.0) if attr == "E"
                 else float(rng.choice([1, 2, 3])))
        return dict(op=name, idx=rng.randint(0, 9), attr=attr, value=value)
    if name in ("p_replace", "p_append"):
        return dict(op=name, idx=rng.randint(0, 9), part=with_extras(rng, gen_parts(rng, 1, 1, positive=True))[0])
    return dict(op=name, idx=rng.randint(0, 9))


def gen_session(rng):
    init = gen_spec(rng)
    kind = init["kind"]
    other = gen_spec(rng) if rng.random() < 0.5 else None
    ops = []
    for _ in range(rng.randint(2, 4)):
        ops += [gen_compute(rng) for _ in range(rng.randint(1, 2))]
        r = rng.random()
        if r < 0.17:
            spec = gen_spec(rng)
            kind = spec["kind"]
            ops.append(dict(op="set_event_data", data=spec, form=rng.choice(FORMS)))
        elif r < 0.23:
            ops.append(dict(op="set_event_data", data=None, form=rng.choice(FORMS)))  # hand the same object in again
        elif r < 0.55:
            ops += gen_error_block(rng, kind)
            if other and rng.random() < 0.6:  # does the failed call show on another object?
                ops.append(gen_compute(rng, obj="other"))
        else:
            ops += [gen_mutation(rng, kind) for _ in range(rng.randint(1, 3))]
        if rng.random() < 0.15:
            ops.append(dict(op="copy_obj", mode=rng.choice(COPY_MODES)))
        if other and rng.random() < 0.2:
            ops.append(gen_compute(rng, obj="other"))
    ops.append(gen_compute(rng))
    s = dict(kind="session", init=init, ops=ops, cform=rng.choice(["pos", "kw"]))
    if other:
        s["other"] = other
    return s


def shrink_session(session, key):
    """delta-debugging on the history (ops, then the particles of the initial / swapped-in lists); a candidate is
    kept when it still fails in the same class (same key up to the name of the last op)."""
    def cls_of(k):
        if k.startswith("instance-reuse-after-error"):
            return "instance-reuse-after-error"
        if k.startswith("error-path:") or k.startswith("call-form:"):
            return k
        return k.rsplit("-after-", 1)[0]
    cls = cls_of(key)

    def fails(s):
        r = run_session(s)
        return r is not None and cls_of(r[0]) == cls
    cur = json.loads(json.dumps(session))
    r = run_session(cur)
    if r and "step" in r[2]:
        cur["ops"] = cur["ops"][:r[2]["step"] + 1]
    changed = True
    while changed:
        changed = False
        for i in range(len(cur["ops"]) - 1, -1, -1):
            cand = dict(cur, ops=cur["ops"][:i] + cur["ops"][i + 1:])
            if cand["ops"] and fails(cand):
                cur = cand
                changed = True
        if cur.get("other") and fails({k: v for k, v in cur.items() if k != "other"}):
            del cur["other"]
            changed = True
        specs = [cur["init"]] + ([cur["other"]] if cur.get("other") else []) + \
            [o["data"] for o in cur["ops"] if o["op"] == "set_event_data" and o.get("data") and o["data"]["kind"] != "bad"]
        for spec in specs:
            if spec["kind"] == "lattice":
                for field in ("axes", "layout"):
                    old = spec.get(field, "C")
                    for cand in ["C"] + [t for t in old.split("+") if t != "C"]:
                        if cand == old:
                            continue
                        spec[field] = cand
                        if fails(cur):
                            changed = True
                            break
                        spec[field] = old
            if spec["kind"] != "particles":
                continue
            i = 0
            while len(spec["particles"]) > 1 and i < len(spec["particles"]):
                removed = spec["particles"].pop(i)
                if fails(cur):
                    changed = True
                else:
                    spec["particles"].insert(i, removed)
                    i += 1
    return cur


def _count_devices(ctx, var, parts):
    for who, mode in ((var or {}).get("copy") or {}).items():
        ctx.count(f"device/copy/{who}/{mode}")
    for k in ("env", "psub", "lsub"):
        if (var or {}).get(k):
            ctx.count("device/" + {"env": "environment", "psub": "Particle-subclass", "lsub": "Lattice3D-subclass"}[k])
    if parts and any(len(p) > 6 and p[6] for p in parts):
        ctx.count("device/irrelevant-attributes-set")
        if any(len(p) > 6 and p[6] and "weight" in p[6] for p in parts):
            ctx.count("device/irrelevant-attributes-set/weight")


# ------------------------------------------------------------------ correspondence (tie C)
def correspond(ctx):
    rng = ctx.rng
    ctx.rule = ("particle lists of 0..10 particles (uniform / dyadic / on-axis incl. negative x axis / ring / origin positions, "
                "overall scales 1e-3..1e3, weights energy|number|charge|baryon|strangeness incl. zero, negative and exactly "
                "cancelling ones, unknown weight names), n in 1..6 plus invalid n<1, m omitted | 1..6 | invalid m<1; lattices up "
                "to 5x5x3 with symmetric / one-sided axes, non-negative and signed densities.  non-trivial = a value is "
                "returned from >=2 particles (or nodes) off the origin; distinct by canonical input.  Sessions: one long-lived "
                "EventCharacteristics object, histories of compute / in-place mutation of the held Lattice3D (reset, set_value*, "
                "rescale, add_particle_data, add_same_spaced_grid, arithmetic result assigned, grid_ +=) or particle list "
                "(setters, replace, append, pop, reverse; list and ndarray containers) / set_event_data switching the input, "
                "grid_ re-assigned in another representation, "
                "(n, m, weight_quantity) varying per call; every call compared on the content held at that moment.  "
                "Representations: grid_ as C / Fortran-ordered array, transposing and swapaxes views, negative strides, "
                "non-contiguous slice of a bigger array, float32, int64, read-only (and combinations); coordinate arrays as "
                "reversed / strided / read-only views; particle containers list / object ndarray (plain, strided, reversed view, "
                "read-only); model and formula are always fed the logical content read element by element (grid_[i,j,k]).  "
                "Round-4 devices: particles carry arbitrary values of the attributes the eccentricity must not read (weight, status, "
                "ID, ncoll, pdg, t, z, momenta, ...), for every weight quantity; inputs and EventCharacteristics objects are "
                "replaced at random by their copy.copy / copy.deepcopy / pickle round trip before use (and mid-history); "
                "list / ndarray / Particle / Lattice3D subclasses; calls in a fresh cwd with non-default numpy print options, "
                "np.seterr(all='warn') and advanced global random / np.random states, which the call must leave as found; "
                "lattice calls through eccentricity() with every weight_quantity (documented to have no effect there); "
                "what the docs exclude must be rejected with the documented exception: tuples / deques / generators / iter / "
                "map objects and non-Particle elements as event data (TypeError), harmonic_n < 1 and unknown weight names "
                "incl. trailing blanks, CR/LF, other case, non-ASCII look-alikes (ValueError).  "
                "Call forms: every public call is issued all-positional in the documented order / all keywords / mixed / with "
                "defaults omitted (keyword or positional).  Error paths in sessions: calls rejected up front (n, m of wrong "
                "value or type, unknown weight name, the other variant's method), data rejected by set_event_data / the "
                "constructor (wrong container, wrong element at first / middle / last position), data poisoned in place "
                "(wrong-type element, unset attribute, NaN density, grid_ longer than the axes, emptied list, all-zero grid) "
                "so that the call fails midway or at its end, warnings as errors; a failed call must leave the object as it "
                "was, later valid calls (same object and a second long-lived object) are judged like any other.  "
                "Every case is evaluated by the hand model (ops p / l) AND by the functions generated from the current "
                "source (ops gp / gl, the weight string handed to the generated if-chain as it is); both must agree with the code")
    ctx.assumptions.append("C18: np.arctan2/np.cos/np.sin/float ** are compared with C libm atan2/cos/sin/pow at 1e-9 "
                           "(times the condition number sum|a|/|sum a|); theorems use exact real functions")
    ctx.assumptions.append("C18: particles with unset (NaN) attributes are outside the property and not generated")
    ctx.assumptions.append("C18: the API takes no file names and no text besides weight_quantity, so the file/cwd/text devices reduce "
                           "to: results independent of cwd / numpy settings / global RNG state, and strict matching of weight names; "
                           "one-shot iterators and tuples are excluded by the docs (TypeError) and their rejection is asserted")
    ctx.assumptions.append("C18 tie T: harness/translate/ecc.py renders eccentricity_from_particles / eccentricity_from_lattice "
                           "(guards, weight chain, radial factor, trig, accumulators, final quotient) faithfully; the Lattice3D "
                           "accessors (grid_.shape, np.ndindex order, get_coordinates, get_value_by_index), the typed reading of the "
                           "arguments (n an int, data a list resp. a lattice) and 'divisor zero -> zerodiv' stay contracts of the hand model")
    ncases = ctx.n(400, 12000)
    lines, meta = [], []
    for i in range(ncases):
        r = rng.random()
        if r < 0.72:
            sub = rng.random()
            neutral = sub < 0.08
            if neutral:
                parts = gen_neutral(rng)
            else:
                parts = with_extras(rng, gen_parts(rng, 0 if sub < 0.2 else 1, 10), prob=0.4)
            n, m = gen_nm(rng, bad=0.08)
            wq = rng.choice(WQS) if rng.random() > 0.04 else rng.choice([w for w in BAD_WQ if w is not None])
            if neutral:
                wq = rng.choice(["charge", "baryon", "strangeness"])
            plist = _particles(parts)
            seen = _seen(plist)
            container = rng.choice(CONTAINERS) if rng.random() < 0.3 else "list"
            lines.append(line_particles(n, m, wq, seen))
            meta.append(("p", n, m, wq, (parts, container, rng.choice(FORMS), rng.choice(["eccentricity", "direct"]), gen_var(rng)), seen, neutral, None))
        else:
            ext, shape, grid = gen_lattice(rng)
            if rng.random() < 0.05:
                grid = [[[0.0 for _ in row] for row in plane] for plane in grid]
            n, m = gen_nm(rng, bad=0.06)
            layout, axl = gen_layout(rng), gen_axes_layout(rng)
            lat = _lattice(ext, shape, grid, layout, axl)
            xs = [float(v) for v in lat.x_values_]
            ys = [float(v) for v in lat.y_values_]
            g = logical_grid(lat)  # what grid_[i, j, k] holds in this representation
            lines.append(line_lattice(n, m, xs, ys, shape[2], g))
            meta.append(("l", n, m, None, (ext, shape, grid, layout, axl, rng.choice(FORMS), rng.choice(["eccentricity", "direct"]),
                                          gen_var(rng, lattice=True), rng.choice(WQS + ["energy"] * 3)), (xs, ys, g), False, None))
    # sessions: every call of a long-lived object is compared with the model on the content held at that moment
    for si in range(ctx.n(60, 1500)):
        session = gen_session(rng)
        rec = []
        run_session(session, record=rec)
        for step, n, m, wq, content, real in rec:
            where = dict(session=session, step=step)
            if content[0] == "p":
                lines.append(line_particles(n, m, wq, content[1]))
                meta.append(("p", n, m, wq, (content[1], "list", None, None, None), content[1], False, (real, where)))
            else:
                _, xs, ys, nz, g = content
                lines.append(line_lattice(n, m, xs, ys, nz, g))
                meta.append(("l", n, m, None, (None, [len(xs), len(ys), nz], g, None, None, None, None, None, None), (xs, ys, g), False, (real, where)))
    # every case goes to the hand model (`p` / `l`) and to the functions generated from the source (`gp` / `gl`)
    outs = common.run_driver("C18", lines + ["g" + l for l in lines])
    gouts = outs[len(lines):]
    nbroken = 0
    for (kind, n, m, wq, inp, seen, neutral, pre), out, gout in zip(meta, outs, gouts):
        model = parse_model(out)
        gen = parse_model(gout)
        if kind == "p":
            inp, container, form, via, var = inp
            real = pre[0] if pre else real_particles(inp, n, m, wq, via=via, container=container, form=form, var=var)
            _count_devices(ctx, var, inp)
            if form:
                ctx.count("call-form/" + form)
            k = radial_power(max(n, 1), m if (m is None or m >= 1) else 1)
            pts = [(1.0 if wq == "number" else p[WIDX.get(wq, 0)], p[4], p[5]) for p in seen]
            _, cond = ref_ecc(pts, max(n, 1), k)
            off = sum(1 for p in seen if p[4] != 0.0 or p[5] != 0.0)
            nontriv = real[0] == "ok" and off >= 2
            canon = ("p", n, m, wq, tuple(tuple(p) for p in seen))
            sample = dict(op="particles", n=n, m=m, weight_quantity=wq, particles=inp, container=container, call_form=form,
                          via=via, code=str(real), model=out)
            if container != "list":
                ctx.count("representation/particles/" + container)
            tag = f"p/{wq if wq in WQS else 'unknown-wq'}/n={n if n >= 1 else '<1'}/m={'default' if m is None else ('given' if m >= 1 else '<1')}/{real[0]}{':' + real[1] if real[0] == 'err' else ''}"
        else:
            ext, shape, grid, layout, axl, form, via, var, lwq = inp
            real = pre[0] if pre else real_lattice(ext, shape, grid, n, m, layout, axl, form=form, via=via, var=var, wq=lwq or "energy")
            _count_devices(ctx, var, None)
            if form:
                ctx.count("call-form/" + form)
            xs, ys, g = seen
            pts = [(g[i][j][l], xs[i], ys[j]) for i in range(shape[0]) for j in range(shape[1]) for l in range(shape[2])]
            _, cond = ref_ecc(pts, max(n, 1), radial_power(max(n, 1), m if (m is None or m >= 1) else 1))
            off = sum(1 for p in pts if (p[1] != 0.0 or p[2] != 0.0) and p[0] != 0.0)
            nontriv = real[0] == "ok" and off >= 2
            canon = ("l", n, m, tuple(xs), tuple(ys), repr(grid))
            sample = dict(op="lattice", n=n, m=m, extent=ext, shape=shape, grid=grid, layout=layout, axes=axl,
                          code=str(real), model=out)
            for tok in (layout or "C").split("+"):
                ctx.count("representation/grid/" + tok)
            tag = f"l/shape={'x'.join(map(str, shape))}/{real[0]}{':' + real[1] if real[0] == 'err' else ''}"
        if pre:
            sample = dict(sample, op="session/" + sample["op"], step=pre[1]["step"], session=pre[1]["session"])
            tag = "session/" + tag
        allzero = all(w == 0.0 or (x == 0.0 and y == 0.0) for w, x, y in pts)  # every amplitude is exactly 0
        neutral = neutral or (allzero and not (kind == "p" and wq not in WQS))
        verdict = same(real, model, cond, exact_zero=neutral)
        gverdict = same(real, gen, cond, exact_zero=neutral)
        if verdict == "ill":
            ctx.count("ill-conditioned (sum|a|/|sum a| > 1e6, outcome not compared)")
            continue
        ctx.case(canon, nontriv, sample=dict(sample, generated=gout) if (nontriv and not pre) else None)
        ctx.count(tag + ("/exact-zero-norm" if neutral else ""))
        ctx.count("generated-function-compared/" + ("lattice" if kind == "l" else "particles"))
        in_domain = n >= 1 and (m is None or m >= 1) and (kind == "l" or wq in WQS) and not neutral
        if not (verdict and gverdict) and not in_domain:
            # argument validation / the undefined quotient are not what the property talks about: report, do not gate
            ctx.count("outside-domain behaviour differs from the model (not gating)")
            ctx.notes.append(f"outside the property's domain (invalid n/m, unknown weight name or sum(w r^m) = 0): "
                             f"code {real} vs model {model} vs generated {gen} for {sample['op']} n={n} m={m} wq={wq}")
            continue
        if not verdict:
            ctx.brk("correspondence-broken",
                    f"{sample['op']} n={n} m={m} wq={wq}: code {real} vs model {model}", case=sample)
            nbroken += 1
        if not gverdict:
            ctx.brk("correspondence-broken",
                    f"{sample['op']} n={n} m={m} wq={wq}: code {real} vs functions generated from the source {gen}",
                    case=dict(sample, generated=gout))
            nbroken += 1
        if nbroken >= 5:
            break


# ------------------------------------------------------------------ the property on the real code
def _rot(parts, a):
    c, s = math.cos(a), math.sin(a)
    return [[p[0], p[1], p[2], p[3], p[4] * c - p[5] * s, p[4] * s + p[5] * c] + p[6:] for p in parts]


def diagnose(run, ref, tol, form, method, var, parts=None, wq=None, lattice_wq=None):
    """A call misses the formula.  Which ingredient of the case matters?  `run(**overrides)` repeats the call with
    form / var / parts / wq replaced.  Returns a specific key or None (then the plain formula key is used)."""
    right = lambda r: _agree(r, ("ok", ref), tol)
    fk = form_key(lambda f: run(form=f), ref, tol, form, method)
    if fk:
        return fk
    if parts is not None and any(len(p) > 6 and p[6] for p in parts):
        if right(run(parts=[p[:6] for p in parts])):  # right without the attributes it must not read
            used = sorted({a for p in parts if len(p) > 6 and p[6] for a in p[6]})
            need = [a for a in used
                    if not right(run(parts=[p[:6] + [{k: v for k, v in (p[6] if len(p) > 6 and p[6] else {}).items() if k == a}]
                                            for p in parts]))]
            return f"irrelevant-attribute:{wq}:{'+'.join(need) or '+'.join(used)}"
    for dev in ("copy", "env", "psub", "lsub"):
        if var.get(dev) and right(run(var={k: v for k, v in var.items() if k != dev})):
            if dev == "copy":
                for who, mode in sorted(var["copy"].items()):
                    if right(run(var=dict(var, copy={w: m_ for w, m_ in var["copy"].items() if w != who}))):
                        return f"copy:{who}:{mode}"
                return "copy:" + "+".join(f"{w}:{m_}" for w, m_ in sorted(var["copy"].items()))
            return {"env": "environment:result-depends-on-environment", "psub": "subclass:Particle",
                    "lsub": "subclass:Lattice3D"}[dev]
    if lattice_wq not in (None, "energy") and right(run(wq="energy")):
        return f"lattice:weight_quantity={lattice_wq}"
    return None


def check_particles(case):
    """All C18 relations for one particle configuration on the REAL code.
    Returns None or (key, what, detail)."""
    parts, n, m, wq = case["particles"], case["n"], case["m"], case["wq"]
    alpha, s, c, perm = case["alpha"], case["scale"], case["wscale"], case["perm"]
    k = radial_power(n, m)
    ref, cond = ref_ecc(pts_of(parts, wq), n, k)
    if ref is None or cond > 1e4:
        return None  # the quotient does not exist / is ill-conditioned: outside the statement
    tol = 1e-9 * max(1.0, cond)
    mk = "m-given" if m is not None else ("m-default-n1" if n == 1 else "m-default")
    form = case.get("form", "pos")
    var = case.get("var") or {}
    del ENV_CHANGES[:]
    container = case.get("container", "list")
    ck = "" if container == "list" else ":container=" + container
    def run(**ov):
        return real_particles(ov.get("parts", parts), n, m, wq, container=container, form=ov.get("form", form), var=ov.get("var", var))
    base = run()
    if ENV_CHANGES:
        return ("environment:changed-by-call:" + "+".join(sorted(set(ENV_CHANGES))),
                f"eccentricity({n},{m},{wq!r}) left the process environment changed: {sorted(set(ENV_CHANGES))}",
                dict(relation="environment", observed=sorted(set(ENV_CHANGES))))
    if base[0] != "ok":
        fk = diagnose(run, ref, tol, form, "eccentricity", var, parts=parts, wq=wq)
        return (fk or f"formula:particles:{wq}:{mk}{ck}", f"eccentricity({n},{m},{wq!r}) [call form {form}] gives {base} where the formula gives {ref!r}",
                dict(relation="formula", expected=str(ref), observed=str(base)))
    e = base[1]
    if not cclose(e, ref, tol):
        fk = diagnose(run, ref, tol, form, "eccentricity", var, parts=parts, wq=wq)
        return (fk or f"formula:particles:{wq}:{mk}{ck}",
                f"eccentricity({n},{m},{wq!r}) [call form {form}] = {e!r} but -sum(w r^{k} e^(i{n}phi))/sum(w r^{k}) = {ref!r}",
                dict(relation="formula", expected=str(ref), observed=str(e)))
    d = real_particles(parts, n, m, wq, via="from_particles", form=form, var=var)
    if d[0] != "ok" or d[1] != e:
        return ("dispatch:particles", f"eccentricity() = {e!r} differs from eccentricity_from_particles() = {d}",
                dict(relation="dispatch", expected=str(e), observed=str(d)))
    if m is None:
        d = real_particles(parts, n, k, wq, form=form, var=var)
        if d[0] != "ok" or not cclose(d[1], e, tol):
            return (f"m-default:{'n1' if n == 1 else 'n>1'}", f"eccentricity({n}) = {e!r} but eccentricity({n}, m={k}) = {d}",
                    dict(relation="m-default", expected=str(e), observed=str(d)))
    if all(weight_of(wq, p) >= 0 for p in parts) and abs(e) > 1 + 1e-9:
        return (f"bound:{wq}", f"|eccentricity| = {abs(e)!r} > 1 with non-negative weights",
                dict(relation="bound", expected="<= 1", observed=abs(e)))
    r = real_particles(_rot(parts, alpha), n, m, wq, form=form, var=var)
    exp = cmath.exp(1j * n * alpha) * e
    if r[0] != "ok" or not cclose(r[1], exp, tol):
        return ("rotation", f"rotating positions by {alpha!r}: got {r}, expected e^(i n alpha) eps = {exp!r}",
                dict(relation="rotation", expected=str(exp), observed=str(r)))
    r = real_particles([[p[0], p[1], p[2], p[3], -p[4], p[5]] + p[6:] for p in parts], n, m, wq, form=form, var=var)
    exp = (-1) ** n * e.conjugate()
    if r[0] != "ok" or not cclose(r[1], exp, tol):
        return ("reflection", f"x -> -x: got {r}, expected (-1)^n conj(eps) = {exp!r}",
                dict(relation="reflection", expected=str(exp), observed=str(r)))
    r = real_particles([[p[0], p[1], p[2], p[3], s * p[4], s * p[5]] + p[6:] for p in parts], n, m, wq, form=form, var=var)
    if r[0] != "ok" or not cclose(r[1], e, tol):
        return ("scale-positions", f"positions scaled by {s!r}: got {r}, expected {e!r}",
                dict(relation="scale-positions", expected=str(e), observed=str(r)))
    if wq != "number":
        ci = c if wq == "energy" else float(int(c) or 2)  # charge-like getters truncate to int
        r = real_particles([[ci * p[0], ci * p[1], ci * p[2], ci * p[3], p[4], p[5]] + p[6:] for p in parts], n, m, wq, form=form, var=var)
        if r[0] != "ok" or not cclose(r[1], e, tol):
            return (f"scale-weights:{wq}", f"weights scaled by {ci!r}: got {r}, expected {e!r}",
                    dict(relation="scale-weights", expected=str(e), observed=str(r)))
    r = real_particles([parts[i] for i in perm], n, m, wq, form=form, var=var)
    if r[0] != "ok" or not cclose(r[1], e, tol):
        return ("permutation", f"particles reordered by {perm}: got {r}, expected {e!r}",
                dict(relation="permutation", expected=str(e), observed=str(r)))
    return None


def check_lattice(case):
    ext, shape, grid, n, m = case["extent"], case["shape"], case["grid"], case["n"], case["m"]
    k = radial_power(n, m)
    form = case.get("form", "pos")
    var = case.get("var") or {}
    lwq = case.get("wq", "energy")  # a particle option handed to the lattice variant: documented to be without effect
    del ENV_CHANGES[:]
    layout, axl = case.get("layout", "C"), case.get("axes", "C")
    lat = _lattice(ext, shape, grid, layout, axl)
    xs, ys = [float(v) for v in lat.x_values_], [float(v) for v in lat.y_values_]
    grid = logical_grid(lat)  # the logical content grid_[i, j, k] of this representation (dtype rounding included)
    dl = strip_dtype(layout)  # derived lattices: same memory order, float64 values
    lk = "" if (layout or "C") == "C" and (axl or "C") == "C" else f":layout={layout},axes={axl}"
    pts = [(grid[i][j][l], xs[i], ys[j]) for i in range(shape[0]) for j in range(shape[1]) for l in range(shape[2])]
    ref, cond = ref_ecc(pts, n, k)
    if ref is None or cond > 1e4:
        return None
    tol = 1e-9 * max(1.0, cond)
    def run(**ov):
        return real_lattice(ext, shape, grid, n, m, layout, axl, form=ov.get("form", form), var=ov.get("var", var),
                            wq=ov.get("wq", lwq))
    base = run()
    if ENV_CHANGES:
        return ("environment:changed-by-call:" + "+".join(sorted(set(ENV_CHANGES))),
                f"lattice eccentricity({n},{m}) left the process environment changed: {sorted(set(ENV_CHANGES))}",
                dict(relation="environment", observed=sorted(set(ENV_CHANGES))))
    if base[0] != "ok" or not cclose(base[1], ref, tol):
        fk = diagnose(run, ref, tol, form, "eccentricity", var, lattice_wq=lwq)
        return (fk or "formula:lattice" + lk, f"lattice eccentricity({n},{m}) [grid_ layout {layout}, axes {axl}] = {base} but the formula over the nodes weighted by density gives {ref!r}",
                dict(relation="lattice-formula", expected=str(ref), observed=str(base)))
    e = base[1]
    # the same nodes as particles (energy = density)
    r = real_particles([[w, 0.0, 0.0, 0.0, x, y] for w, x, y in pts], n, m, "energy", form=form, var=var)
    if r[0] != "ok" or not cclose(r[1], e, tol):
        return ("lattice-vs-particles", f"lattice gives {e!r}, the particle function on its nodes gives {r}",
                dict(relation="lattice-vs-particles", expected=str(e), observed=str(r)))
    if all(w >= 0 for w, _, _ in pts) and abs(e) > 1 + 1e-9:
        return ("bound:lattice", f"|eccentricity| = {abs(e)!r} > 1 with non-negative densities",
                dict(relation="bound", expected="<= 1", observed=abs(e)))
    # reflected lattice: x axis [-x1, -x0], planes in reverse order
    # (np.linspace with a single point yields the lower limit only)
    mext = ([-ext[1], -ext[0]] if shape[0] > 1 else [-ext[0], -ext[0] + 1.0]) + ext[2:]
    r = real_lattice(mext, shape, grid[::-1], n, m, dl, axl, form=form, var=var, wq=lwq)
    exp = (-1) ** n * e.conjugate()
    if r[0] != "ok" or not cclose(r[1], exp, tol):
        return ("reflection:lattice" + lk, f"lattice mirrored in x: got {r}, expected {exp!r}",
                dict(relation="reflection", expected=str(exp), observed=str(r)))
    c = case["wscale"]
    r = real_lattice(ext, shape, [[[c * v for v in row] for row in plane] for plane in grid], n, m, dl, axl, form=form, var=var, wq=lwq)
    if r[0] != "ok" or not cclose(r[1], e, tol):
        return ("scale-weights:lattice" + lk, f"densities scaled by {c!r}: got {r}, expected {e!r}",
                dict(relation="scale-weights", expected=str(e), observed=str(r)))
    s = case["scale"]
    r = real_lattice([s * v for v in ext], shape, grid, n, m, dl, axl, form=form, var=var, wq=lwq)
    if r[0] != "ok" or not cclose(r[1], e, tol):
        return ("scale-positions:lattice" + lk, f"lattice extent scaled by {s!r}: got {r}, expected {e!r}",
                dict(relation="scale-positions", expected=str(e), observed=str(r)))
    return None


BAD_WQ = ["Energy", "pt", "", "mass", None, "energy ", " energy", "number\n", "energy\r\n", "\u00e9nergie", "ENERGY",
          "baryon_number", "strange\u00adness"]


def check_rejection(case):
    """inputs the docs exclude: the documented exception must be raised (never a silent default / a number)"""
    parts, what = case["particles"], case["what"]
    form = case.get("form", "pos")
    if what == "harmonic_n":
        r, doc = real_particles(parts, case["n"], None, "energy", form=form), "value"
        shown = f"eccentricity({case['n']})"
    elif what == "weight_quantity":
        r, doc = real_particles(parts, 2, None, case["wq"], form=form), "value"
        shown = f"eccentricity(2, weight_quantity={case['wq']!r})"
    else:
        try:
            data = _bad_data(case["data"])
        except Exception as e:
            return None
        r, doc = _canon(lambda: _ecc(_construct(data, form), False, "eccentricity", form, 2, None, "number")), "other:TypeError"
        shown = f"EventCharacteristics({case['data'].get('what')} data)"
        what = "event_data:" + case["data"]["what"] + (":" + case["data"]["element"] if case["data"]["what"] == "element" else "")
    if r != ("err", doc):
        return (f"documented-rejection-missing:{what}",
                f"{shown} gives {r}; the documentation says it raises {'ValueError' if doc == 'value' else 'TypeError'}",
                dict(relation="documented-rejection", expected=doc, observed=str(r)))
    return None


def check_case(case):
    if case["kind"] == "session":
        return run_session(case)
    if case["kind"] == "reject":
        return check_rejection(case)
    return check_particles(case) if case["kind"] == "particles" else check_lattice(case)


def gen_case(rng):
    if rng.random() < 0.2:
        return gen_session(rng)
    if rng.random() < 0.06:
        what = rng.choice(["harmonic_n", "weight_quantity", "event_data", "event_data"])
        c = dict(kind="reject", what=what, particles=gen_parts(rng, 2, 5, positive=True), form=rng.choice(FORMS))
        if what == "harmonic_n":
            c["n"] = rng.choice([0, -1, -4])
        elif what == "weight_quantity":
            c["wq"] = rng.choice(BAD_WQ)
        else:
            c["data"] = gen_bad_data(rng)
        return c
    if rng.random() < 0.75:
        positive = rng.random() < 0.5
        parts = with_extras(rng, gen_parts(rng, 2, 10, positive=positive))
        n, m = gen_nm(rng)
        wq = rng.choice(WQS)
        perm = list(range(len(parts)))
        rng.shuffle(perm)
        return dict(kind="particles", particles=parts, n=n, m=m, wq=wq,
                    container=rng.choice(CONTAINERS) if rng.random() < 0.3 else "list", form=rng.choice(FORMS),
                    var=gen_var(rng),
                    alpha=rng.choice([rng.uniform(-math.pi, math.pi), math.pi / 2, math.pi, -math.pi / 3, 2.0 * math.pi / 5]),
                    scale=rng.choice([0.5, 2.0, 4.0, rng.uniform(0.1, 10.0)]),
                    wscale=rng.choice([2.0, 3.0, 0.5, rng.uniform(0.2, 5.0), -2.0]), perm=perm)
    ext, shape, grid = gen_lattice(rng)
    n, m = gen_nm(rng)
    return dict(kind="lattice", extent=ext, shape=shape, grid=grid, n=n, m=m,
                layout=gen_layout(rng), axes=gen_axes_layout(rng), form=rng.choice(FORMS),
                var=gen_var(rng, lattice=True), wq=rng.choice(WQS + ["energy"] * 3),
                scale=rng.choice([0.5, 2.0, rng.uniform(0.1, 10.0)]), wscale=rng.choice([2.0, 0.5, rng.uniform(0.2, 5.0)]))


def shrink(case, key):
    if case["kind"] == "session":
        return shrink_session(case, key)
    if case["kind"] == "reject":
        return case
    if case["kind"] != "particles":
        # which part of the representation is needed?  (the key names the representation, so compare its stem)
        stem = key.split(":layout=")[0]
        cur = dict(case)
        for trial in ([dict(cur, var={})] if cur.get("var") else []) + ([dict(cur, wq="energy")] if cur.get("wq", "energy") != "energy" else []):
            r = check_case(trial)
            if r and r[0].split(":layout=")[0] == stem:
                cur = trial
        for field in ("axes", "layout"):
            cands = ["C"] + [t for t in cur.get(field, "C").split("+") if t != "C"]
            for cand in cands:
                if cand == cur.get(field, "C"):
                    continue
                trial = dict(cur, **{field: cand})
                r = check_case(trial)
                if r and r[0].split(":layout=")[0] == stem:
                    cur = trial
                    break
        return cur
    cur = dict(case)
    changed = True
    while changed and len(cur["particles"]) > 1:
        changed = False
        for i in range(len(cur["particles"])):
            cand = dict(cur)
            cand["particles"] = cur["particles"][:i] + cur["particles"][i + 1:]
            cand["perm"] = list(range(len(cand["particles"])))[::-1]
            r = check_case(cand)
            if r and r[0] == key:
                cur = cand
                changed = True
                break
    for trial in ([dict(cur, var={})] if cur.get("var") else []) + \
            ([dict(cur, particles=[p[:6] for p in cur["particles"]])] if any(len(p) > 6 for p in cur["particles"]) else []):
        r = check_case(trial)
        if r and r[0] == key:
            cur = trial
    if cur.get("container", "list") != "list":
        trial = dict(cur, container="list")
        r = check_case(trial)
        if r and r[0].split(":container=")[0] == key.split(":container=")[0]:
            cur = trial
    return cur


def corpus():
    p = common.VERIF / "harness/corpus/C18"
    return [json.loads(f.read_text()) for f in sorted(p.glob("*.json"))] if p.exists() else []


def search(ctx, budget_s):
    rng = ctx.rng
    t0 = time.time()
    nmax = 60000 if ctx.thorough else 1500
    n = 0
    found = set()
    for case in corpus():
        r = check_case(case)
        n += 1
        if r:
            found.add(r[0])
            ctx.violation(r[0], r[1], dict(input=case, detail=r[2], how_to_replay="./check C18 --replay <this file>"))
    while time.time() - t0 < budget_s and n < nmax and len(found) < 4:
        case = gen_case(rng)
        r = check_case(case)
        n += 1
        ctx.case(("oracle", json.dumps(case, sort_keys=True)), True)
        ctx.count("oracle/" + case["kind"])
        if case["kind"] == "session":
            ctx.count("oracle/session-ops", len(case["ops"]))
        if r and r[0] not in found and not (r[0].startswith("instance-reuse-") and any(f.startswith("instance-reuse-") for f in found)):
            small = shrink(case, r[0])
            r2 = check_case(small) or r
            found.add(r2[0])
            ctx.violation(r2[0], r2[1], dict(input=small, detail=r2[2], how_to_replay="./check C18 --replay <this file>"))
    ctx.cov["oracle_cases"] = n
    flush_stats(ctx)


def replay(ctx, path):
    d = json.loads(open(path).read())
    case = d.get("input")
    if not case:
        print(f"[C18] replay file names a broken obligation, not an input: {d.get('broken')}")
        return 1
    r = check_case(case)
    if r:
        print(f"VIOLATION property=C18 replay={path}")
        print(r[1])
        return 1
    print("[C18] replay: property holds on this input now")
    return 0
