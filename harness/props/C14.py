"""C14 — bulk observables are normalised per event and per unit of the variable.

Tie T: `harness/translate/bulk.py` regenerates `Gen/Bulk.lean` from the current `BulkObservables.py`
(`_differential_yield`, the three mid-rapidity functions, the wrapper / default tables); `Lemmas/BulkGen.lean`
proves the generated functions equal to the hand-written model `Core/Bulk.lean`, `Props/C14/Gen.lean` restates
the property theorems about them.  Tie C: the hand-written model (histogram fill / one row per event /
unit-weight average / scale by 1/width; mid-rapidity counters) AND the generated functions (ops `gdndx`,
`gyield`, `gmeanpt`, `gmeanmt`) are run by the driver on the very inputs given to the real `BulkObservables`;
the quantity values (`rapidity()`, `pT_abs()`, ... - for the generated functions: the method named by the
generated table) and the bin edges of a tuple binning (`np.linspace`) are taken from the real library and
handed to the model (DESIGN 2.3), their contracts (edges strictly increasing, first/last edge = tuple limits)
are checked on every case.

The oracle (`search`) checks the PROPERTY on the real code against an independent reference written
here with exact rationals: direct counting per bin, the normalisation corollary, the per-event means,
writing the returned histogram to a file and parsing it back, and a before/after snapshot of the
particle lists (identity of every list and particle, bytes of every particle's data array).

Input classes that are stratified on purpose (each gets its share of every run, see `BIN_FLAVOURS`):
binnings in every Python-type flavour (all-int edge lists with widths 1/2/3, float lists, mixed lists,
lists of numpy scalars, numpy arrays, tuples with int / float / mixed limits, the default), one
long-lived `BulkObservables` object re-used for a whole call sequence alternating with fresh objects,
several empty events including the last one, the same event list object appearing twice, events that
are equal as lists.  Every call is issued in one of several equivalent call forms (`CALL_FORMS`, built from the
documented signatures hard-coded in `DOC_SIG`).  Histories on long-lived objects contain ERROR-PATH steps: calls
with invalid arguments (`ERR_STEPS`), valid calls with warnings-as-errors, and data with poison elements
(`POISON_KINDS`, at the first / a middle / the last position) that make some calls raise midway; every failed call
is caught, must leave the object exactly as it was (`observe`), and the valid calls after it - on the same object
and on a second object of the class - are judged like any other.
Round-4 devices: the input container (list / tuple / numpy object array / list subclass / one-shot outer iterators,
`CONTAINERS`), copies (`COPY_MODES`: copy.copy, deepcopy, pickle round trip) of the input, of the object under test and
of the returned histogram before use, calls in an unusual process environment (`unusual_environment`) with the global
state compared before and after every call (`env_state`), and the "can be written to file" clause exercised the way a
caller would (`gen_write_spec`: bare relative names after chdir into a fresh directory, ./name, sub-directory, blanks and
non-ASCII in names, comments with CRLF / non-ASCII / trailing blanks, labels that need quoting).
"""
import contextlib
import copy
import csv
import io
import json
import locale
import pickle
import random as _random
import shutil
import math
import os
import tempfile
import time
import warnings
from fractions import Fraction

import numpy as np

import common
from common import f2h, h2f, close, fl, parse_fl

warnings.filterwarnings("ignore")

DN_METHODS = {"dNdy": "rapidity", "dNdpT": "pT_abs", "dNdEta": "pseudorapidity", "dNdmT": "mT"}
DEFAULT_BINS = {"dNdy": (-2, 2, 11), "dNdpT": (0, 4, 11), "dNdEta": (-2, 2, 11), "dNdmT": (0, 4, 11)}
MID_METHODS = {"mid_rapidity_yield": None, "mid_rapidity_mean_pT": "pT_abs", "mid_rapidity_mean_mT": "mT"}
FLAVOURS = ["rapidity", "pseudorapidity", "spacetime_rapidity"]
ATTRS = ["px", "py", "pz", "E", "t", "z"]
WRITE_KEY = "write-after-average (Histogram.average leaves 1-D systematic_error_)"
ALL_COLS = ["bin_center", "bin_low", "bin_high", "distribution", "stat_err+", "stat_err-", "sys_err+", "sys_err-"]

# binning flavours; the last three are container / element types the documented API (tuple or list of
# int/float) does not accept: a TypeError/ValueError is a legitimate answer for them, a histogram is
# checked like any other
BIN_FLAVOURS = ["default", "tuple-int", "tuple-float", "tuple-mixed",
                "list-int", "list-int", "list-int-unit", "list-float", "list-mixed", "list-qedges",
                "list-npfloat-items", "list-npint-items", "ndarray-int", "ndarray-float"]
REJECTABLE = {"list-npint-items", "ndarray-int", "ndarray-float"}

# the DOCUMENTED parameter order and defaults of the public API (docstrings / signatures at the HEAD this check was
# written against) - hard-coded on purpose: every call is issued in one of several equivalent forms built from this
# table, so a signature change that re-binds a positional argument or changes a default shows as a wrong result
REQUIRED = "<required>"
DOC_SIG = {
    "BulkObservables": [("particle_objects_list", REQUIRED)],
    "dNdy": [("bin_properties", None)], "dNdpT": [("bin_properties", None)],
    "dNdEta": [("bin_properties", None)], "dNdmT": [("bin_properties", None)],
    "mid_rapidity_yield": [("y_width", 1.0), ("quantity", "rapidity")],
    "mid_rapidity_mean_pT": [("y_width", 1.0), ("quantity", "rapidity")],
    "mid_rapidity_mean_mT": [("y_width", 1.0), ("quantity", "rapidity")],
}
CALL_FORMS = ["positional", "keyword", "keyword-reversed", "mixed", "defaults-omitted"]

# calls that must raise because of their ARGUMENTS (detected before any work is done)
ERR_STEPS = {
    "bins:str": ("dn", lambda: ("abc",)), "bins:dict": ("dn", lambda: ({"a": 1},)),
    "bins:tuple-len2": ("dn", lambda: ((0, 1),)), "bins:tuple-float-n": ("dn", lambda: ((0, 1, 2.0),)),
    "bins:list-with-str": ("dn", lambda: ([0, "a", 2],)), "bins:min>=max": ("dn", lambda: ((1, 1, 3),)),
    "bins:n<=0": ("dn", lambda: ((0, 1, 0),)), "bins:extra-positional": ("dn", lambda: ((0, 1, 2), 3)),
    "width:zero": ("mid", lambda: (0, "rapidity")), "width:negative": ("mid", lambda: (-1.0, "rapidity")),
    "width:str": ("mid", lambda: ("1", "rapidity")), "width:none": ("mid", lambda: (None, "rapidity")),
    "quantity:attribute": ("mid", lambda: (1.0, "E")), "quantity:missing": ("mid", lambda: (1.0, "no_such_method")),
    "quantity:int": ("mid", lambda: (1.0, 3)), "mid:extra-positional": ("mid", lambda: (1.0, "rapidity", 2)),
}
POISON_KINDS = ["unset-E", "E<|pz|", "t<|z|", "duck", "alien"]

# how an object reaches the code: as it is, or as its copy.copy / copy.deepcopy / pickle round trip
COPY_MODES = [None, None, "copy", "deepcopy", "pickle"]
# containers for "a list of lists of Particle objects".  The documented type is List[List[Particle]]; sequences that
# support len / indexing / iteration (tuples, numpy object arrays, list subclasses) work on the clean code and are
# judged like lists, but a refusal (any exception) of an undocumented container is accepted as an answer.  One-shot
# OUTER iterators (generator, map) cannot work (the code needs len()).  One-shot INNER iterators are not used: the
# docs exclude them and the clean code neither rejects nor supports them (the first call consumes them).
CONTAINERS = ["list", "list", "list", "tuple-outer", "tuple-inner", "tuple-both", "ndarray-outer", "ndarray-both",
              "list-subclass", "generator-outer", "map-outer"]
WRITE_NAMES = ["x.csv", "x.csv", "./x.csv", "sub/x.csv", "with space.csv", "dN_d\u03b7 \u00b1.csv", "x"]
WRITE_COMMENTS = ["# C14", "", "# dN/d\u03b7 \u00b1 \u03c3 (non-ASCII)", "# trailing blanks   ", "# first line\r\n# second line (CRLF)",
                  "# first line\n# second line", "#\ttab and  double  blanks"]
UTF8 = locale.getpreferredencoding(False).lower().replace("-", "") == "utf8"


class ListSub(list):
    """a list subclass (admissible wherever a list is)"""


# ------------------------------------------------------------------ translator (tie T)
GEN = common.LEAN / "SparkxVerif/Gen/Bulk.lean"


def translate(ctx):
    from translate import bulk
    text, regions, ex = bulk.render(common.read_src("BulkObservables.py"))
    changed = common.write_if_changed(GEN, text)
    golden = common.LEAN / "golden/Gen/Bulk.lean"
    ctx.cov["gen_equals_golden"] = golden.exists() and golden.read_text() == text
    ctx.cov["translator_not_modelled"] = ex["notes"]
    if changed:
        ctx.notes.append("Gen/Bulk.lean regenerated (source differs from last run)")
    return regions


def gen_tables():
    """wrapper -> quantity / default binning, mean -> averaged method, default window: read from the Gen/Bulk.lean
    the driver was built from (the freshly generated one, or the golden copy after a translator fallback)"""
    from translate import bulk
    return bulk.tables_from_lean(GEN.read_text())


# ------------------------------------------------------------------ real code access
def make_particles(events, alias=None):
    """events: list of lists of [px,py,pz,E,t,z] (None = unset) -> nested list of sparkx Particles.
    alias[i] = j < i makes event i THE SAME list object as event j (events[i] repeats events[j]'s values)."""
    from sparkx.Particle import Particle
    out = []
    for i, ev in enumerate(events):
        if alias and alias[i] is not None:
            out.append(out[alias[i]])
            continue
        l = []
        for spec in ev:
            if isinstance(spec, dict) and spec.get("poison") == "alien":
                l.append("not a particle")
                continue
            p = Particle()
            for a, v in zip(ATTRS, spec["v"] if isinstance(spec, dict) else spec):
                if v is not None:
                    setattr(p, a, v)
            if isinstance(spec, dict) and spec.get("poison") == "duck":
                p = Duck(p, spec["methods"])
            l.append(p)
        out.append(l)
    return out


class Duck:
    """an element of the wrong type that supports only part of the Particle interface"""

    def __init__(self, particle, methods):
        self.data_ = particle.data_
        for m in methods:
            setattr(self, m, getattr(particle, m))


def gen_poison(rng, kind):
    """an element that makes SOME calls raise when the loop reaches it (JSON-able; see make_particles)"""
    px, pz = rng.randint(1, 16) / 8.0, rng.randint(-8, 8) / 8.0
    good = [px, 0.0, pz, math.sqrt(px * px + pz * pz + 0.25), 4.0, 1.0]
    if kind == "unset-E":       # rapidity and mT are NaN -> Histogram.add_value raises; pT, eta fine
        return dict(poison=kind, v=good[:3] + [None] + good[4:])
    if kind == "E<|pz|":        # mT warns and is NaN, rapidity is NaN
        return dict(poison=kind, v=[px, 0.0, 2.0, 1.0, 4.0, 1.0])
    if kind == "t<|z|":         # spacetime_rapidity raises ValueError inside Particle
        return dict(poison=kind, v=good[:4] + [1.0, 3.0])
    if kind == "duck":
        return dict(poison=kind, v=good, methods=rng.sample(["pT_abs", "rapidity", "pseudorapidity", "mT", "spacetime_rapidity"],
                                                            rng.randint(1, 3)))
    return dict(poison="alien")


def strip_poison(evs):
    return [[p for p in e if not isinstance(p, dict)] for e in evs]


def has_poison(evs):
    return any(isinstance(p, dict) for e in evs for p in e)


def inject_poison(rng, evs):
    """one or two poison elements at the first / a middle / the last position of the data (by loop order)"""
    evs = [[p for p in e] for e in evs]
    if not evs:
        return evs
    for _ in range(rng.randint(1, 2)):
        kind = rng.choice(POISON_KINDS)
        where = rng.choice(["first", "middle", "last"])
        i = 0 if where == "first" else len(evs) - 1 if where == "last" else rng.randrange(len(evs))
        j = 0 if where == "first" else len(evs[i]) if where == "last" else rng.randint(0, len(evs[i]))
        evs[i].insert(j, gen_poison(rng, kind))
    return evs


def new_bo(pl, form="positional"):
    from sparkx.BulkObservables import BulkObservables
    args, kwargs = bind("BulkObservables", dict(particle_objects_list=pl), form)
    return BulkObservables(*args, **kwargs)


def _pbytes(p):
    d = getattr(p, "data_", None)
    return d.tobytes() if isinstance(d, np.ndarray) else repr(p)


def snapshot(pl):
    return (id(pl), [id(e) for e in pl], [[id(p) for p in e] for e in pl],
            [[_pbytes(p) for p in e] for e in pl])


def fingerprint(v, depth=0):
    """value-level fingerprint of anything hanging off an object (lists by content, arrays by bytes, objects by their
    attributes; particles and the wrapped input list also by identity)"""
    if depth > 6:
        return "..."
    if isinstance(v, np.ndarray):
        return ("nd", str(v.dtype), v.shape, v.tobytes())
    if isinstance(v, (list, tuple)):
        return (type(v).__name__, [fingerprint(x, depth + 1) for x in v])
    if isinstance(v, (set, frozenset)):
        return ("set", sorted(repr(fingerprint(x, depth + 1)) for x in v))
    if isinstance(v, dict):
        return ("dict", sorted((repr(k), repr(fingerprint(x, depth + 1))) for k, x in v.items()))
    if isinstance(v, (int, float, str, bool, bytes, complex, type(None))):
        return repr(v)
    name = type(v).__name__
    if name in ("Particle", "Duck"):
        return (name, id(v), _pbytes(v))
    if name == "ReadOnlyList":
        return (name, id(getattr(v, "_nested_list", None)), fingerprint(vars(v), depth + 1))
    if hasattr(v, "__dict__"):
        return (name, fingerprint(vars(v), depth + 1))
    return (name, repr(v))


def observe(bo, pl):
    """everything observable about a BulkObservables object and its input: the particle lists (identities, data
    bytes), what the wrapper exposes, every instance attribute, every non-callable class attribute"""
    cls = {k: v for k, v in vars(type(bo)).items()
           if not callable(v) and not k.startswith("__") and not isinstance(v, (property, staticmethod, classmethod))}
    try:
        view = (len(bo.particle_objects), [id(e) for e in bo.particle_objects])
    except Exception as e:  # noqa: BLE001
        view = ("view-raises", type(e).__name__)
    return (snapshot(pl), view, fingerprint(vars(bo)), fingerprint(cls))


def is_default(v, d):
    return d is not REQUIRED and type(v) is type(d) and (v is d or v == d)


def bind(name, values, form):
    """(args, kwargs) for the documented signature of `name` in one of the equivalent CALL_FORMS"""
    sig = DOC_SIG[name]
    if form == "positional" or form is None:
        return [values[p] for p, _ in sig], {}
    if form == "keyword":
        return [], {p: values[p] for p, _ in sig}
    if form == "keyword-reversed":
        return [], {p: values[p] for p, _ in reversed(sig)}
    if form == "mixed":
        return [values[sig[0][0]]], {p: values[p] for p, _ in sig[1:]}
    # defaults-omitted: a parameter whose value IS the documented default is left out; the others are positional as long
    # as nothing before them was left out, keyword after that
    args, kwargs, prefix = [], {}, True
    for p, d in sig:
        if is_default(values[p], d):
            prefix = False
        elif prefix:
            args.append(values[p])
        else:
            kwargs[p] = values[p]
    return args, kwargs


def env_state():
    """process-global state a library call has no business changing"""
    st = np.random.get_state()
    return dict(cwd=os.getcwd(), random=_random.getstate(), np_random=(st[0], st[1].tobytes(), st[2:]),
                np_geterr=repr(sorted(np.geterr().items())), np_printoptions=repr(sorted(np.get_printoptions().items())))


@contextlib.contextmanager
def unusual_environment():
    """a fresh temporary working directory, numpy floating-point errors reported as warnings, non-default numpy print
    options, advanced `random` / `np.random` global state; everything restored afterwards"""
    saved = (os.getcwd(), _random.getstate(), np.random.get_state())
    d = tempfile.mkdtemp(prefix="c14_env_", dir="/tmp")
    try:
        os.chdir(d)
        _random.random()
        np.random.random(3)
        with np.errstate(all="warn"), np.printoptions(precision=2, threshold=3, suppress=True, linewidth=20):
            yield d
    finally:
        os.chdir(saved[0])
        _random.setstate(saved[1])
        np.random.set_state(saved[2])
        shutil.rmtree(d, ignore_errors=True)


ENV_DIFF = [None]  # what the last call changed in the process-global state (None = nothing)


def invoke(bo, name, args, kwargs, werr=False, env=False):
    """call like a caller would; werr: warnings are errors for the duration of the call; env: the call runs in an
    unusual environment (see unusual_environment).  Records in ENV_DIFF what the call changed in the global state."""
    with warnings.catch_warnings():
        warnings.simplefilter("error" if werr else "ignore")
        with (unusual_environment() if env else contextlib.nullcontext()):
            with (contextlib.nullcontext() if (werr or env) else np.errstate(all="ignore")):
                before = env_state()
                try:
                    return getattr(bo, name)(*args, **kwargs)
                finally:
                    after = env_state()
                    ENV_DIFF[0] = [k for k in before if before[k] != after[k]] or None


def env_check(meth, what):
    d = ENV_DIFF[0]
    ENV_DIFF[0] = None
    if d:
        return (f"environment-changed:{'+'.join(d)}:{meth}",
                f"{what} changed process-global state and did not restore it: {d}", dict(changed=d))
    return None


def copied(obj, mode):
    if mode == "copy":
        return copy.copy(obj)
    if mode == "deepcopy":
        return copy.deepcopy(obj)
    if mode == "pickle":
        return pickle.loads(pickle.dumps(obj))
    return obj


def _objarr(items):
    a = np.empty(len(items), dtype=object)
    for i, x in enumerate(items):
        a[i] = x
    return a


def wrap_container(pl, mode):
    """the nested list as another kind of sequence (same Particle objects)"""
    if mode in (None, "list"):
        return pl
    if mode == "tuple-outer":
        return tuple(pl)
    if mode == "tuple-inner":
        return [tuple(e) for e in pl]
    if mode == "tuple-both":
        return tuple(tuple(e) for e in pl)
    if mode == "ndarray-outer":
        return _objarr(pl)
    if mode == "ndarray-both":
        return _objarr([_objarr(e) for e in pl])
    if mode == "list-subclass":
        return ListSub(ListSub(e) for e in pl)
    if mode == "generator-outer":
        return (e for e in pl)
    if mode == "map-outer":
        return map(list, pl)
    raise ValueError(mode)


def norm_setup(x):
    """how the objects of a session come about: constructor call form, container of the input, copies of the input
    and of the BulkObservables object before use"""
    d = dict(ctor_form="positional", container="list", input_copy=None, bo_copy=None)
    if isinstance(x, str):
        d["ctor_form"] = x
    elif isinstance(x, dict):
        d.update(x)
    return d


def gen_setup(rng, plain=False):
    if plain:
        return norm_setup(rng.choice(["positional", "keyword"]))
    return dict(ctor_form=rng.choice(["positional", "keyword"]), container=rng.choice(CONTAINERS),
                input_copy=rng.choice(COPY_MODES), bo_copy=rng.choice(COPY_MODES))


def is_plain(setup):
    s_ = norm_setup(setup)
    return s_["ctor_form"] == "positional" and s_["container"] == "list" and not s_["input_copy"] and not s_["bo_copy"]


def build_session(evs, alias, setup, log=None):
    """(reference nested lists for the oracle, BulkObservables object, log, setup)"""
    st = norm_setup(setup)
    pl = copied(make_particles(evs, alias), st["input_copy"])
    bo = new_bo(wrap_container(pl, st["container"]), st["ctor_form"])
    if st["container"] not in ("generator-outer", "map-outer"):  # one-shot iterators cannot be copied / pickled
        bo = copied(bo, st["bo_copy"])
    return pl, bo, ([] if log is None else log), st


def refused(shared_setup, real):
    """an undocumented container was refused (any exception) - nothing to judge"""
    return shared_setup.get("container", "list") != "list" and real[0] in ("err", "exc") and not str(real[1]).startswith("shape")


def quantity_values(pl, name):
    """the values the code will obtain from the particles (same public method), as Python floats"""
    return [[float(getattr(p, name)()) for p in e] for e in pl]


def bins_arg(b):
    """the Python object handed to the real code"""
    if b["kind"] == "default":
        return None
    if b["kind"] == "tuple":
        return (b["v"][0], b["v"][1], int(b["v"][2]))
    fv = b.get("flavour", "")
    if fv == "list-npfloat-items":
        return [np.float64(x) for x in b["v"]]
    if fv == "list-npint-items":
        return [np.int64(x) for x in b["v"]]
    if fv == "ndarray-int":
        return np.array(b["v"], dtype=np.int64)
    if fv == "ndarray-float":
        return np.array(b["v"], dtype=np.float64)
    return list(b["v"])


def edges_of(meth, b):
    """bin edges a Histogram built from this binning has: np.linspace for tuples (external, contract checked)"""
    if b["kind"] == "default":
        lo, hi, n = DEFAULT_BINS[meth]
        return [float(x) for x in np.linspace(lo, hi, num=n + 1)]
    if b["kind"] == "tuple":
        lo, hi, n = b["v"]
        return [float(x) for x in np.linspace(lo, hi, num=int(n) + 1)]
    return [float(x) for x in b["v"]]


def edges_contract(meth, b, edges):
    ok = all(x < y for x, y in zip(edges, edges[1:])) and len(edges) >= 2
    if b["kind"] != "list":
        lo, hi, n = DEFAULT_BINS[meth] if b["kind"] == "default" else b["v"]
        ok = ok and len(edges) == int(n) + 1 and edges[0] == float(lo) and edges[-1] == float(hi)
    return ok


def rejected(b, real):
    """a container / element type outside the documented API was refused - nothing to compare"""
    return b.get("flavour") in REJECTABLE and (real[:2] == ("err", "value") or real[:2] == ("exc", "TypeError"))


def call_dn(pl, meth, b, bo=None, form=None, werr=False, env=False):
    """-> ('ok', bins, hist_object) | ('err', 'value') | ('exc', name)"""
    bo = bo if bo is not None else new_bo(pl)
    if form is None:
        form = "defaults-omitted" if b["kind"] == "default" else "positional"
    args, kwargs = bind(meth, dict(bin_properties=bins_arg(b)), form)
    try:
        h = invoke(bo, meth, args, kwargs, werr, env)
    except ValueError:
        return ("err", "value", None)
    except Exception as e:  # noqa: BLE001
        return ("exc", type(e).__name__, None)
    arr = np.asarray(h.histogram())
    if arr.ndim != 2 or arr.shape[0] != 1:
        return ("exc", f"shape{arr.shape}", h)
    return ("ok", [float(x) for x in arr[0]], h)


def call_mid(pl, meth, w, flavour, use_default=False, bo=None, form=None, werr=False, env=False):
    bo = bo if bo is not None else new_bo(pl)
    if use_default:
        args, kwargs = [], {}
    else:
        args, kwargs = bind(meth, dict(y_width=w, quantity=flavour), form)
    try:
        v = invoke(bo, meth, args, kwargs, werr, env)
    except ValueError:
        return ("err", "value")
    except Exception as e:  # noqa: BLE001
        return ("exc", type(e).__name__)
    return ("ok", float(v))


# ------------------------------------------------------------------ generators
def gen_particle(rng, style):
    if style == "zero":
        # numeric extreme "exactly zero": a particle moving along the beam axis (pT = 0.0), slow (|y| small), or -
        # rarely - one without any momentum (pT = mT = 0.0; only its space-time rapidity is finite)
        if rng.random() < 0.12:
            t = rng.uniform(1.0, 10.0)
            return [0.0, 0.0, 0.0, 0.0, t, t * rng.uniform(-0.3, 0.3)]
        pz = rng.choice([0.0, 0.125, -0.25, 0.5, -1.0])
        m = rng.choice([0.5, 1.0, 2.0])
        t = rng.uniform(1.0, 10.0)
        return [0.0, 0.0, pz, math.sqrt(m * m + pz * pz), t, t * rng.uniform(-0.3, 0.3)]
    if style == "dyadic":
        px = rng.randint(-24, 24) / 8.0
        py = 0.0 if rng.random() < 0.7 else rng.randint(-8, 8) / 8.0
        pz = rng.choice([0.0, 0.0, rng.randint(-16, 16) / 8.0])
        m = rng.choice([0.0, 0.5, 1.0])
    else:
        px, py, pz = rng.uniform(-2.5, 2.5), rng.uniform(-2.5, 2.5), rng.gauss(0, 1.2)
        m = rng.choice([0.0, 0.138, 0.938])
    E = math.sqrt(m * m + px * px + py * py + pz * pz)
    if style == "dyadic" and pz == 0.0 and rng.random() < 0.5:
        E = max(abs(px), 0.125) + rng.choice([0.0, 0.5, 1.0])  # mT = E exactly
    if E == abs(pz):  # rapidity would need the code's regulator; keep the point but make it massive
        E += 0.25
    t = rng.uniform(1.0, 10.0)
    z = t * rng.uniform(-0.95, 0.95)
    return [px, py, pz, E, t, z]


def gen_events(rng, allow_unset=True):
    """-> (events, alias, shape tag)"""
    style = "dyadic" if rng.random() < 0.5 else "generic"

    def ev(lo=1):
        r = rng.random()
        if r < 0.07:   # every particle of the event has pT exactly 0 (its mean pT is 0.0 and still counts)
            return [gen_particle(rng, "zero") for _ in range(rng.randint(1, 3))]
        out = [gen_particle(rng, style) for _ in range(rng.randint(lo, 10))]
        if r < 0.14:   # a few such particles among ordinary ones
            for _ in range(rng.randint(1, 2)):
                out.insert(rng.randrange(len(out) + 1), gen_particle(rng, "zero"))
        return out

    alias = None
    r = rng.random()
    if r < 0.12:
        # several empty events, the last one among them
        n = rng.randint(3, 6)
        evs = [ev() for _ in range(n)]
        evs[-1] = []
        for i in rng.sample(range(n - 1), rng.randint(1, n - 2)):
            evs[i] = []
        tag = "several-empty-incl-last"
    elif r < 0.22:
        # the same list object twice (also an empty one)
        n = rng.randint(2, 5)
        evs = [[] if rng.random() < 0.2 else ev() for _ in range(n)]
        j = rng.randrange(1, n)
        i = rng.randrange(0, j)
        evs[j] = [list(p) for p in evs[i]]
        alias = [None] * n
        alias[j] = i
        tag = "same-list-object-twice"
    elif r < 0.32:
        # events equal as lists (distinct objects, equal contents)
        n = rng.randint(2, 5)
        evs = [[] if rng.random() < 0.2 else ev() for _ in range(n)]
        j = rng.randrange(1, n)
        i = rng.randrange(0, j)
        evs[j] = [list(p) for p in evs[i]]
        if n > 2 and rng.random() < 0.4:
            k = rng.choice([x for x in range(n) if x not in (i, j)])
            evs[k] = [list(p) for p in evs[i]]
        tag = "equal-events"
    else:
        r2 = rng.random()
        nev = 0 if r2 < 0.03 else 1 if r2 < 0.15 else rng.randint(2, 5)
        evs = [[] if rng.random() < 0.25 else ev() for _ in range(nev)]
        tag = "random"
    if allow_unset and alias is None and evs and rng.random() < 0.06:
        cand = [(i, j) for i, e in enumerate(evs) for j in range(len(e))]
        if cand:
            i, j = rng.choice(cand)
            evs[i][j][rng.choice([0, 2, 3])] = None
    return evs, alias, tag


def _dedup_sorted(vals):
    out = []
    for x in sorted(vals, key=float):
        if not out or float(x) > float(out[-1]):
            out.append(x)
    if len(out) < 2:
        out.append(float(out[-1]) + 1.0)
    return out


def gen_bins(rng, meth, qvals, flavour=None):
    positive = meth in ("dNdpT", "dNdmT")
    flat = [q for e in qvals for q in e if q == q and abs(q) != float("inf")]
    fv = flavour or rng.choice(BIN_FLAVOURS)
    if fv == "default":
        return dict(kind="default", v=None, flavour=fv)
    if fv.startswith("tuple"):
        n = rng.randint(1, 8)
        if fv == "tuple-int":
            lo = rng.choice([0, 1]) if positive else rng.choice([-3, -2, -1, 0])
            hi = lo + rng.choice([1, 2, 3, 4, 6])
        elif fv == "tuple-float":
            lo = rng.choice([0.0, 0.25, 0.5, 1.0]) if positive else rng.choice([-2.0, -1.0, -0.5, 0.25, -3.0])
            hi = lo + rng.choice([1.0, 2.5, 0.75, 3.0, 4.0])
        else:
            lo = rng.choice([0, 1]) if positive else rng.choice([-2, -1, 0])
            hi = lo + rng.choice([0.75, 2.5, 3.5])
            if rng.random() < 0.5:
                lo, hi = float(lo) - 0.5 * (not positive), int(math.ceil(hi))
        return dict(kind="tuple", v=[lo, hi, n], flavour=fv)
    k = rng.randint(1, 6)
    if fv in ("list-int", "list-int-unit", "list-npint-items", "ndarray-int"):
        # Python ints only; widths 1, 2, 3 (at least one bin wider than 1 unless "-unit")
        x = rng.choice([0, 0, 1]) if positive else rng.choice([-4, -3, -2, -1, 0])
        vals = [x]
        widths = [1] * k if fv == "list-int-unit" else [rng.choice([1, 2, 3]) for _ in range(k)]
        if fv != "list-int-unit" and all(w == 1 for w in widths):
            widths[rng.randrange(k)] = rng.choice([2, 3])
        for w in widths:
            vals.append(vals[-1] + w)
        return dict(kind="list", v=[int(v) for v in vals], flavour=fv)
    pool = set()
    while len(pool) < k + 1:
        if fv == "list-qedges" and flat and rng.random() < 0.7:
            pool.add(float(rng.choice(flat)))  # an edge bit-equal to a particle's value
        elif fv != "list-qedges" and flat and rng.random() < 0.25:
            pool.add(float(rng.choice(flat)))
        else:
            x = rng.randint(0 if positive else -24, 40) / 8.0
            if fv == "list-mixed" and x == int(x):
                pool.add(int(x))
            else:
                pool.add(float(x))
    vals = _dedup_sorted(pool)
    if fv == "list-mixed":
        # make sure both types occur, and that two neighbouring ints span a bin wider than 1 now and then
        if not any(isinstance(v, int) for v in vals):
            vals = _dedup_sorted([int(math.floor(float(vals[0]))) - rng.choice([1, 2])] + vals)
        if not any(isinstance(v, float) for v in vals):
            vals = _dedup_sorted(vals + [float(vals[-1]) + 0.5])
    else:
        vals = [float(v) for v in vals]
    return dict(kind="list", v=vals, flavour=fv)


def gen_width(rng, yvals):
    r = rng.random()
    flat = [abs(y) for e in yvals for y in e if y == y and y != 0 and abs(y) != float("inf")]
    if r < 0.06:
        return rng.choice([0, -1, -0.5, 0.0])
    if r < 0.3 and flat:
        return 2.0 * rng.choice(flat)  # a particle exactly on the window's edge
    return rng.choice([1.0, 1, 0.5, 2, 0.25, 3.0, 0.125, rng.uniform(0.05, 4.0)])


def empty_patterns():
    """deterministic block: every placement of empty events for 1..4 events"""
    out = []
    base = [[[1.0, 0.0, 0.0, 1.5, 2.0, 0.0]], [[2.0, 0.0, 0.5, 2.5, 2.0, 0.5], [6.0, 0.0, 0.0, 6.5, 2.0, 0.0]],
            [[3.0, 0.0, 0.0, 3.5, 3.0, 1.0]], [[0.5, 0.0, 4.0, 5.0, 5.0, 4.0], [5.0, 0.0, 0.25, 5.5, 3.0, 0.0]]]
    for n in range(1, 5):
        for mask in range(2 ** n):
            out.append([[] if (mask >> i) & 1 else [list(p) for p in base[i]] for i in range(n)])
    return out


def type_flavour_block():
    """deterministic block: every binning flavour x every method on a fixed three-event sample with an
    empty middle event; the values are chosen so that bins wider than 1 are populated"""
    evs = [[[1.5, 0.0, 0.5, 2.0, 3.0, 1.0], [2.5, 0.0, -1.0, 3.0, 3.0, -1.0], [0.5, 0.0, 0.0, 1.0, 2.0, 0.0]], [],
           [[3.25, 0.0, 2.0, 4.0, 4.0, 2.0], [1.0, 0.0, -0.25, 1.25, 2.0, -0.5]]]
    fixed = {"list-int": {True: [0, 1, 2, 4], False: [-2, 0, 2]}, "ndarray-int": {True: [0, 2, 5], False: [-3, -1, 0, 3]},
             "list-npint-items": {True: [0, 1, 4], False: [-2, -1, 2]}}
    out = []
    for meth in DN_METHODS:
        positive = meth in ("dNdpT", "dNdmT")
        for fv in sorted(set(BIN_FLAVOURS)):
            out.append((evs, meth, fv, fixed.get(fv, {}).get(positive)))
    return out


# ------------------------------------------------------------------ call-sequence perturbations
def _list_flavour(v):
    if all(isinstance(x, int) for x in v):
        return "list-int"
    return "list-float" if all(isinstance(x, float) for x in v) else "list-mixed"


def twins(b):
    """binnings whose argument is EQUAL AS A SEQUENCE to `b`'s but of another kind (tuple spec (min,max,n) <-> list of
    edges [min,max,n]), element type (int <-> float entries comparing equal) or container (list of numpy scalars,
    numpy array).  Each twin is a binning of its own with its own expected edges; none may be answered with the
    result of another."""
    out = []
    if b["kind"] == "tuple":
        lo, hi, n = b["v"]
        if lo < hi < n:
            out.append(dict(kind="list", v=[lo, hi, int(n)], flavour=_list_flavour([lo, hi, int(n)])))
            out.append(dict(kind="list", v=[float(lo), float(hi), float(n)], flavour="list-float"))
        alt = [float(lo) if isinstance(lo, int) else (int(lo) if lo == int(lo) else lo),
               float(hi) if isinstance(hi, int) else (int(hi) if hi == int(hi) else hi), int(n)]
        if [type(x) for x in alt] != [type(x) for x in b["v"]]:
            out.append(dict(kind="tuple", v=alt, flavour="tuple-mixed"))
    elif b["kind"] == "list":
        v = list(b["v"])
        if len(v) == 3 and float(v[2]) == int(v[2]) and int(v[2]) >= 1 and v[0] < v[1]:
            out.append(dict(kind="tuple", v=[v[0], v[1], int(v[2])], flavour="tuple-mixed"))
        if any(isinstance(x, int) for x in v):
            out.append(dict(kind="list", v=[float(x) for x in v], flavour="list-float"))
        if all(float(x) == int(x) for x in v) and any(isinstance(x, float) for x in v):
            out.append(dict(kind="list", v=[int(x) for x in v], flavour="list-int"))
        fv = b.get("flavour", "")
        if fv not in ("list-npfloat-items",):
            out.append(dict(kind="list", v=[float(x) for x in v], flavour="list-npfloat-items"))
        if not fv.startswith("ndarray"):
            out.append(dict(kind="list", v=[float(x) for x in v], flavour="ndarray-float"))
        else:
            out.append(dict(kind="list", v=[float(x) for x in v], flavour="list-float"))
    return out


def gen_seq_pair(rng, meth):
    """a tuple spec (a, b, n) and the explicit edge list [a, b, n] with the same numbers (a < b < n), entries int or float"""
    positive = meth in ("dNdpT", "dNdmT")
    a = rng.choice([0, 0, 1]) if positive else rng.choice([-2, -1, 0, 0])
    b_ = a + rng.choice([1, 1, 2])
    n = rng.randint(max(b_ + 1, 1), b_ + 3)
    cast = rng.choice([int, float])
    t = dict(kind="tuple", v=[cast(a), cast(b_), n], flavour="tuple-int" if cast is int else "tuple-float")
    cast2 = rng.choice([int, float])
    lst = [cast2(a), cast2(b_), rng.choice([n, float(n)]) if cast2 is float else n]
    l = dict(kind="list", v=lst, flavour=_list_flavour(lst))
    return [t, l] if rng.random() < 0.5 else [l, t]


def gen_mutation(rng, edges):
    """something a caller may do with the Histogram it was handed (public Histogram API)"""
    r = rng.random()
    if r < 0.35:
        return f"scale:{rng.choice([2.0, 0.5, 3.0, 0.0])}"
    if r < 0.6:
        i = rng.randrange(len(edges) - 1)
        return f"add_value:{(edges[i] + edges[i + 1]) / 2!r}"
    if r < 0.75:
        return "add_histogram"
    if r < 0.9 and len(edges) > 2:
        return f"remove_bin:{rng.randrange(len(edges) - 1)}"
    return "set_error"


def apply_mutation(h, mut):
    """the caller changes ITS result object; whatever that raises is the caller's business"""
    try:
        with np.errstate(all="ignore"):
            if mut.startswith("scale:"):
                h.scale_histogram(float(mut.split(":")[1]))
            elif mut.startswith("add_value:"):
                for _ in range(3):
                    h.add_value(float(mut.split(":")[1]))
            elif mut == "add_histogram":
                h.add_histogram()
                h.add_value(float(h.bin_centers()[0]))
            elif mut.startswith("remove_bin:"):
                h.remove_bin(int(mut.split(":")[1]))
            elif mut == "set_error":
                h.set_error([7.0] * len(h.bin_centers()))
    except Exception:  # noqa: BLE001
        pass


# ------------------------------------------------------------------ driver encoding
def enc_q(x):
    return "-" if x != x else f2h(x)


def enc_dn_events(qvals):
    if not qvals:
        return "none"
    return "|".join("." if not e else ";".join(enc_q(q) for q in e) for e in qvals)


def enc_mid_events(yvals, xvals):
    if not yvals:
        return "none"
    return "|".join("." if not ye else ";".join(enc_q(y) + "," + f2h(x) for y, x in zip(ye, xe))
                    for ye, xe in zip(yvals, xvals))


def close_list(a, b, rel):
    return len(a) == len(b) and all(close(x, y, rel=rel, abs_=1e-300) for x, y in zip(a, b))


# ------------------------------------------------------------------ correspondence (tie C)
def correspond(ctx):
    rng = ctx.rng
    nbrk = [0]

    def brk(what, **kw):
        nbrk[0] += 1
        if nbrk[0] <= 8:  # the first few differing cases are enough to name the disagreement
            ctx.brk("correspondence-broken", what, **kw)
        ctx.cov["correspondence_mismatches"] = nbrk[0]

    ctx.rule = ("random samples: 0-6 events incl. empty ones at any position (plus every placement of empty events "
                "for 1-4 events; several empty events incl. the last; the same list object twice; events equal as lists), "
                "0-10 particles, dyadic and generic kinematics, rarely an unset attribute; binnings stratified over "
                "default / tuple (int, float, mixed limits) / explicit lists (all-int with widths 1-3, float, mixed, edges "
                "bit-equal to particle values, numpy-scalar items) / numpy arrays (plus every flavour x method on a fixed "
                "sample); every second sample runs all its calls on ONE re-used BulkObservables object, with failing calls "
                "(invalid arguments, warnings-as-errors) caught in between; every call in a random equivalent call form "
                "(positional / keyword / reversed keywords / mixed / documented defaults omitted); the input as list / tuple / "
                "numpy object array / list subclass, the object under test as it is or as its copy.copy / deepcopy / pickle "
                "round trip; some calls in an unusual environment (fresh cwd, np.seterr warn, print options, advanced RNG "
                "state) with the global state checked before/after; returned histograms written under bare relative names "
                "after chdir, with non-ASCII / CRLF / trailing-blank free text; window widths incl. "
                "a particle exactly on the edge and invalid widths; three rapidity flavours. "
                "non-trivial (dN/dx) = >=2 events, some bin filled, and an empty event or a value outside the range or "
                "exactly on an edge; (mid) = >=2 events, a particle inside and one outside the window or an empty event")
    if not getattr(ctx, "fallback", False):
        ctx.cov["tie"] = ("T+C: Gen/Bulk.lean regenerated from BulkObservables.py and proved equal to Core/Bulk.lean "
                          "(Lemmas/BulkGen.lean); hand model and generated functions both run against the real code "
                          "through lean/drivers/C14.lean")
    tables = gen_tables()
    ctx.cov["generated_tables"] = {k: {a: list(b) if isinstance(b, tuple) else b for a, b in v.items()} for k, v in tables.items()}
    ctx.assumptions += [
        "C14: numpy contracts used as parameters: np.linspace (strictly increasing, end points exact - checked per case), "
        "np.digitize(v, edges) = number of edges <= v for increasing edges, np.average(axis=0, weights=ones) = sum/count",
        "C14: the quantity of a particle is whatever Particle.rapidity/pT_abs/pseudorapidity/mT/spacetime_rapidity return (C08's subject)",
        "C14: 'input lists unmodified' and 'returned histogram can be written' are checked on the real code by sampling only "
        "(snapshot of identities and data bytes; write_to_file + parse), they are not Lean theorems",
        "C14: binnings given as numpy arrays / lists of numpy ints are outside the documented API; a TypeError/ValueError for "
        "them is accepted, a returned histogram is checked like any other",
        "C14 containers: the documented input type is List[List[Particle]]; tuples, numpy object arrays and list subclasses are "
        "accepted by the code and judged like lists, a refusal of such an undocumented container is accepted as an answer; one-shot "
        "OUTER iterators (generator, map) are refused by the code (len()), which is accepted; one-shot INNER iterators are NOT "
        "exercised: the docs exclude them and the clean code neither rejects nor supports them (the first call consumes them, e.g. "
        "[iter(ev)...]: second dNdpT all zeros) - the property's 'particle lists' do not cover them",
        "C14 environment: the statement says nothing about process-global state; that a call leaves cwd, random / np.random "
        "state, np.geterr() and numpy print options as it found them is checked as a general contract (key environment-changed:...)",
        "C14 text: non-ASCII file names / comments / labels are exercised only under a UTF-8 locale (write_to_file opens the file "
        f"without an explicit encoding); this run: {'UTF-8' if UTF8 else 'not UTF-8, ASCII only'}",
        "C14 tie T: translated = statements of _differential_yield after argument-type validation, the wrappers' quantity and "
        "default binning, the three mid-rapidity functions after argument-type validation. NOT translated (recognised, "
        "hashed): isinstance/callable validation, warnings, _check_quantity_is_method, class ReadOnlyList (checked to delegate "
        "indexing/len/iteration); Histogram methods are the primitives HObj.* of Core/Bulk.lean (Histogram is C09/C10's subject, "
        "tied here by correspondence); the translator itself is trusted (mitigated: generated functions are run against the code)",
    ]
    samples = [(evs, None, "pattern", None) for evs in empty_patterns()]
    for evs, meth, fv, v in type_flavour_block():
        samples.append((evs, None, "flavour-block", (meth, fv, v)))
    for _ in range(ctx.n(200, 5000)):
        evs, alias, tag = gen_events(rng)
        samples.append((evs, alias, tag, None))
    lines, meta = [], []
    for idx, (evs, alias, tag, forced) in enumerate(samples):
        pl = make_particles(evs, alias)
        snap = snapshot(pl)
        reuse = idx % 2 == 1
        setup = gen_setup(rng, plain=rng.random() < 0.5)
        setup["input_copy"] = None
        if setup["container"] in ("generator-outer", "map-outer"):
            setup["container"] = "tuple-both"

        def make_bo():
            """the object under test: constructor call form, container of the input, copy / pickle round trip before use"""
            return copied(new_bo(wrap_container(pl, setup["container"]), setup["ctor_form"]), setup["bo_copy"])

        bo = make_bo() if reuse else None
        ctx.count(f"sample/{tag}/{'reused-object' if reuse else 'fresh-objects'}")
        ctx.count(f"sample/setup/container={setup['container']}/object={setup['bo_copy'] or 'as-is'}")

        def provoke():
            """error path on the re-used object: a call that raises (invalid argument, or a valid call with warnings as
            errors), caught like a caller would; the object must be what it was and the next answers must be right"""
            if not reuse or forced or rng.random() > 0.35:
                return
            before = observe(bo, pl)
            name = rng.choice(sorted(ERR_STEPS))
            m = rng.choice(list(DN_METHODS) if ERR_STEPS[name][0] == "dn" else list(MID_METHODS))
            step = dict(method=m, error=name)
            try:
                if rng.random() < 0.6:
                    invoke(bo, m, list(ERR_STEPS[name][1]()), {})
                else:
                    m, name = rng.choice(list(DN_METHODS)), "valid call, warnings=error"
                    step = dict(method=m, bins=dict(kind="default", v=None, flavour="default"), form="defaults-omitted", werr=True)
                    invoke(bo, m, [], {}, werr=True)
                return
            except Exception:  # noqa: BLE001
                ctx.count("sample/reused-object/failed-call-before-next-call")
                note_failed(evs, alias, step)
            if observe(bo, pl) != before:
                brk(f"error-path: {m} [{name}] raised and left the BulkObservables object changed",
                    case=dict(events=evs, alias=alias, method=m, error=name))
        # --- differential yields.  On a re-used object: shuffled, one method a second time, and after a call
        #     sometimes a twin binning (same numbers, other kind / element type / container) or the caller modifies
        #     the Histogram it got and asks the same question again; plus one (tuple spec, edge list) pair
        dn_calls = list(DN_METHODS)
        if forced:
            dn_calls = [forced[0]]
        elif reuse:
            rng.shuffle(dn_calls)
            dn_calls.append(rng.choice(dn_calls))
        queue = [(m, None) for m in dn_calls]
        if reuse and not forced:
            m = rng.choice(list(DN_METHODS))
            pos = rng.randrange(len(queue) + 1)
            queue[pos:pos] = [(m, b) for b in gen_seq_pair(rng, m)]
        qi = 0
        while qi < len(queue):
            meth, b = queue[qi]
            qi += 1
            follow_up = b is None and reuse and not forced
            q = quantity_values(pl, DN_METHODS[meth])
            if b is None:
                if forced and forced[2] is not None:
                    b = dict(kind="list", v=list(forced[2]), flavour=forced[1])
                else:
                    b = gen_bins(rng, meth, q, forced[1] if forced else None)
            edges = edges_of(meth, b)
            if not edges_contract(meth, b, edges):
                brk(f"np.linspace contract violated for {b}", case=dict(bins=b))
                continue
            provoke()
            form = rng.choice(CALL_FORMS)
            ctx.count(f"call-form/{form}")
            real = call_dn(pl, meth, b, bo if bo is not None else make_bo(), form, env=rng.random() < 0.15)
            r_env = env_check(meth, f"{meth}({bins_arg(b)!r})")
            if r_env:
                brk(r_env[1], case=dict(events=evs, alias=alias, method=meth, bins=b))
            if real[0] != "ok" and not str(real[1]).startswith("shape"):
                note_failed(evs, alias, dict(method=meth, bins=b, form=form))
            if refused(setup, real):
                ctx.count(f"sample/setup/container={setup['container']}/refused")
                continue
            if rejected(b, real):
                ctx.count(f"{meth}/bins={b['flavour']}/refused-by-validation")
                ctx.case(("dn-refused", meth, json.dumps(b)), False)
                continue
            if real[0] == "ok":
                hb = [float(x) for x in real[2].bin_boundaries()]
                if hb != edges:
                    brk(f"{meth}({bins_arg(b)!r}) ({'re-used' if reuse else 'fresh'} object): histogram edges {hb} differ from "
                        f"the binning's edges {edges}", case=dict(events=evs, alias=alias, method=meth, bins=b, reused_object=reuse))
            lines.append(f"dndx\t{fl(edges)}\t{enc_dn_events(q)}")
            meta.append(("dn", meth, b, evs, alias, q, edges, real[:2], reuse))
            # the function GENERATED from the current source, on the quantity / default binning of the generated tables
            gq = tables["quantity"].get(meth)
            try:
                qg = q if gq == DN_METHODS[meth] else quantity_values(pl, gq)
            except Exception as e:  # noqa: BLE001
                brk(f"generated table names `{gq}` as the quantity of {meth}: {type(e).__name__}", case=dict(method=meth))
                qg = None
            if qg is not None:
                eg = edges
                if b["kind"] == "default":
                    lo, hi, n = tables["default"][meth]
                    eg = [float(x) for x in np.linspace(lo, hi, num=n + 1)]
                lines.append(f"gdndx\t{fl(eg)}\t{enc_dn_events(qg)}")
                meta.append(("gdn", meth, b, evs, alias, qg, eg, real[:2], reuse))
            if follow_up and real[0] == "ok":
                r = rng.random()
                if r < 0.3:
                    tw = twins(b)
                    for t in rng.sample(tw, min(len(tw), rng.randint(1, 2))):
                        queue.insert(qi, (meth, t))
                    ctx.count("sample/reused-object/twin-binning-follows")
                elif r < 0.6:
                    mut = gen_mutation(rng, edges)
                    apply_mutation(real[2], mut)  # the caller's own object now; `real[:2]` was taken before
                    queue.insert(qi if rng.random() < 0.6 else len(queue), (meth, b))
                    ctx.count(f"sample/reused-object/result-mutated-then-same-call/{mut.split(':')[0]}")
        if not forced:
            # --- mid-rapidity functions
            flavour = rng.choice(FLAVOURS)
            y = quantity_values(pl, flavour)
            w = gen_width(rng, y)
            use_default = flavour == "rapidity" and rng.random() < 0.1
            if use_default:
                w = 1.0
            mid_calls = list(MID_METHODS.items())
            if reuse:  # a re-used object answers every mid-rapidity question twice, in random order
                mid_calls = mid_calls * 2
                rng.shuffle(mid_calls)
            for meth, xname in mid_calls:
                x = quantity_values(pl, xname) if xname else [[0.0 for _ in e] for e in y]
                provoke()
                form = rng.choice(CALL_FORMS)
                ctx.count(f"call-form/{form}")
                real = call_mid(pl, meth, w, flavour, use_default, bo if bo is not None else make_bo(), form,
                                env=rng.random() < 0.15)
                r_env = env_check(meth, f"{meth}({w!r}, {flavour!r})")
                if r_env:
                    brk(r_env[1], case=dict(events=evs, alias=alias, method=meth))
                if real[0] != "ok":
                    note_failed(evs, alias, dict(method=meth, y_width=w, quantity=flavour, form=form))
                if refused(setup, real) and real != ("err", "value"):
                    ctx.count(f"sample/setup/container={setup['container']}/refused")
                    continue
                op = "yield" if xname is None else "mean"
                lines.append(f"{op}\t{f2h(float(w))}\t{enc_mid_events(y, x)}")
                marg = dict(y_width=w, quantity=flavour, default_args=use_default)
                meta.append(("mid", meth, marg, evs, alias, (y, x), None, real, reuse))
                # the GENERATED function, on the averaged method / default arguments of the generated tables
                gop = {"mid_rapidity_yield": "gyield", "mid_rapidity_mean_pT": "gmeanpt", "mid_rapidity_mean_mT": "gmeanmt"}[meth]
                wg, fg = (tables["mid_default"][meth] if use_default else (w, flavour))
                gx = tables["mean_value"].get(meth)
                try:
                    yg = y if fg == flavour else quantity_values(pl, fg)
                    xg = x if (xname is None or gx == xname) else quantity_values(pl, gx)
                except Exception as e:  # noqa: BLE001
                    brk(f"generated tables name `{fg}` / `{gx}` for {meth}: {type(e).__name__}", case=dict(method=meth))
                    continue
                lines.append(f"{gop}\t{f2h(float(wg))}\t{enc_mid_events(yg, xg)}")
                meta.append(("gmid", meth, marg, evs, alias, (yg, xg), None, real, reuse))
        if snapshot(pl) != snap:
            brk("the particle lists were modified by a BulkObservables call (the model is a pure function)",
                case=dict(events=evs, alias=alias))
    outs = common.run_driver("C14", lines)
    for (kind, meth, arg, evs, alias, vals, edges, real, reuse), out in zip(meta, outs):
        nev = len(evs)
        has_empty = any(len(e) == 0 for e in evs)
        how = "re-used object" if reuse else "fresh object"
        if kind in ("gdn", "gmid"):
            # generated function vs real code (tie C on top of tie T)
            if out.startswith("ok "):
                if kind == "gdn":
                    rows = [parse_fl(r) for r in out[3:].split("|")]
                    ok = real[0] == "ok" and len(rows) == 1 and close_list(real[1], rows[0], 1e-12)
                else:
                    ok = real[0] == "ok" and close(real[1], h2f(out[3:]), rel=1e-12)
            elif out == "err value":
                ok = real == ("err", "value")
            else:
                ok = False
            ctx.count(f"generated/{meth}/{'agrees' if ok else 'DIFFERS'}")
            if not ok:
                brk(f"{meth} ({how}): code {real[:2]} vs GENERATED function {out[:200]}",
                    case=dict(events=evs, alias=alias, method=meth, arg=arg, reused_object=reuse))
            continue
        if kind == "dn":
            q = vals
            if out.startswith("ok "):
                parts = out.split(" ")
                mb = parse_fl(parts[1])
                ok = real[0] == "ok" and close_list(real[1], mb, 1e-12)
                if ok and parts[2] != "-" and nev > 0:
                    # the executable specification (count / N / width) against the code and the model
                    ok = close_list(parse_fl(parts[2]), real[1], 1e-12)
            elif out == "err value":
                ok = real == ("err", "value")
            else:
                ok = False
            flat = [v for e in q for v in e if v == v]
            filled = real[0] == "ok" and any(v != 0 for v in real[1])
            outside = any(v < edges[0] or v >= edges[-1] for v in flat)
            on_edge = any(v in edges for v in flat)
            nontriv = nev >= 2 and filled and (has_empty or outside or on_edge)
            ctx.case(("dn", meth, json.dumps(arg), json.dumps(evs), json.dumps(alias), reuse), nontriv,
                     sample=dict(op=meth, bins=arg, events=evs, code=real[:2], model=out) if nontriv else None)
            ctx.count(f"{meth}/bins={arg['flavour']}/{real[0]}")
            ctx.count(f"dN/events={min(nev, 2)}{'+' if nev > 2 else ''}/{'empty-event' if has_empty else 'no-empty'}")
            if on_edge:
                ctx.count("dN/value-bit-equal-to-edge")
            if arg["kind"] == "list" and real[0] == "ok" and all(isinstance(v, int) for v in arg["v"]):
                wide = [i for i, (a, b_) in enumerate(zip(arg["v"], arg["v"][1:])) if b_ - a > 1]
                if any(real[1][i] != 0 for i in wide):
                    ctx.count("dN/all-int-edges/populated-bin-wider-than-1")
            if not ok:
                brk(f"{meth} ({how}): code {real[:2]} vs model {out}",
                    case=dict(events=evs, alias=alias, method=meth, bins=arg, reused_object=reuse))
        else:
            y, x = vals
            if out.startswith("ok "):
                parts = out.split(" ")
                mv, sv = h2f(parts[1]), h2f(parts[2])
                ok = real[0] == "ok" and close(real[1], mv, rel=1e-12)
                if ok and sv == sv:  # spec is 0/0 = NaN at IEEE when nothing is averaged; the theorem covers that case
                    ok = close(sv, real[1], rel=1e-12)
            elif out == "err value":
                ok = real == ("err", "value")
            else:
                ok = False
            w = float(arg["y_width"])
            flat = [v for e in y for v in e]
            inside = any(v == v and abs(v) <= w / 2 for v in flat)
            outside_w = any(not (v == v and abs(v) <= w / 2) for v in flat)
            nontriv = nev >= 2 and inside and (outside_w or has_empty)
            ctx.case(("mid", meth, json.dumps(arg), json.dumps(evs), json.dumps(alias), reuse), nontriv,
                     sample=dict(op=meth, args=arg, events=evs, code=real, model=out) if nontriv and meth != "mid_rapidity_yield" else None)
            ctx.count(f"{meth}/{arg['quantity']}/events={min(nev, 2)}{'+' if nev > 2 else ''}/"
                      f"{'empty-first' if nev and not evs[0] else 'empty-event' if has_empty else 'no-empty'}/{real[0]}")
            if not ok:
                brk(f"{meth}({arg}) ({how}): code {real} vs model {out}",
                    case=dict(events=evs, alias=alias, method=meth, args=arg, reused_object=reuse))


# ------------------------------------------------------------------ independent reference (exact rationals)
def ref_dn(q, edges):
    """per bin: (# values v with e_i <= v < e_{i+1} over all events) / N / (e_{i+1} - e_i); zeros for no event"""
    n = len(q)
    out = []
    for lo, hi in zip(edges, edges[1:]):
        c = sum(1 for e in q for v in e if lo <= v < hi)
        out.append(Fraction(0) if n == 0 else Fraction(c, n) / (Fraction(hi) - Fraction(lo)))
    return out


def ref_yield(y, w):
    n = len(y)
    if n == 0:
        return Fraction(0)
    half = Fraction(w) / 2
    return Fraction(sum(1 for e in y for v in e if v == v and abs(Fraction(v)) <= half), n)


def ref_mean(y, x, w):
    half = Fraction(w) / 2
    means = []
    for ye, xe in zip(y, x):
        ins = [Fraction(b) for a, b in zip(ye, xe) if a == a and abs(Fraction(a)) <= half]
        if ins:
            means.append(sum(ins) / len(ins))
    return sum(means) / len(means) if means else Fraction(0)


def gen_write_spec(rng):
    """where and how the caller writes the histogram it was handed: file name (bare relative name in the current
    directory, ./name, name in an existing sub-directory, blanks, non-ASCII), absolute path or relative to a fresh
    working directory, free-text parts (comment, labels) with non-ASCII characters / CRLF / trailing blanks, and
    whether the histogram is written as it is or as a copy.copy / deepcopy / pickle round trip of it"""
    name = rng.choice(WRITE_NAMES)
    comment = rng.choice(WRITE_COMMENTS)
    labels = rng.choice(["plain", "blanks", "non-ascii", "quoting"])
    if not UTF8:  # non-ASCII text needs a UTF-8 locale (open() without an encoding)
        name = name if name.isascii() else "x.csv"
        comment = comment if comment.isascii() else "# C14"
        labels = "plain" if labels == "non-ascii" else labels
    return dict(name=name, where=rng.choice(["absolute", "cwd", "cwd"]), comment=comment, labels=labels,
                copy=rng.choice(COPY_MODES))


def _labels(kind):
    suffix = {"plain": "", "blanks": "  ", "non-ascii": " \u03b7\u00b1", "quoting": ', "q" '}[kind]
    return {c: "L_" + c + suffix for c in ALL_COLS}


def check_write(h, tmpdir, spec=None):
    """the caller writes the returned histogram (see gen_write_spec) and reads it back; None or (key, what)"""
    spec = spec or dict(name="h.csv", where="absolute", comment="# C14", labels="plain", copy=None)
    d = tempfile.mkdtemp(prefix="w_", dir=tmpdir)
    cwd0 = os.getcwd()
    labels = _labels(spec["labels"])
    txt = f"write_to_file({spec['name']!r} [{spec['where']}], labels {spec['labels']}, comment={spec['comment']!r}" + \
          (f", on a {spec['copy']} of the histogram" if spec.get("copy") else "") + ")"
    try:
        if os.path.dirname(spec["name"]) not in ("", "."):
            os.makedirs(os.path.join(d, os.path.dirname(spec["name"])))
        if spec["where"] == "absolute":
            path = os.path.join(d, spec["name"])
        else:
            os.chdir(d)
            path = spec["name"]
        h2 = copied(h, spec.get("copy"))
        before = env_state()
        try:
            h2.write_to_file(path, [labels], comment=spec["comment"])
        except Exception as e:  # noqa: BLE001
            if isinstance(e, IndexError) and np.ndim(h.systematic_error_) == 1:
                return (WRITE_KEY, f"write_to_file on the histogram returned by BulkObservables raises {type(e).__name__}: {e} "
                                   f"(systematic_error_ has shape {np.shape(h.systematic_error_)} after average())")
            return (f"write-returned-histogram/raises-{type(e).__name__}",
                    f"the histogram returned by BulkObservables cannot be written: {txt} raises {type(e).__name__}: {e}")
        after = env_state()
        diff = [k for k in before if before[k] != after[k]]
        if diff:
            return (f"environment-changed:{'+'.join(diff)}:write_to_file", f"{txt} changed process-global state: {diff}")
        full = os.path.join(d, spec["name"])
        if not os.path.isfile(full):
            return ("write-returned-histogram/no-file", f"{txt} returned but there is no file {spec['name']!r} where it was asked for "
                                                        f"(directory has {sorted(os.listdir(d))})")
        raw = open(full, "rb").read()
        prefix = (spec["comment"] + "\n").encode("utf-8") if spec["comment"] != "" else b""
        if not raw.startswith(prefix):
            return ("write-returned-histogram/comment", f"{txt}: the file does not start with the comment: {raw[:80]!r}")
        rows = [r for r in csv.reader(io.StringIO(raw[len(prefix):].decode("utf-8"), newline="")) if r]
        nb = len(h.bin_centers())
        if len(rows) != nb + 1 or rows[0] != [labels[c] for c in ALL_COLS]:
            return ("write-returned-histogram/layout", f"{txt}: unexpected file layout: {rows[:2]}")
        want = [h.bin_centers(), h.bin_bounds_left(), h.bin_bounds_right(), h.histogram()[0]]
        for i, r in enumerate(rows[1:]):
            for c in range(4):
                if float(r[c]) != float(want[c][i]):
                    return ("write-returned-histogram/cell", f"{txt}: row {i} column {ALL_COLS[c]}: file {r[c]} != {float(want[c][i])!r}")
        return None
    finally:
        os.chdir(cwd0)
        shutil.rmtree(d, ignore_errors=True)


# every call that raised in THIS process, oldest first: (events, alias, step).  Used only when a violation does not
# reproduce in a new process: then state outside the objects (module / class level) survived some failed call, and
# the replay gets that call as a prelude.
PROCESS_FAILED = []


def note_failed(evs, alias, step):
    PROCESS_FAILED.append(dict(events=json.loads(json.dumps(evs)), alias=alias, step=dict(step)))


def _session(evs, alias, shared):
    """(particle lists, object, log of failed calls) - a fresh object unless a long-lived one is given"""
    if shared:
        return shared
    return build_session(evs, alias, None)


def failed_call_check(meth, before, after, what):
    """a call that raised must leave the object and its input exactly as they were"""
    if before == after:
        return None
    parts = ["particle lists", "read-only view", "instance attributes", "class attributes"]
    changed = [n for n, a, b_ in zip(parts, before, after) if a != b_]
    return (f"error-path:object-changed-by-failed-call:{meth}",
            f"{what} raised, and afterwards the BulkObservables object is not what it was before the call: changed {changed}",
            dict(changed=changed))


def oracle_dn(evs, meth, b, tmpdir=None, alias=None, shared=None, mutate=None, handed=None, form=None, werr=False,
              env=False, wspec="default"):
    """None or (key, what, detail): the property on the real code for one differential-yield call.
    shared = (particle lists, BulkObservables object, log) to run the call on a long-lived object.
    mutate: after all checks the caller modifies the Histogram it was handed (see apply_mutation).
    handed: list collecting (result object, its values, its edges) of un-modified results.
    form: one of CALL_FORMS; werr: warnings are errors during the call (it may then fail midway).
    A call on data for which the quantity does not exist (NaN / raising element) is expected to fail: it is not judged,
    but like every failed call it must leave the object unchanged."""
    pl, bo, log, setup = _session(evs, alias, shared)
    try:
        q = quantity_values(pl, DN_METHODS[meth])
        valid = not any(v != v or abs(v) == float("inf") for e in q for v in e)
    except Exception:  # noqa: BLE001  (an element that does not have the quantity)
        q, valid = None, False
    edges = edges_of(meth, b)
    if not edges_contract(meth, b, edges):
        return None
    before = observe(bo, pl)
    real = call_dn(pl, meth, b, bo, form, werr, env)
    after = observe(bo, pl)
    btxt = f"{b.get('flavour', b['kind'])} {bins_arg(b)!r}" + (f" [{form}]" if form else "") + (" [warnings=error]" if werr else "") + \
        (" [unusual environment]" if env else "") + ("" if is_plain(setup) else f" [setup {setup}]")
    if after[0] != before[0]:
        return (f"input-modified/{meth}", f"{meth} modified the particle lists passed in", {})
    r = env_check(meth, f"{meth}({btxt})")
    if r:
        return r
    raised = real[0] != "ok" and not str(real[1]).startswith("shape")
    if raised:
        log.append(meth)
        note_failed(evs, alias, dict(method=meth, bins=b, form=form, werr=werr))
        r = failed_call_check(meth, before, after, f"{meth}({btxt})")
        if r:
            return r
    if rejected(b, real) or refused(setup, real) or not valid or (werr and raised):
        return None  # the statement speaks about particles that have the quantity / a caller-provoked failure
    btxt = f"{b.get('flavour', b['kind'])} {bins_arg(b)!r}"
    if real[0] != "ok":
        if str(real[1]).startswith("shape"):
            return (f"{meth}/histogram-shape", f"{meth}({btxt}).histogram() has {real[1]}, expected one row", dict(observed=real[:2]))
        return (f"{meth}/raises-{real[1]}", f"{meth}({btxt}) raises {real[1]} on {len(evs)} events", dict(observed=real[:2]))
    want = ref_dn(q, edges)
    got = real[1]
    if len(got) != len(want):
        return (f"{meth}/number-of-bins", f"{meth}({btxt}): {len(got)} bins returned, {len(want)} expected "
                                          f"(edges returned {[float(x) for x in real[2].bin_boundaries()]}, asked for {edges})", {})
    for i, (g, wv) in enumerate(zip(got, want)):
        if not close(g, float(wv), rel=1e-9, abs_=1e-300):
            return (f"{meth}/bin-value", f"{meth}({btxt}) bin {i} [{edges[i]},{edges[i+1]}): code {g!r}, "
                                         f"count/N_events/width = {float(wv)!r}", dict(bin=i, observed=got, expected=[float(x) for x in want]))
    # corollary with the histogram's own widths
    h = real[2]
    total = float(sum(float(g) * float(wd) for g, wd in zip(got, h.bin_width()))) * len(evs)
    inrange = sum(1 for e in q for v in e if edges[0] <= v < edges[-1])
    if not close(total, float(inrange), rel=1e-9, abs_=1e-9):
        return (f"{meth}/normalisation", f"sum(bin*width)*N_events = {total!r}, particles in range = {inrange}", {})
    hb = [float(x) for x in h.bin_boundaries()]
    if hb != edges:
        return (f"{meth}/bin-edges", f"{meth}({btxt}) returned a histogram with edges {hb}, the binning asked for has {edges}", {})
    if tmpdir is not None and wspec:  # the caller writes the histogram and reads it back
        r = check_write(h, tmpdir, None if wspec == "default" else wspec)
        if r:
            return (r[0], r[1], {})
    if mutate:
        apply_mutation(h, mutate)
    elif handed is not None:
        handed.append((h, list(got), hb, f"{meth}({btxt})"))
    return None


def oracle_mid(evs, meth, w, flavour, alias=None, shared=None, form=None, werr=False, env=False):
    pl, bo, log, setup = _session(evs, alias, shared)
    try:
        y = quantity_values(pl, flavour)
        x = quantity_values(pl, MID_METHODS[meth]) if MID_METHODS[meth] else None
        valid = not (any(v != v or abs(v) == float("inf") for e in y for v in e) or (x and any(v != v for e in x for v in e)))
    except Exception:  # noqa: BLE001   (e.g. spacetime_rapidity outside the light cone, an element without the method)
        y = x = None
        valid = False
    valid = valid and isinstance(w, (int, float)) and not isinstance(w, bool) and w > 0
    before = observe(bo, pl)
    real = call_mid(pl, meth, w, flavour, bo=bo, form=form, werr=werr, env=env)
    after = observe(bo, pl)
    if after[0] != before[0]:
        return (f"input-modified/{meth}", f"{meth} modified the particle lists passed in", {})
    r = env_check(meth, f"{meth}({w!r}, {flavour!r})")
    if r:
        return r
    if real[0] != "ok":
        log.append(meth)
        note_failed(evs, alias, dict(method=meth, y_width=w, quantity=flavour, form=form, werr=werr))
        r = failed_call_check(meth, before, after, f"{meth}({w!r}, {flavour!r})" + (" [warnings=error]" if werr else ""))
        if r:
            return r
    if not valid or (werr and real[0] != "ok") or refused(setup, real):
        return None
    first_empty = len(evs) > 0 and len(evs[0]) == 0
    any_empty = any(len(e) == 0 for e in evs)
    want = ref_yield(y, w) if x is None else ref_mean(y, x, w)
    if real[0] != "ok":
        cls = "empty-first-event" if first_empty else "empty-event" if any_empty else "events"
        return (f"{meth}/{cls}: {real[1]}", f"{meth}({w}, {flavour!r}){' [' + form + ']' if form else ''} raises {real[1]}; expected {float(want)!r}",
                dict(observed=real, expected=float(want)))
    if not close(real[1], float(want), rel=1e-9, abs_=1e-300):
        if x is None:
            key = f"{meth}/per-event-count"
        else:
            key = f"{meth}/empty-event: non-finite" if (any_empty and not math.isfinite(real[1])) else f"{meth}/per-event-mean"
        return (key, f"{meth}({w}, {flavour!r}){' [' + form + ']' if form else ''} = {real[1]!r}, expected {float(want)!r} "
                     f"({'mean count inside the window per event' if x is None else 'mean over events with a particle inside of (sum inside / number inside)'})",
                dict(observed=real[1], expected=float(want)))
    return None


def run_error_step(evs, step, alias=None, shared=None):
    """a call that must fail because of its arguments; caught the way a caller would; the object must be unchanged"""
    pl, bo, log, setup = _session(evs, alias, shared)
    kind, mk = ERR_STEPS[step["error"]]
    before = observe(bo, pl)
    try:
        invoke(bo, step["method"], list(mk()), {})
        return None
    except Exception as e:  # noqa: BLE001
        log.append(step["method"])
        note_failed(evs, alias, step)
        return failed_call_check(step["method"], before, observe(bo, pl),
                                 f"{step['method']}{mk()!r} [{step['error']}: {type(e).__name__}]")


def run_call(evs, call, tmpdir=None, alias=None, shared=None, handed=None):
    if call.get("error"):
        return run_error_step(evs, call, alias, shared)
    if call["method"] in DN_METHODS:
        return oracle_dn(evs, call["method"], call["bins"], tmpdir, alias, shared, call.get("mutate"), handed,
                         call.get("form"), bool(call.get("werr")), bool(call.get("env")), call.get("write", "default"))
    return oracle_mid(evs, call["method"], call["y_width"], call["quantity"], alias, shared,
                      call.get("form"), bool(call.get("werr")), bool(call.get("env")))


def check_handed(handed):
    """results handed out earlier (and not touched by the caller) must still be what they were"""
    for h, vals, edges, txt in handed:
        arr = np.asarray(h.histogram())
        now = [float(x) for x in arr[0]] if arr.ndim == 2 and arr.shape[0] == 1 else None
        if now != vals or [float(x) for x in h.bin_boundaries()] != edges:
            return ("earlier-result-changed", f"the histogram returned earlier by {txt} was changed by a later call, or by the "
                                              f"caller modifying the result of a later call (results share state): "
                                              f"was {vals}, is {now}", dict(was=vals, now=now))
    return None


class Sessions:
    """the long-lived objects of one history: object 0 holds the sample as given (poison elements included), object 1
    (created on first use) holds the same sample without the poison elements - it shares the class, not the data"""

    def __init__(self, evs, alias=None, setup="positional"):
        self.evs = [evs, strip_poison(evs)]
        self.alias = [alias, None if has_poison(evs) else alias]
        self.setup = norm_setup(setup)
        self.ctor_form = self.setup["ctor_form"]
        self.s = [None, None]
        self.log = []
        self.handed = []

    def get(self, k):
        if self.s[k] is None:
            self.s[k] = build_session(self.evs[k], self.alias[k], self.setup, self.log)
        return self.evs[k], self.alias[k], self.s[k]

    def step(self, call, tmpdir=None):
        k = int(call.get("obj", 0))
        evs, alias, shared = self.get(k)
        r = run_call(evs, call, tmpdir if call["method"] in DN_METHODS and not call.get("error") else None,
                     alias, shared, self.handed)
        return r or check_handed(self.handed)


def run_history(evs, history, alias=None, tmpdir=None, setup="positional"):
    """all steps of `history` in a row on ONE long-lived BulkObservables object (steps with "obj": 1 on a second one);
    -> (index, result, number of steps that raised before it) of the first failing step, or None.
    A step may carry "mutate" (the caller modifies the Histogram it got, after it was checked), "form" (call form),
    "werr" (warnings are errors during the call), "error" (a call with invalid arguments, see ERR_STEPS)."""
    ss = Sessions(evs, alias, setup)
    for i, call in enumerate(history):
        nraised = len(ss.log)
        r = ss.step(call, tmpdir)
        if r:
            return i, r, nraised
    return None


def decorate_step(rng, c):
    """round-4 devices on one valid call: now and then it runs in an unusual environment, and the histogram it returns
    is written to a file by the caller in one of the ways of gen_write_spec"""
    if c.get("error"):
        return c
    if rng.random() < 0.2:
        c["env"] = True
    if c["method"] in DN_METHODS:
        c["write"] = gen_write_spec(rng) if rng.random() < 0.3 else None
    return c


def build_history(rng, calls, pl):
    """a call sequence for ONE long-lived object: every call twice and one four times, shuffled, each in a random call
    form; after some differential-yield calls a twin (same numbers, other kind / element type / container), or the
    caller modifies the result it got and asks the same question again; one (tuple spec, edge list) pair with the same
    three numbers; ERROR-PATH steps: calls with invalid arguments, valid calls issued with warnings-as-errors (they
    fail at the first warning, i.e. midway), each followed somewhere by valid calls on this object and on a second
    object of the same class"""
    order = list(range(len(calls))) * 2 + [rng.randrange(len(calls))] * 2
    rng.shuffle(order)
    hist = []
    tail = []
    for k in order:
        c = dict(calls[k])
        c["form"] = rng.choice(CALL_FORMS)
        hist.append(c)
        if c["method"] not in DN_METHODS:
            continue
        r = rng.random()
        if r < 0.3:
            tw = twins(c["bins"])
            for t in rng.sample(tw, min(len(tw), rng.randint(1, 2))):
                hist.append(dict(method=c["method"], bins=t, form=rng.choice(CALL_FORMS)))
        elif r < 0.6:
            edges = edges_of(c["method"], c["bins"])
            if edges_contract(c["method"], c["bins"], edges):
                c["mutate"] = gen_mutation(rng, edges)
                again = dict(method=c["method"], bins=c["bins"], form=rng.choice(CALL_FORMS))
                (hist if rng.random() < 0.6 else tail).append(again)
    meth = rng.choice(list(DN_METHODS))
    pair = [dict(method=meth, bins=b, form=rng.choice(CALL_FORMS)) for b in gen_seq_pair(rng, meth)]
    pos = rng.randrange(len(hist) + 1)
    hist[pos:pos] = pair
    hist = hist + tail
    # error-path steps
    for _ in range(rng.randint(2, 4)):
        name = rng.choice(sorted(ERR_STEPS))
        meth = rng.choice(list(DN_METHODS) if ERR_STEPS[name][0] == "dn" else list(MID_METHODS))
        hist.insert(rng.randrange(len(hist)), dict(method=meth, error=name))
    for _ in range(rng.randint(2, 3)):
        base = rng.choice(calls)
        pos = rng.randrange(len(hist))
        hist.insert(pos, dict(base, werr=True, form=rng.choice(CALL_FORMS)))
        if rng.random() < 0.7:  # the same question right after the provoked failure
            hist.insert(pos + 1, dict(base, form=rng.choice(CALL_FORMS)))
    for _ in range(rng.randint(1, 3)):  # valid calls on ANOTHER object, somewhere in the second half
        c = dict(rng.choice(calls), obj=1, form=rng.choice(CALL_FORMS))
        hist.insert(rng.randrange(len(hist) // 2, len(hist) + 1), c)
    for c in hist:
        decorate_step(rng, c)
    return hist


def shrink(evs, call, key, alias=None, fails=None):
    """delta-debugging on events, then particles (an aliased sample is first tried without the aliasing)"""
    if fails is None:
        def fails(c, al=None):
            r = run_call(c, call, alias=al)
            return r is not None and r[0] == key

    if alias is not None:
        if not fails(evs, None):
            return evs, alias
        alias = None
    cur = json.loads(json.dumps(evs))
    changed = True
    while changed:
        changed = False
        for i in range(len(cur)):
            cand = cur[:i] + cur[i + 1:]
            if fails(cand):
                cur, changed = cand, True
                break
        if changed:
            continue
        for i in range(len(cur)):
            for j in range(len(cur[i])):
                cand = [list(e) for e in cur]
                cand[i] = cur[i][:j] + cur[i][j + 1:]
                if fails(cand):
                    cur, changed = cand, True
                    break
            if changed:
                break
    return cur, None


# ------------------------------------------------------------------ reproducibility in a new process
def run_prelude(prelude):
    """earlier failed calls of the process, each on a fresh object over its own data, caught like a caller would"""
    for e in prelude or []:
        try:
            Sessions(e["events"], e.get("alias")).step(e["step"])
        except Exception:  # noqa: BLE001
            pass


def run_input(inp, tmpdir=None):
    """the replay of one recorded input: (step index or None, result or None, earlier raised steps)"""
    run_prelude(inp.get("prelude"))
    if "history" in inp:
        rr = run_history(inp["events"], inp["history"], inp.get("alias"), tmpdir,
                         inp.get("setup") or inp.get("ctor_form", "positional"))
        return rr if rr else (None, None, 0)
    call = inp["call"]
    r = run_call(inp["events"], call, tmpdir if call["method"] in DN_METHODS and not call.get("error") else None,
                 alias=inp.get("alias"))
    return (0 if r else None), r, 0


def _spawn_replay(inp):
    """./check C14 --replay in a NEW process (same tree under test); -> (return code, stdout)"""
    import subprocess
    import sys
    fd, path = tempfile.mkstemp(prefix="c14_replay_", suffix=".json", dir="/tmp")
    try:
        with os.fdopen(fd, "w") as f:
            json.dump(dict(input=inp), f)
        p = subprocess.run([sys.executable, str(common.VERIF / "harness/main.py"), "C14", "--replay", path],
                           capture_output=True, text=True, timeout=600)
        return p.returncode, p.stdout
    finally:
        os.unlink(path)


def reproduces(inp):
    return _spawn_replay(inp)[0] == 1


def find_prelude(inp):
    """the input does not fail in a new process: look for the earlier failed call(s) of this process after which it
    does.  One new process replays the failed calls oldest first and tries the input after each of them."""
    cands = list(PROCESS_FAILED)
    if not cands:
        return None
    rc, out = _spawn_replay(dict(inp, prelude_candidates=cands))
    idx = [int(l.split()[1]) for l in out.splitlines() if l.startswith("PRELUDE-INDEX ")]
    if not idx:
        return None
    j = idx[0]
    for pre in ([cands[j]], cands[max(0, j - 3):j + 1], cands[:j + 1]):
        if reproduces(dict(inp, prelude=pre)):
            return pre
    return None


# ------------------------------------------------------------------ search on the real code
def corpus():
    p = common.VERIF / "harness/corpus/C14"
    return [json.loads(f.read_text()) for f in sorted(p.glob("*.json"))] if p.exists() else []


def search(ctx, budget_s):
    rng = ctx.rng
    t0 = time.time()
    seen = set()
    n = 0
    tmpdir = tempfile.mkdtemp(prefix="c14_", dir="/tmp")

    budget = dict(prelude_searches=2)

    def emit(key, what, inp, detail, how):
        """record a violation; first make sure its replay fails in a NEW process.  If it does not, state outside the
        objects survived an earlier failed call of this process: that call becomes the prelude of the replay."""
        extra = {}
        if not reproduces(inp):
            pre = None
            if budget["prelude_searches"] > 0:
                budget["prelude_searches"] -= 1
                pre = find_prelude(inp)
            if pre is not None:
                inp = dict(inp, prelude=pre)
                m = (inp.get("call") or inp["history"][-1])["method"]
                key = f"instance-reuse-after-error-{m}: state outside the object survives a failed call: {key}"
                what = (f"after {len(pre)} failed call(s) on OTHER objects (caught by the caller; module- or class-level state) "
                        f"a valid call on a fresh object goes wrong: {what}")
            else:
                extra = dict(reproducible_in_new_process=False,
                             note="this input failed inside the check's process but not in a new one: the failure depends on "
                                  "state left behind by earlier calls of the process (see the first violation of this run)")
                key = key + " [only after earlier calls of the process]"
        seen.add(key)
        ctx.violation(key, what, dict(input=inp, detail=detail, how_to_replay=how, **extra))

    def report(evs, alias, call, r, do_shrink=True):
        if r[0] in seen:
            return
        seen.add(r[0])
        if do_shrink and not r[0].startswith(("write-", "environment-changed")):
            small, al = shrink(evs, call, r[0], alias)
            r2 = run_call(small, call, alias=al)
            if r2 and r2[0] == r[0]:
                evs, alias, r = small, al, r2
        emit(r[0], r[1], dict(events=evs, alias=alias, call=call), r[2], "./check C14 --replay <this file>")

    def report_reuse(evs, alias, history, r, setup="positional"):
        """a failure inside a history on long-lived objects: minimise the history (drop steps that are not needed), shrink
        the events, name it: a failed call that changed the object keeps its own key; a wrong answer after at least one
        failed call is `instance-reuse-after-error-...`, otherwise `instance-reuse-...`; a history that shrinks to the
        single failing call is an ordinary violation of that call"""
        base = f"{history[-1]['method']}: {r[0]}"
        if base in seen:
            return
        seen.add(base)
        hist = list(history)
        i = 0
        while i < len(hist) - 1:
            cand = hist[:i] + hist[i + 1:]
            rr = run_history(evs, cand, alias, tmpdir, setup)
            if rr and rr[0] == len(cand) - 1 and rr[1][0] == r[0]:
                hist = cand
            else:
                i += 1

        def still(c, al=None):
            rr = run_history(c, hist, al, tmpdir, setup)
            return bool(rr) and rr[0] == len(hist) - 1 and rr[1][0] == r[0]

        evs, alias = shrink(evs, None, None, alias, fails=still)
        rr = run_history(evs, hist, alias, tmpdir, setup)
        nraised = 0
        if rr:
            r, nraised = rr[1], rr[2]
        last = hist[-1]
        if len(hist) == 1 and not last.get("error") and int(last.get("obj", 0)) == 0 and not has_poison(evs) and \
                (is_plain(setup) or run_call(evs, last, tmpdir, alias=alias) is not None):
            if r[0] not in seen:
                seen.add(r[0])
                emit(r[0], r[1], dict(events=evs, alias=alias, call=last), r[2], "./check C14 --replay <this file>")
            return
        if r[0].startswith("error-path:"):
            key, what = r[0], r[1]
        elif nraised:
            key = f"instance-reuse-after-error-{last['method']}: {r[0]}"
            what = (f"after {nraised} failed call(s) (caught by the caller) in a history of {len(hist)} steps a valid call gives a wrong "
                    f"answer: {r[1]}")
        elif len(hist) == 1 and not is_plain(setup):
            key = f"object-setup-{last['method']}: {r[0]}"
            what = (f"with the objects set up as {norm_setup(setup)} (input container / copy or pickle round trip of the input / "
                    f"of the BulkObservables object before use) the call goes wrong, while plain objects give the right answer: {r[1]}")
        else:
            key = f"instance-reuse-{last['method']}: {r[0]}"
            what = (f"a BulkObservables object that already served {len(hist) - 1} call(s) gives a wrong answer where "
                    f"a fresh object is right: {r[1]}")
        if key in seen:
            return
        seen.add(key)
        emit(key, what, dict(events=evs, alias=alias, history=hist, setup=norm_setup(setup)), r[2],
             "./check C14 --replay <this file>  (runs the whole history in a new process: steps with 'error' / 'werr' are "
             "expected to raise and are caught, 'obj': 1 is a second object, 'prelude' = earlier failed calls on other objects)")

    try:
        for case in corpus():
            if "history" in case:
                st = case.get("setup") or case.get("ctor_form", "positional")
                rr = run_history(case["events"], case["history"], case.get("alias"), tmpdir, st)
                if rr:
                    report_reuse(case["events"], case.get("alias"), case["history"][:rr[0] + 1], rr[1], st)
            else:
                r = run_call(case["events"], case["call"], tmpdir if case["call"]["method"] in DN_METHODS else None,
                             alias=case.get("alias"))
                if r:
                    report(case["events"], case.get("alias"), case["call"], r, do_shrink=False)
            n += 1
        # every binning flavour x method on the fixed sample
        for evs, meth, fv, v in type_flavour_block():
            pl = make_particles(evs)
            b = dict(kind="list", v=list(v), flavour=fv) if v is not None else gen_bins(rng, meth, quantity_values(pl, DN_METHODS[meth]), fv)
            r = oracle_dn(evs, meth, b, tmpdir)
            ctx.case(("oracle-flavour", meth, json.dumps(b)), True)
            ctx.count(f"oracle/{meth}/bins={fv}")
            if r:
                report(evs, None, dict(method=meth, bins=b), r)
        pats = empty_patterns()
        limit = 20000 if ctx.thorough else 1500
        while time.time() - t0 < budget_s and n < limit:
            if n < 2 * len(pats) and n % 2 == 0:
                evs, alias, tag = pats[n // 2 % len(pats)], None, "pattern"
            else:
                evs, alias, tag = gen_events(rng, allow_unset=False)
            pl = make_particles(evs, alias)
            calls = []
            for meth, qname in DN_METHODS.items():
                calls.append(dict(method=meth, bins=gen_bins(rng, meth, quantity_values(pl, qname))))
            flavour = rng.choice(FLAVOURS)
            w = gen_width(rng, quantity_values(pl, flavour))
            if rng.random() < 0.12:
                w, flavour = 1.0, "rapidity"  # the documented defaults, so that "defaults-omitted" omits both
            for meth in MID_METHODS:
                calls.append(dict(method=meth, y_width=w, quantity=flavour))
            # fresh object per call, each call in a random call form (constructor included)
            for call in calls:
                c = dict(call, form=rng.choice(CALL_FORMS))
                decorate_step(rng, c)
                ss = Sessions(evs, alias, gen_setup(rng, plain=rng.random() < 0.5))
                ctx.count(f"oracle/setup/container={ss.setup['container']}")
                ctx.count(f"oracle/setup/input={ss.setup['input_copy'] or 'as-is'}/object={ss.setup['bo_copy'] or 'as-is'}")
                if c.get("env"):
                    ctx.count("oracle/unusual-environment")
                if c.get("write"):
                    ctx.count(f"oracle/write/{c['write']['where']}/{'bare-name' if os.path.dirname(c['write']['name']) == '' else 'with-directory'}")
                r = ss.step(c, tmpdir)
                ctx.case(("oracle", json.dumps(c), json.dumps(evs), json.dumps(alias)), len(evs) >= 2)
                ctx.count(f"oracle/call-form/{c['form']}")
                if call["method"] in DN_METHODS:
                    ctx.count(f"oracle/{call['method']}/bins={call['bins']['flavour']}")
                if r:
                    if is_plain(ss.setup) or run_call(evs, c, tmpdir, alias=alias):
                        report(evs, alias, c, r)
                    else:
                        report_reuse(evs, alias, [c], r, ss.setup)
            ctx.count(f"oracle-sample/{tag}")
            # every second sample: a perturbed call sequence (build_history) on long-lived objects; half of these samples
            # carry poison elements (first / middle / last position) that make SOME calls raise midway
            if n % 2 == 1:
                full = build_history(rng, calls, pl)
                hevs = evs
                if alias is None and evs and rng.random() < 0.5:
                    hevs = inject_poison(rng, evs)
                    ctx.count("oracle-reuse/sample-with-poison-elements")
                setup = gen_setup(rng, plain=rng.random() < 0.4)
                ss = Sessions(hevs, alias, setup)
                history = []
                for call in full:
                    history.append(call)
                    nr = len(ss.log)
                    r = ss.step(call, tmpdir)
                    ctx.case(("oracle-reuse", json.dumps(history), json.dumps(hevs)), len(evs) >= 2)
                    if call.get("mutate"):
                        ctx.count(f"oracle-reuse/result-mutated/{call['mutate'].split(':')[0]}")
                    if len(ss.log) > nr:
                        ctx.count("oracle-reuse/failed-call/" + ("invalid-argument" if call.get("error") else
                                                                   "warnings-as-errors" if call.get("werr") else "bad-element"))
                    elif nr and not call.get("error"):
                        ctx.count("oracle-reuse/valid-call-after-failed-call" + ("/other-object" if call.get("obj") else ""))
                    if r:
                        report_reuse(hevs, alias, history, r, setup)
                        break
                ctx.count("oracle-sample/reused-object-history")
                ctx.count("oracle-reuse/calls", len(history))
            n += 1
    finally:
        shutil.rmtree(tmpdir, ignore_errors=True)
    ctx.cov["oracle_samples"] = n
    ctx.count("oracle-samples", n)


def replay(ctx, path):
    d = json.loads(open(path).read())
    inp = d.get("input")
    if not inp:
        print(f"[C14] replay file names a broken obligation, not an input: {d.get('broken')}")
        return 1
    tmpdir = tempfile.mkdtemp(prefix="c14_", dir="/tmp")
    try:
        if "prelude_candidates" in inp:
            # scan mode (used by the check itself): replay earlier failed calls oldest first, try the input after each
            base = {k: v for k, v in inp.items() if k != "prelude_candidates"}
            for j, e in enumerate(inp["prelude_candidates"]):
                run_prelude([e])
                if run_input(base)[1]:
                    print(f"PRELUDE-INDEX {j}")
                    return 1
            return 0
        i, r, nraised = run_input(inp, tmpdir)
        if r and "history" in inp:
            print(f"[C14] step {i + 1} of {len(inp['history'])} on the long-lived object(s) fails "
                  f"({nraised} earlier step(s) raised and were caught)")
    finally:
        shutil.rmtree(tmpdir, ignore_errors=True)
    if r:
        print(f"VIOLATION property=C14 replay={path}")
        print(r[1])
        return 1
    print("[C14] replay: property holds on this input now")
    return 0
