"""C14 — bulk observables are normalised per event and per unit of the variable.

Tie C only (no translator): the executable Lean model `Core/Bulk.lean` (histogram fill / one row per
event / unit-weight average / scale by 1/width; mid-rapidity counters) is run by the driver on the very
inputs given to the real `BulkObservables`; the quantity values (`rapidity()`, `pT_abs()`, ...) and the
bin edges of a tuple binning (`np.linspace`) are taken from the real library and handed to the model
(DESIGN 2.3), their contracts (edges strictly increasing, first/last edge = tuple limits) are checked
on every case.

The oracle (`search`) checks the PROPERTY on the real code against an independent reference written
here with exact rationals: direct counting per bin, the normalisation corollary, the per-event means,
writing the returned histogram to a file and parsing it back, and a before/after snapshot of the
particle lists (identity of every list and particle, bytes of every particle's data array).
"""
import csv
import json
import math
import os
import tempfile
import time
import warnings
from fractions import Fraction

import numpy as np

import common
from common import f2h, h2f, close, fl, parse_fl

warnings.filterwarnings("ignore")

DN_METHODS = {"dNdy": "rapidity", "dNdpT": "pT_abs", "dNdEta": "pseudorapidity", "dNdmT": "mT"}
DEFAULT_BINS = {"dNdy": (-2, 2, 11), "dNdpT": (0, 4, 11), "dNdEta": (-2, 2, 11), "dNdmT": (0, 4, 11)}
MID_METHODS = {"mid_rapidity_yield": None, "mid_rapidity_mean_pT": "pT_abs", "mid_rapidity_mean_mT": "mT"}
FLAVOURS = ["rapidity", "pseudorapidity", "spacetime_rapidity"]
ATTRS = ["px", "py", "pz", "E", "t", "z"]
WRITE_KEY = "write-after-average (Histogram.average leaves 1-D systematic_error_)"
ALL_COLS = ["bin_center", "bin_low", "bin_high", "distribution", "stat_err+", "stat_err-", "sys_err+", "sys_err-"]


# ------------------------------------------------------------------ real code access
def make_particles(events):
    """events: list of lists of [px,py,pz,E,t,z] (None = unset) -> nested list of sparkx Particles"""
    from sparkx.Particle import Particle
    out = []
    for ev in events:
        l = []
        for spec in ev:
            p = Particle()
            for a, v in zip(ATTRS, spec):
                if v is not None:
                    setattr(p, a, v)
            l.append(p)
        out.append(l)
    return out


def snapshot(pl):
    return (id(pl), [id(e) for e in pl], [[id(p) for p in e] for e in pl],
            [[p.data_.tobytes() for p in e] for e in pl])


def quantity_values(pl, name):
    """the values the code will obtain from the particles (same public method), as Python floats"""
    return [[float(getattr(p, name)()) for p in e] for e in pl]


def bins_arg(b):
    if b["kind"] == "default":
        return None
    if b["kind"] == "tuple":
        return (b["v"][0], b["v"][1], int(b["v"][2]))
    return list(b["v"])


def edges_of(meth, b):
    """bin edges a Histogram built from this binning has: np.linspace for tuples (external, contract checked)"""
    if b["kind"] == "default":
        lo, hi, n = DEFAULT_BINS[meth]
        return [float(x) for x in np.linspace(lo, hi, num=n + 1)]
    if b["kind"] == "tuple":
        lo, hi, n = b["v"]
        return [float(x) for x in np.linspace(lo, hi, num=int(n) + 1)]
    return [float(x) for x in b["v"]]


def edges_contract(meth, b, edges):
    ok = all(x < y for x, y in zip(edges, edges[1:])) and len(edges) >= 2
    if b["kind"] != "list":
        lo, hi, n = DEFAULT_BINS[meth] if b["kind"] == "default" else b["v"]
        ok = ok and len(edges) == int(n) + 1 and edges[0] == float(lo) and edges[-1] == float(hi)
    return ok


def call_dn(pl, meth, b):
    """-> ('ok', bins, hist_object) | ('err', 'value') | ('exc', name)"""
    from sparkx.BulkObservables import BulkObservables
    bo = BulkObservables(pl)
    try:
        with np.errstate(all="ignore"):
            h = getattr(bo, meth)(bins_arg(b)) if b["kind"] != "default" else getattr(bo, meth)()
    except ValueError:
        return ("err", "value", None)
    except Exception as e:  # noqa: BLE001
        return ("exc", type(e).__name__, None)
    arr = np.asarray(h.histogram())
    if arr.ndim != 2 or arr.shape[0] != 1:
        return ("exc", f"shape{arr.shape}", h)
    return ("ok", [float(x) for x in arr[0]], h)


def call_mid(pl, meth, w, flavour, use_default=False):
    from sparkx.BulkObservables import BulkObservables
    bo = BulkObservables(pl)
    try:
        with np.errstate(all="ignore"):
            v = getattr(bo, meth)() if use_default else getattr(bo, meth)(w, flavour)
    except ValueError:
        return ("err", "value")
    except Exception as e:  # noqa: BLE001
        return ("exc", type(e).__name__)
    return ("ok", float(v))


# ------------------------------------------------------------------ generators
def gen_particle(rng, style):
    if style == "dyadic":
        px = rng.randint(-24, 24) / 8.0
        py = 0.0 if rng.random() < 0.7 else rng.randint(-8, 8) / 8.0
        pz = rng.choice([0.0, 0.0, rng.randint(-16, 16) / 8.0])
        m = rng.choice([0.0, 0.5, 1.0])
    else:
        px, py, pz = rng.uniform(-2.5, 2.5), rng.uniform(-2.5, 2.5), rng.gauss(0, 1.2)
        m = rng.choice([0.0, 0.138, 0.938])
    E = math.sqrt(m * m + px * px + py * py + pz * pz)
    if style == "dyadic" and pz == 0.0 and rng.random() < 0.5:
        E = max(abs(px), 0.125) + rng.choice([0.0, 0.5, 1.0])  # mT = E exactly
    if E == abs(pz):  # rapidity would need the code's regulator; keep the point but make it massive
        E += 0.25
    t = rng.uniform(1.0, 10.0)
    z = t * rng.uniform(-0.95, 0.95)
    return [px, py, pz, E, t, z]


def gen_events(rng, allow_unset=True):
    r = rng.random()
    nev = 0 if r < 0.03 else 1 if r < 0.15 else rng.randint(2, 5)
    style = "dyadic" if rng.random() < 0.5 else "generic"
    evs = []
    for _ in range(nev):
        m = 0 if rng.random() < 0.25 else rng.randint(1, 10)
        evs.append([gen_particle(rng, style) for _ in range(m)])
    if allow_unset and nev and rng.random() < 0.06:
        cand = [(i, j) for i, e in enumerate(evs) for j in range(len(e))]
        if cand:
            i, j = rng.choice(cand)
            evs[i][j][rng.choice([0, 2, 3])] = None
    return evs


def gen_bins(rng, meth, qvals):
    positive = meth in ("dNdpT", "dNdmT")
    r = rng.random()
    flat = [q for e in qvals for q in e if q == q and abs(q) != float("inf")]
    if r < 0.08:
        return dict(kind="default", v=None)
    if r < 0.45:
        n = rng.randint(1, 8)
        if positive:
            lo = rng.choice([0, 0.0, 0.25, 0.5, 1])
            hi = lo + rng.choice([1, 2, 2.5, 4, 0.75, 3])
        else:
            lo = rng.choice([-2, -1.0, -0.5, -3, 0, 0.25])
            hi = lo + rng.choice([1, 2, 4, 0.75, 3, 6])
        return dict(kind="tuple", v=[lo, hi, n])
    k = rng.randint(1, 7)
    pool = set()
    while len(pool) < k + 1:
        if flat and rng.random() < 0.45:
            pool.add(float(rng.choice(flat)))  # an edge bit-equal to a particle's value
        else:
            x = rng.randint(0 if positive else -24, 40) / 8.0
            pool.add(int(x) if x == int(x) and rng.random() < 0.5 else x)
    vals = sorted(pool, key=float)
    # drop float/int duplicates of the same number
    out = []
    for x in vals:
        if not out or float(x) > float(out[-1]):
            out.append(x)
    if len(out) < 2:
        out.append(float(out[-1]) + 1.0)
    return dict(kind="list", v=out)


def gen_width(rng, yvals):
    r = rng.random()
    flat = [abs(y) for e in yvals for y in e if y == y and y != 0 and abs(y) != float("inf")]
    if r < 0.06:
        return rng.choice([0, -1, -0.5, 0.0])
    if r < 0.3 and flat:
        return 2.0 * rng.choice(flat)  # a particle exactly on the window's edge
    return rng.choice([1.0, 1, 0.5, 2, 0.25, 3.0, 0.125, rng.uniform(0.05, 4.0)])


def empty_patterns():
    """deterministic block: every placement of empty events for 1..4 events"""
    out = []
    base = [[[1.0, 0.0, 0.0, 1.5, 2.0, 0.0]], [[2.0, 0.0, 0.5, 2.5, 2.0, 0.5], [6.0, 0.0, 0.0, 6.5, 2.0, 0.0]],
            [[3.0, 0.0, 0.0, 3.5, 3.0, 1.0]], [[0.5, 0.0, 4.0, 5.0, 5.0, 4.0], [5.0, 0.0, 0.25, 5.5, 3.0, 0.0]]]
    for n in range(1, 5):
        for mask in range(2 ** n):
            out.append([[] if (mask >> i) & 1 else [list(p) for p in base[i]] for i in range(n)])
    return out


# ------------------------------------------------------------------ driver encoding
def enc_q(x):
    return "-" if x != x else f2h(x)


def enc_dn_events(qvals):
    if not qvals:
        return "none"
    return "|".join("." if not e else ";".join(enc_q(q) for q in e) for e in qvals)


def enc_mid_events(yvals, xvals):
    if not yvals:
        return "none"
    return "|".join("." if not ye else ";".join(enc_q(y) + "," + f2h(x) for y, x in zip(ye, xe))
                    for ye, xe in zip(yvals, xvals))


def close_list(a, b, rel):
    return len(a) == len(b) and all(close(x, y, rel=rel, abs_=1e-300) for x, y in zip(a, b))


# ------------------------------------------------------------------ correspondence (tie C)
def correspond(ctx):
    rng = ctx.rng
    nbrk = [0]

    def brk(what, **kw):
        nbrk[0] += 1
        if nbrk[0] <= 8:  # the first few differing cases are enough to name the disagreement
            ctx.brk("correspondence-broken", what, **kw)
        ctx.cov["correspondence_mismatches"] = nbrk[0]

    ctx.rule = ("random samples: 0-5 events incl. empty ones at any position (plus every placement of empty events "
                "for 1-4 events), 0-10 particles, dyadic and generic kinematics, rarely an unset attribute; binnings "
                "default / tuple / explicit non-uniform lists with edges bit-equal to particle values and int/float "
                "mixes; window widths incl. a particle exactly on the edge and invalid widths; three rapidity flavours. "
                "non-trivial (dN/dx) = >=2 events, some bin filled, and an empty event or a value outside the range or "
                "exactly on an edge; (mid) = >=2 events, a particle inside and one outside the window or an empty event")
    ctx.cov["tie"] = "C (correspondence through lean/drivers/C14.lean); no translator"
    ctx.assumptions += [
        "C14: numpy contracts used as parameters: np.linspace (strictly increasing, end points exact - checked per case), "
        "np.digitize(v, edges) = number of edges <= v for increasing edges, np.average(axis=0, weights=ones) = sum/count",
        "C14: the quantity of a particle is whatever Particle.rapidity/pT_abs/pseudorapidity/mT/spacetime_rapidity return (C08's subject)",
        "C14: 'input lists unmodified' and 'returned histogram can be written' are checked on the real code by sampling only "
        "(snapshot of identities and data bytes; write_to_file + parse), they are not Lean theorems",
    ]
    samples = [(evs, "pattern") for evs in empty_patterns()]
    for _ in range(ctx.n(170, 5000)):
        samples.append((gen_events(rng), "random"))
    lines, meta = [], []
    for evs, origin in samples:
        pl = make_particles(evs)
        snap = snapshot(pl)
        # --- differential yields
        for meth, qname in DN_METHODS.items():
            q = quantity_values(pl, qname)
            b = gen_bins(rng, meth, q)
            edges = edges_of(meth, b)
            if not edges_contract(meth, b, edges):
                brk(f"np.linspace contract violated for {b}", case=dict(bins=b))
                continue
            real = call_dn(pl, meth, b)
            if real[0] == "ok":
                hb = [float(x) for x in real[2].bin_boundaries()]
                if hb != edges:
                    brk(f"{meth}: histogram edges {hb} differ from the binning's edges {edges}",
                            case=dict(events=evs, method=meth, bins=b))
            lines.append(f"dndx\t{fl(edges)}\t{enc_dn_events(q)}")
            meta.append(("dn", meth, b, evs, q, edges, real[:2]))
        # --- mid-rapidity functions
        flavour = rng.choice(FLAVOURS)
        y = quantity_values(pl, flavour)
        w = gen_width(rng, y)
        use_default = flavour == "rapidity" and rng.random() < 0.1
        if use_default:
            w = 1.0
        for meth, xname in MID_METHODS.items():
            x = quantity_values(pl, xname) if xname else [[0.0 for _ in e] for e in y]
            real = call_mid(pl, meth, w, flavour, use_default)
            op = "yield" if xname is None else "mean"
            lines.append(f"{op}\t{f2h(float(w))}\t{enc_mid_events(y, x)}")
            meta.append(("mid", meth, dict(y_width=w, quantity=flavour, default_args=use_default), evs, (y, x), None, real))
        if snapshot(pl) != snap:
            brk("the particle lists were modified by a BulkObservables call (the model is a pure function)",
                    case=dict(events=evs))
    outs = common.run_driver("C14", lines)
    for (kind, meth, arg, evs, vals, edges, real), out in zip(meta, outs):
        nev = len(evs)
        has_empty = any(len(e) == 0 for e in evs)
        if kind == "dn":
            q = vals
            if out.startswith("ok "):
                parts = out.split(" ")
                mb = parse_fl(parts[1])
                ok = real[0] == "ok" and close_list(real[1], mb, 1e-12)
                if ok and parts[2] != "-" and nev > 0:
                    # the executable specification (count / N / width) against the code and the model
                    ok = close_list(parse_fl(parts[2]), real[1], 1e-12)
            elif out == "err value":
                ok = real == ("err", "value")
            else:
                ok = False
            flat = [v for e in q for v in e if v == v]
            filled = real[0] == "ok" and any(v != 0 for v in real[1])
            outside = any(v < edges[0] or v >= edges[-1] for v in flat)
            on_edge = any(v in edges for v in flat)
            nontriv = nev >= 2 and filled and (has_empty or outside or on_edge)
            ctx.case(("dn", meth, json.dumps(arg), json.dumps(evs)), nontriv,
                     sample=dict(op=meth, bins=arg, events=evs, code=real[:2], model=out) if nontriv else None)
            ctx.count(f"{meth}/bins={arg['kind']}/events={min(nev, 2)}{'+' if nev > 2 else ''}/"
                      f"{'empty-event' if has_empty else 'no-empty'}/{real[0]}")
            if on_edge:
                ctx.count("dN/value-bit-equal-to-edge")
            if not ok:
                brk(f"{meth}: code {real[:2]} vs model {out}",
                        case=dict(events=evs, method=meth, bins=arg))
        else:
            y, x = vals
            if out.startswith("ok "):
                parts = out.split(" ")
                mv, sv = h2f(parts[1]), h2f(parts[2])
                ok = real[0] == "ok" and close(real[1], mv, rel=1e-12)
                if ok and sv == sv:  # spec is 0/0 = NaN at IEEE when nothing is averaged; the theorem covers that case
                    ok = close(sv, real[1], rel=1e-12)
            elif out == "err value":
                ok = real == ("err", "value")
            else:
                ok = False
            w = float(arg["y_width"])
            flat = [v for e in y for v in e]
            inside = any(v == v and abs(v) <= w / 2 for v in flat)
            outside_w = any(not (v == v and abs(v) <= w / 2) for v in flat)
            nontriv = nev >= 2 and inside and (outside_w or has_empty)
            ctx.case(("mid", meth, json.dumps(arg), json.dumps(evs)), nontriv,
                     sample=dict(op=meth, args=arg, events=evs, code=real, model=out) if nontriv and meth != "mid_rapidity_yield" else None)
            ctx.count(f"{meth}/{arg['quantity']}/events={min(nev, 2)}{'+' if nev > 2 else ''}/"
                      f"{'empty-first' if nev and not evs[0] else 'empty-event' if has_empty else 'no-empty'}/{real[0]}")
            if not ok:
                brk(f"{meth}({arg}): code {real} vs model {out}",
                        case=dict(events=evs, method=meth, args=arg))


# ------------------------------------------------------------------ independent reference (exact rationals)
def ref_dn(q, edges):
    """per bin: (# values v with e_i <= v < e_{i+1} over all events) / N / (e_{i+1} - e_i); zeros for no event"""
    n = len(q)
    out = []
    for lo, hi in zip(edges, edges[1:]):
        c = sum(1 for e in q for v in e if lo <= v < hi)
        out.append(Fraction(0) if n == 0 else Fraction(c, n) / (Fraction(hi) - Fraction(lo)))
    return out


def ref_yield(y, w):
    n = len(y)
    if n == 0:
        return Fraction(0)
    half = Fraction(w) / 2
    return Fraction(sum(1 for e in y for v in e if v == v and abs(Fraction(v)) <= half), n)


def ref_mean(y, x, w):
    half = Fraction(w) / 2
    means = []
    for ye, xe in zip(y, x):
        ins = [Fraction(b) for a, b in zip(ye, xe) if a == a and abs(Fraction(a)) <= half]
        if ins:
            means.append(sum(ins) / len(ins))
    return sum(means) / len(means) if means else Fraction(0)


def check_write(h, tmpdir):
    """write the returned histogram and read it back; None or (key, what)"""
    path = os.path.join(tmpdir, "h.csv")
    labels = [{c: "L_" + c for c in ALL_COLS}]
    try:
        h.write_to_file(path, labels, comment="# C14")
    except Exception as e:  # noqa: BLE001
        if isinstance(e, IndexError) and np.ndim(h.systematic_error_) == 1:
            return (WRITE_KEY, f"write_to_file on the histogram returned by BulkObservables raises {type(e).__name__}: {e} "
                               f"(systematic_error_ has shape {np.shape(h.systematic_error_)} after average())")
        return (f"write-returned-histogram/raises-{type(e).__name__}", f"write_to_file raises {type(e).__name__}: {e}")
    rows = [r for r in csv.reader(open(path)) if r]
    nb = len(h.bin_centers())
    if len(rows) != nb + 2 or rows[0] != ["# C14"] or rows[1] != ["L_" + c for c in ALL_COLS]:
        return ("write-returned-histogram/layout", f"unexpected file layout: {rows[:3]}")
    want = [h.bin_centers(), h.bin_bounds_left(), h.bin_bounds_right(), h.histogram()[0]]
    for i, r in enumerate(rows[2:]):
        for c in range(4):
            if float(r[c]) != float(want[c][i]):
                return ("write-returned-histogram/cell", f"row {i} column {ALL_COLS[c]}: file {r[c]} != {float(want[c][i])!r}")
    return None


def oracle_dn(evs, meth, b, tmpdir=None):
    """None or (key, what, detail): the property on the real code for one differential-yield call"""
    pl = make_particles(evs)
    q = quantity_values(pl, DN_METHODS[meth])
    if any(v != v or abs(v) == float("inf") for e in q for v in e):
        return None  # the statement speaks about particles that have the quantity
    edges = edges_of(meth, b)
    if not edges_contract(meth, b, edges):
        return None
    snap = snapshot(pl)
    real = call_dn(pl, meth, b)
    if snapshot(pl) != snap:
        return (f"input-modified/{meth}", f"{meth} modified the particle lists passed in", {})
    if real[0] != "ok":
        return (f"{meth}/raises-{real[1]}", f"{meth}({bins_arg(b)}) raises {real[1]} on {len(evs)} events", dict(observed=real[:2]))
    want = ref_dn(q, edges)
    got = real[1]
    if len(got) != len(want):
        return (f"{meth}/number-of-bins", f"{len(got)} bins returned, {len(want)} expected", {})
    for i, (g, wv) in enumerate(zip(got, want)):
        if not close(g, float(wv), rel=1e-9, abs_=1e-300):
            return (f"{meth}/bin-value", f"{meth} bin {i} [{edges[i]},{edges[i+1]}): code {g!r}, "
                                         f"count/N_events/width = {float(wv)!r}", dict(bin=i, observed=got, expected=[float(x) for x in want]))
    # corollary with the histogram's own widths
    h = real[2]
    total = float(sum(float(g) * float(wd) for g, wd in zip(got, h.bin_width()))) * len(evs)
    inrange = sum(1 for e in q for v in e if edges[0] <= v < edges[-1])
    if not close(total, float(inrange), rel=1e-9, abs_=1e-9):
        return (f"{meth}/normalisation", f"sum(bin*width)*N_events = {total!r}, particles in range = {inrange}", {})
    if tmpdir is not None:
        r = check_write(h, tmpdir)
        if r:
            return (r[0], r[1], {})
    return None


def oracle_mid(evs, meth, w, flavour):
    pl = make_particles(evs)
    try:
        y = quantity_values(pl, flavour)
        x = quantity_values(pl, MID_METHODS[meth]) if MID_METHODS[meth] else None
    except Exception:  # noqa: BLE001   (e.g. spacetime_rapidity outside the light cone)
        return None
    if any(v != v or abs(v) == float("inf") for e in y for v in e) or (x and any(v != v for e in x for v in e)):
        return None
    if not (isinstance(w, (int, float)) and w > 0):
        return None
    snap = snapshot(pl)
    real = call_mid(pl, meth, w, flavour)
    if snapshot(pl) != snap:
        return (f"input-modified/{meth}", f"{meth} modified the particle lists passed in", {})
    first_empty = len(evs) > 0 and len(evs[0]) == 0
    any_empty = any(len(e) == 0 for e in evs)
    want = ref_yield(y, w) if x is None else ref_mean(y, x, w)
    if real[0] != "ok":
        cls = "empty-first-event" if first_empty else "empty-event" if any_empty else "events"
        return (f"{meth}/{cls}: {real[1]}", f"{meth}({w}, {flavour!r}) raises {real[1]}; expected {float(want)!r}",
                dict(observed=real, expected=float(want)))
    if not close(real[1], float(want), rel=1e-9, abs_=1e-300):
        if x is None:
            key = f"{meth}/per-event-count"
        else:
            key = f"{meth}/empty-event: non-finite" if (any_empty and not math.isfinite(real[1])) else f"{meth}/per-event-mean"
        return (key, f"{meth}({w}, {flavour!r}) = {real[1]!r}, expected {float(want)!r} "
                     f"({'mean count inside the window per event' if x is None else 'mean over events with a particle inside of (sum inside / number inside)'})",
                dict(observed=real[1], expected=float(want)))
    return None


def run_call(evs, call, tmpdir=None):
    if call["method"] in DN_METHODS:
        return oracle_dn(evs, call["method"], call["bins"], tmpdir)
    return oracle_mid(evs, call["method"], call["y_width"], call["quantity"])


def shrink(evs, call, key):
    cur = [[list(p) for p in e] for e in evs]

    def fails(c):
        r = run_call(c, call)
        return r is not None and r[0] == key

    changed = True
    while changed:
        changed = False
        for i in range(len(cur)):
            cand = cur[:i] + cur[i + 1:]
            if fails(cand):
                cur, changed = cand, True
                break
        if changed:
            continue
        for i in range(len(cur)):
            for j in range(len(cur[i])):
                cand = [list(e) for e in cur]
                cand[i] = cur[i][:j] + cur[i][j + 1:]
                if fails(cand):
                    cur, changed = cand, True
                    break
            if changed:
                break
    return cur


# ------------------------------------------------------------------ search on the real code
def corpus():
    p = common.VERIF / "harness/corpus/C14"
    return [json.loads(f.read_text()) for f in sorted(p.glob("*.json"))] if p.exists() else []


def search(ctx, budget_s):
    rng = ctx.rng
    t0 = time.time()
    seen = set()
    n = 0
    tmpdir = tempfile.mkdtemp(prefix="c14_", dir="/tmp")

    def report(evs, call, r, do_shrink=True):
        if r[0] in seen:
            return
        seen.add(r[0])
        if do_shrink and r[0] != WRITE_KEY:
            small = shrink(evs, call, r[0])
            r2 = run_call(small, call)
            if r2 and r2[0] == r[0]:
                evs, r = small, r2
        ctx.violation(r[0], r[1], dict(input=dict(events=evs, call=call), detail=r[2],
                                       how_to_replay="./check C14 --replay <this file>"))

    try:
        for case in corpus():
            r = run_call(case["events"], case["call"], tmpdir if case["call"]["method"] in DN_METHODS else None)
            n += 1
            if r:
                report(case["events"], case["call"], r, do_shrink=False)
        pats = empty_patterns()
        limit = 20000 if ctx.thorough else 1500
        while time.time() - t0 < budget_s and n < limit:
            evs = pats[n % len(pats)] if n < 2 * len(pats) and n % 2 == 0 else gen_events(rng, allow_unset=False)
            pl = make_particles(evs)
            for meth, qname in DN_METHODS.items():
                b = gen_bins(rng, meth, quantity_values(pl, qname))
                call = dict(method=meth, bins=b)
                r = oracle_dn(evs, meth, b, tmpdir)
                ctx.case(("oracle", meth, json.dumps(b), json.dumps(evs)), len(evs) >= 2)
                if r:
                    report(evs, call, r)
            flavour = rng.choice(FLAVOURS)
            w = gen_width(rng, quantity_values(pl, flavour))
            for meth in MID_METHODS:
                call = dict(method=meth, y_width=w, quantity=flavour)
                r = oracle_mid(evs, meth, w, flavour)
                ctx.case(("oracle", meth, w, flavour, json.dumps(evs)), len(evs) >= 2)
                if r:
                    report(evs, call, r)
            n += 1
    finally:
        for f in os.listdir(tmpdir):
            os.unlink(os.path.join(tmpdir, f))
        os.rmdir(tmpdir)
    ctx.cov["oracle_samples"] = n
    ctx.count("oracle-samples", n)


def replay(ctx, path):
    d = json.loads(open(path).read())
    inp = d.get("input")
    if not inp:
        print(f"[C14] replay file names a broken obligation, not an input: {d.get('broken')}")
        return 1
    tmpdir = tempfile.mkdtemp(prefix="c14_", dir="/tmp")
    try:
        r = run_call(inp["events"], inp["call"], tmpdir if inp["call"]["method"] in DN_METHODS else None)
    finally:
        for f in os.listdir(tmpdir):
            os.unlink(os.path.join(tmpdir, f))
        os.rmdir(tmpdir)
    if r:
        print(f"VIOLATION property=C14 replay={path}")
        print(r[1])
        return 1
    print("[C14] replay: property holds on this input now")
    return 0
