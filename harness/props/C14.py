"""C14 — bulk observables are normalised per event and per unit of the variable.

Tie T: `harness/translate/bulk.py` regenerates `Gen/Bulk.lean` from the current `BulkObservables.py`
(`_differential_yield`, the three mid-rapidity functions, the wrapper / default tables); `Lemmas/BulkGen.lean`
proves the generated functions equal to the hand-written model `Core/Bulk.lean`, `Props/C14/Gen.lean` restates
the property theorems about them.  Tie C: the hand-written model (histogram fill / one row per event /
unit-weight average / scale by 1/width; mid-rapidity counters) AND the generated functions (ops `gdndx`,
`gyield`, `gmeanpt`, `gmeanmt`) are run by the driver on the very inputs given to the real `BulkObservables`;
the quantity values (`rapidity()`, `pT_abs()`, ... - for the generated functions: the method named by the
generated table) and the bin edges of a tuple binning (`np.linspace`) are taken from the real library and
handed to the model (DESIGN 2.3), their contracts (edges strictly increasing, first/last edge = tuple limits)
are checked on every case.

The oracle (`search`) checks the PROPERTY on the real code against an independent reference written
here with exact rationals: direct counting per bin, the normalisation corollary, the per-event means,
writing the returned histogram to a file and parsing it back, and a before/after snapshot of the
particle lists (identity of every list and particle, bytes of every particle's data array).

Input classes that are stratified on purpose (each gets its share of every run, see `BIN_FLAVOURS`):
binnings in every Python-type flavour (all-int edge lists with widths 1/2/3, float lists, mixed lists,
lists of numpy scalars, numpy arrays, tuples with int / float / mixed limits, the default), one
long-lived `BulkObservables` object re-used for a whole call sequence alternating with fresh objects,
several empty events including the last one, the same event list object appearing twice, events that
are equal as lists.
"""
import csv
import json
import math
import os
import tempfile
import time
import warnings
from fractions import Fraction

import numpy as np

import common
from common import f2h, h2f, close, fl, parse_fl

warnings.filterwarnings("ignore")

DN_METHODS = {"dNdy": "rapidity", "dNdpT": "pT_abs", "dNdEta": "pseudorapidity", "dNdmT": "mT"}
DEFAULT_BINS = {"dNdy": (-2, 2, 11), "dNdpT": (0, 4, 11), "dNdEta": (-2, 2, 11), "dNdmT": (0, 4, 11)}
MID_METHODS = {"mid_rapidity_yield": None, "mid_rapidity_mean_pT": "pT_abs", "mid_rapidity_mean_mT": "mT"}
FLAVOURS = ["rapidity", "pseudorapidity", "spacetime_rapidity"]
ATTRS = ["px", "py", "pz", "E", "t", "z"]
WRITE_KEY = "write-after-average (Histogram.average leaves 1-D systematic_error_)"
ALL_COLS = ["bin_center", "bin_low", "bin_high", "distribution", "stat_err+", "stat_err-", "sys_err+", "sys_err-"]

# binning flavours; the last three are container / element types the documented API (tuple or list of
# int/float) does not accept: a TypeError/ValueError is a legitimate answer for them, a histogram is
# checked like any other
BIN_FLAVOURS = ["default", "tuple-int", "tuple-float", "tuple-mixed",
                "list-int", "list-int", "list-int-unit", "list-float", "list-mixed", "list-qedges",
                "list-npfloat-items", "list-npint-items", "ndarray-int", "ndarray-float"]
REJECTABLE = {"list-npint-items", "ndarray-int", "ndarray-float"}


# ------------------------------------------------------------------ translator (tie T)
GEN = common.LEAN / "SparkxVerif/Gen/Bulk.lean"


def translate(ctx):
    from translate import bulk
    text, regions, ex = bulk.render(common.read_src("BulkObservables.py"))
    changed = common.write_if_changed(GEN, text)
    golden = common.LEAN / "golden/Gen/Bulk.lean"
    ctx.cov["gen_equals_golden"] = golden.exists() and golden.read_text() == text
    ctx.cov["translator_not_modelled"] = ex["notes"]
    if changed:
        ctx.notes.append("Gen/Bulk.lean regenerated (source differs from last run)")
    return regions


def gen_tables():
    """wrapper -> quantity / default binning, mean -> averaged method, default window: read from the Gen/Bulk.lean
    the driver was built from (the freshly generated one, or the golden copy after a translator fallback)"""
    from translate import bulk
    return bulk.tables_from_lean(GEN.read_text())


# ------------------------------------------------------------------ real code access
def make_particles(events, alias=None):
    """events: list of lists of [px,py,pz,E,t,z] (None = unset) -> nested list of sparkx Particles.
    alias[i] = j < i makes event i THE SAME list object as event j (events[i] repeats events[j]'s values)."""
    from sparkx.Particle import Particle
    out = []
    for i, ev in enumerate(events):
        if alias and alias[i] is not None:
            out.append(out[alias[i]])
            continue
        l = []
        for spec in ev:
            p = Particle()
            for a, v in zip(ATTRS, spec):
                if v is not None:
                    setattr(p, a, v)
            l.append(p)
        out.append(l)
    return out


def new_bo(pl):
    from sparkx.BulkObservables import BulkObservables
    return BulkObservables(pl)


def snapshot(pl):
    return (id(pl), [id(e) for e in pl], [[id(p) for p in e] for e in pl],
            [[p.data_.tobytes() for p in e] for e in pl])


def quantity_values(pl, name):
    """the values the code will obtain from the particles (same public method), as Python floats"""
    return [[float(getattr(p, name)()) for p in e] for e in pl]


def bins_arg(b):
    """the Python object handed to the real code"""
    if b["kind"] == "default":
        return None
    if b["kind"] == "tuple":
        return (b["v"][0], b["v"][1], int(b["v"][2]))
    fv = b.get("flavour", "")
    if fv == "list-npfloat-items":
        return [np.float64(x) for x in b["v"]]
    if fv == "list-npint-items":
        return [np.int64(x) for x in b["v"]]
    if fv == "ndarray-int":
        return np.array(b["v"], dtype=np.int64)
    if fv == "ndarray-float":
        return np.array(b["v"], dtype=np.float64)
    return list(b["v"])


def edges_of(meth, b):
    """bin edges a Histogram built from this binning has: np.linspace for tuples (external, contract checked)"""
    if b["kind"] == "default":
        lo, hi, n = DEFAULT_BINS[meth]
        return [float(x) for x in np.linspace(lo, hi, num=n + 1)]
    if b["kind"] == "tuple":
        lo, hi, n = b["v"]
        return [float(x) for x in np.linspace(lo, hi, num=int(n) + 1)]
    return [float(x) for x in b["v"]]


def edges_contract(meth, b, edges):
    ok = all(x < y for x, y in zip(edges, edges[1:])) and len(edges) >= 2
    if b["kind"] != "list":
        lo, hi, n = DEFAULT_BINS[meth] if b["kind"] == "default" else b["v"]
        ok = ok and len(edges) == int(n) + 1 and edges[0] == float(lo) and edges[-1] == float(hi)
    return ok


def rejected(b, real):
    """a container / element type outside the documented API was refused - nothing to compare"""
    return b.get("flavour") in REJECTABLE and (real[:2] == ("err", "value") or real[:2] == ("exc", "TypeError"))


def call_dn(pl, meth, b, bo=None):
    """-> ('ok', bins, hist_object) | ('err', 'value') | ('exc', name)"""
    bo = bo if bo is not None else new_bo(pl)
    try:
        with np.errstate(all="ignore"):
            h = getattr(bo, meth)(bins_arg(b)) if b["kind"] != "default" else getattr(bo, meth)()
    except ValueError:
        return ("err", "value", None)
    except Exception as e:  # noqa: BLE001
        return ("exc", type(e).__name__, None)
    arr = np.asarray(h.histogram())
    if arr.ndim != 2 or arr.shape[0] != 1:
        return ("exc", f"shape{arr.shape}", h)
    return ("ok", [float(x) for x in arr[0]], h)


def call_mid(pl, meth, w, flavour, use_default=False, bo=None):
    bo = bo if bo is not None else new_bo(pl)
    try:
        with np.errstate(all="ignore"):
            v = getattr(bo, meth)() if use_default else getattr(bo, meth)(w, flavour)
    except ValueError:
        return ("err", "value")
    except Exception as e:  # noqa: BLE001
        return ("exc", type(e).__name__)
    return ("ok", float(v))


# ------------------------------------------------------------------ generators
def gen_particle(rng, style):
    if style == "dyadic":
        px = rng.randint(-24, 24) / 8.0
        py = 0.0 if rng.random() < 0.7 else rng.randint(-8, 8) / 8.0
        pz = rng.choice([0.0, 0.0, rng.randint(-16, 16) / 8.0])
        m = rng.choice([0.0, 0.5, 1.0])
    else:
        px, py, pz = rng.uniform(-2.5, 2.5), rng.uniform(-2.5, 2.5), rng.gauss(0, 1.2)
        m = rng.choice([0.0, 0.138, 0.938])
    E = math.sqrt(m * m + px * px + py * py + pz * pz)
    if style == "dyadic" and pz == 0.0 and rng.random() < 0.5:
        E = max(abs(px), 0.125) + rng.choice([0.0, 0.5, 1.0])  # mT = E exactly
    if E == abs(pz):  # rapidity would need the code's regulator; keep the point but make it massive
        E += 0.25
    t = rng.uniform(1.0, 10.0)
    z = t * rng.uniform(-0.95, 0.95)
    return [px, py, pz, E, t, z]


def gen_events(rng, allow_unset=True):
    """-> (events, alias, shape tag)"""
    style = "dyadic" if rng.random() < 0.5 else "generic"

    def ev(lo=1):
        return [gen_particle(rng, style) for _ in range(rng.randint(lo, 10))]

    alias = None
    r = rng.random()
    if r < 0.12:
        # several empty events, the last one among them
        n = rng.randint(3, 6)
        evs = [ev() for _ in range(n)]
        evs[-1] = []
        for i in rng.sample(range(n - 1), rng.randint(1, n - 2)):
            evs[i] = []
        tag = "several-empty-incl-last"
    elif r < 0.22:
        # the same list object twice (also an empty one)
        n = rng.randint(2, 5)
        evs = [[] if rng.random() < 0.2 else ev() for _ in range(n)]
        j = rng.randrange(1, n)
        i = rng.randrange(0, j)
        evs[j] = [list(p) for p in evs[i]]
        alias = [None] * n
        alias[j] = i
        tag = "same-list-object-twice"
    elif r < 0.32:
        # events equal as lists (distinct objects, equal contents)
        n = rng.randint(2, 5)
        evs = [[] if rng.random() < 0.2 else ev() for _ in range(n)]
        j = rng.randrange(1, n)
        i = rng.randrange(0, j)
        evs[j] = [list(p) for p in evs[i]]
        if n > 2 and rng.random() < 0.4:
            k = rng.choice([x for x in range(n) if x not in (i, j)])
            evs[k] = [list(p) for p in evs[i]]
        tag = "equal-events"
    else:
        r2 = rng.random()
        nev = 0 if r2 < 0.03 else 1 if r2 < 0.15 else rng.randint(2, 5)
        evs = [[] if rng.random() < 0.25 else ev() for _ in range(nev)]
        tag = "random"
    if allow_unset and alias is None and evs and rng.random() < 0.06:
        cand = [(i, j) for i, e in enumerate(evs) for j in range(len(e))]
        if cand:
            i, j = rng.choice(cand)
            evs[i][j][rng.choice([0, 2, 3])] = None
    return evs, alias, tag


def _dedup_sorted(vals):
    out = []
    for x in sorted(vals, key=float):
        if not out or float(x) > float(out[-1]):
            out.append(x)
    if len(out) < 2:
        out.append(float(out[-1]) + 1.0)
    return out


def gen_bins(rng, meth, qvals, flavour=None):
    positive = meth in ("dNdpT", "dNdmT")
    flat = [q for e in qvals for q in e if q == q and abs(q) != float("inf")]
    fv = flavour or rng.choice(BIN_FLAVOURS)
    if fv == "default":
        return dict(kind="default", v=None, flavour=fv)
    if fv.startswith("tuple"):
        n = rng.randint(1, 8)
        if fv == "tuple-int":
            lo = rng.choice([0, 1]) if positive else rng.choice([-3, -2, -1, 0])
            hi = lo + rng.choice([1, 2, 3, 4, 6])
        elif fv == "tuple-float":
            lo = rng.choice([0.0, 0.25, 0.5, 1.0]) if positive else rng.choice([-2.0, -1.0, -0.5, 0.25, -3.0])
            hi = lo + rng.choice([1.0, 2.5, 0.75, 3.0, 4.0])
        else:
            lo = rng.choice([0, 1]) if positive else rng.choice([-2, -1, 0])
            hi = lo + rng.choice([0.75, 2.5, 3.5])
            if rng.random() < 0.5:
                lo, hi = float(lo) - 0.5 * (not positive), int(math.ceil(hi))
        return dict(kind="tuple", v=[lo, hi, n], flavour=fv)
    k = rng.randint(1, 6)
    if fv in ("list-int", "list-int-unit", "list-npint-items", "ndarray-int"):
        # Python ints only; widths 1, 2, 3 (at least one bin wider than 1 unless "-unit")
        x = rng.choice([0, 0, 1]) if positive else rng.choice([-4, -3, -2, -1, 0])
        vals = [x]
        widths = [1] * k if fv == "list-int-unit" else [rng.choice([1, 2, 3]) for _ in range(k)]
        if fv != "list-int-unit" and all(w == 1 for w in widths):
            widths[rng.randrange(k)] = rng.choice([2, 3])
        for w in widths:
            vals.append(vals[-1] + w)
        return dict(kind="list", v=[int(v) for v in vals], flavour=fv)
    pool = set()
    while len(pool) < k + 1:
        if fv == "list-qedges" and flat and rng.random() < 0.7:
            pool.add(float(rng.choice(flat)))  # an edge bit-equal to a particle's value
        elif fv != "list-qedges" and flat and rng.random() < 0.25:
            pool.add(float(rng.choice(flat)))
        else:
            x = rng.randint(0 if positive else -24, 40) / 8.0
            if fv == "list-mixed" and x == int(x):
                pool.add(int(x))
            else:
                pool.add(float(x))
    vals = _dedup_sorted(pool)
    if fv == "list-mixed":
        # make sure both types occur, and that two neighbouring ints span a bin wider than 1 now and then
        if not any(isinstance(v, int) for v in vals):
            vals = _dedup_sorted([int(math.floor(float(vals[0]))) - rng.choice([1, 2])] + vals)
        if not any(isinstance(v, float) for v in vals):
            vals = _dedup_sorted(vals + [float(vals[-1]) + 0.5])
    else:
        vals = [float(v) for v in vals]
    return dict(kind="list", v=vals, flavour=fv)


def gen_width(rng, yvals):
    r = rng.random()
    flat = [abs(y) for e in yvals for y in e if y == y and y != 0 and abs(y) != float("inf")]
    if r < 0.06:
        return rng.choice([0, -1, -0.5, 0.0])
    if r < 0.3 and flat:
        return 2.0 * rng.choice(flat)  # a particle exactly on the window's edge
    return rng.choice([1.0, 1, 0.5, 2, 0.25, 3.0, 0.125, rng.uniform(0.05, 4.0)])


def empty_patterns():
    """deterministic block: every placement of empty events for 1..4 events"""
    out = []
    base = [[[1.0, 0.0, 0.0, 1.5, 2.0, 0.0]], [[2.0, 0.0, 0.5, 2.5, 2.0, 0.5], [6.0, 0.0, 0.0, 6.5, 2.0, 0.0]],
            [[3.0, 0.0, 0.0, 3.5, 3.0, 1.0]], [[0.5, 0.0, 4.0, 5.0, 5.0, 4.0], [5.0, 0.0, 0.25, 5.5, 3.0, 0.0]]]
    for n in range(1, 5):
        for mask in range(2 ** n):
            out.append([[] if (mask >> i) & 1 else [list(p) for p in base[i]] for i in range(n)])
    return out


def type_flavour_block():
    """deterministic block: every binning flavour x every method on a fixed three-event sample with an
    empty middle event; the values are chosen so that bins wider than 1 are populated"""
    evs = [[[1.5, 0.0, 0.5, 2.0, 3.0, 1.0], [2.5, 0.0, -1.0, 3.0, 3.0, -1.0], [0.5, 0.0, 0.0, 1.0, 2.0, 0.0]], [],
           [[3.25, 0.0, 2.0, 4.0, 4.0, 2.0], [1.0, 0.0, -0.25, 1.25, 2.0, -0.5]]]
    fixed = {"list-int": {True: [0, 1, 2, 4], False: [-2, 0, 2]}, "ndarray-int": {True: [0, 2, 5], False: [-3, -1, 0, 3]},
             "list-npint-items": {True: [0, 1, 4], False: [-2, -1, 2]}}
    out = []
    for meth in DN_METHODS:
        positive = meth in ("dNdpT", "dNdmT")
        for fv in sorted(set(BIN_FLAVOURS)):
            out.append((evs, meth, fv, fixed.get(fv, {}).get(positive)))
    return out


# ------------------------------------------------------------------ call-sequence perturbations
def _list_flavour(v):
    if all(isinstance(x, int) for x in v):
        return "list-int"
    return "list-float" if all(isinstance(x, float) for x in v) else "list-mixed"


def twins(b):
    """binnings whose argument is EQUAL AS A SEQUENCE to `b`'s but of another kind (tuple spec (min,max,n) <-> list of
    edges [min,max,n]), element type (int <-> float entries comparing equal) or container (list of numpy scalars,
    numpy array).  Each twin is a binning of its own with its own expected edges; none may be answered with the
    result of another."""
    out = []
    if b["kind"] == "tuple":
        lo, hi, n = b["v"]
        if lo < hi < n:
            out.append(dict(kind="list", v=[lo, hi, int(n)], flavour=_list_flavour([lo, hi, int(n)])))
            out.append(dict(kind="list", v=[float(lo), float(hi), float(n)], flavour="list-float"))
        alt = [float(lo) if isinstance(lo, int) else (int(lo) if lo == int(lo) else lo),
               float(hi) if isinstance(hi, int) else (int(hi) if hi == int(hi) else hi), int(n)]
        if [type(x) for x in alt] != [type(x) for x in b["v"]]:
            out.append(dict(kind="tuple", v=alt, flavour="tuple-mixed"))
    elif b["kind"] == "list":
        v = list(b["v"])
        if len(v) == 3 and float(v[2]) == int(v[2]) and int(v[2]) >= 1 and v[0] < v[1]:
            out.append(dict(kind="tuple", v=[v[0], v[1], int(v[2])], flavour="tuple-mixed"))
        if any(isinstance(x, int) for x in v):
            out.append(dict(kind="list", v=[float(x) for x in v], flavour="list-float"))
        if all(float(x) == int(x) for x in v) and any(isinstance(x, float) for x in v):
            out.append(dict(kind="list", v=[int(x) for x in v], flavour="list-int"))
        fv = b.get("flavour", "")
        if fv not in ("list-npfloat-items",):
            out.append(dict(kind="list", v=[float(x) for x in v], flavour="list-npfloat-items"))
        if not fv.startswith("ndarray"):
            out.append(dict(kind="list", v=[float(x) for x in v], flavour="ndarray-float"))
        else:
            out.append(dict(kind="list", v=[float(x) for x in v], flavour="list-float"))
    return out


def gen_seq_pair(rng, meth):
    """a tuple spec (a, b, n) and the explicit edge list [a, b, n] with the same numbers (a < b < n), entries int or float"""
    positive = meth in ("dNdpT", "dNdmT")
    a = rng.choice([0, 0, 1]) if positive else rng.choice([-2, -1, 0, 0])
    b_ = a + rng.choice([1, 1, 2])
    n = rng.randint(max(b_ + 1, 1), b_ + 3)
    cast = rng.choice([int, float])
    t = dict(kind="tuple", v=[cast(a), cast(b_), n], flavour="tuple-int" if cast is int else "tuple-float")
    cast2 = rng.choice([int, float])
    lst = [cast2(a), cast2(b_), rng.choice([n, float(n)]) if cast2 is float else n]
    l = dict(kind="list", v=lst, flavour=_list_flavour(lst))
    return [t, l] if rng.random() < 0.5 else [l, t]


def gen_mutation(rng, edges):
    """something a caller may do with the Histogram it was handed (public Histogram API)"""
    r = rng.random()
    if r < 0.35:
        return f"scale:{rng.choice([2.0, 0.5, 3.0, 0.0])}"
    if r < 0.6:
        i = rng.randrange(len(edges) - 1)
        return f"add_value:{(edges[i] + edges[i + 1]) / 2!r}"
    if r < 0.75:
        return "add_histogram"
    if r < 0.9 and len(edges) > 2:
        return f"remove_bin:{rng.randrange(len(edges) - 1)}"
    return "set_error"


def apply_mutation(h, mut):
    """the caller changes ITS result object; whatever that raises is the caller's business"""
    try:
        with np.errstate(all="ignore"):
            if mut.startswith("scale:"):
                h.scale_histogram(float(mut.split(":")[1]))
            elif mut.startswith("add_value:"):
                for _ in range(3):
                    h.add_value(float(mut.split(":")[1]))
            elif mut == "add_histogram":
                h.add_histogram()
                h.add_value(float(h.bin_centers()[0]))
            elif mut.startswith("remove_bin:"):
                h.remove_bin(int(mut.split(":")[1]))
            elif mut == "set_error":
                h.set_error([7.0] * len(h.bin_centers()))
    except Exception:  # noqa: BLE001
        pass


# ------------------------------------------------------------------ driver encoding
def enc_q(x):
    return "-" if x != x else f2h(x)


def enc_dn_events(qvals):
    if not qvals:
        return "none"
    return "|".join("." if not e else ";".join(enc_q(q) for q in e) for e in qvals)


def enc_mid_events(yvals, xvals):
    if not yvals:
        return "none"
    return "|".join("." if not ye else ";".join(enc_q(y) + "," + f2h(x) for y, x in zip(ye, xe))
                    for ye, xe in zip(yvals, xvals))


def close_list(a, b, rel):
    return len(a) == len(b) and all(close(x, y, rel=rel, abs_=1e-300) for x, y in zip(a, b))


# ------------------------------------------------------------------ correspondence (tie C)
def correspond(ctx):
    rng = ctx.rng
    nbrk = [0]

    def brk(what, **kw):
        nbrk[0] += 1
        if nbrk[0] <= 8:  # the first few differing cases are enough to name the disagreement
            ctx.brk("correspondence-broken", what, **kw)
        ctx.cov["correspondence_mismatches"] = nbrk[0]

    ctx.rule = ("random samples: 0-6 events incl. empty ones at any position (plus every placement of empty events "
                "for 1-4 events; several empty events incl. the last; the same list object twice; events equal as lists), "
                "0-10 particles, dyadic and generic kinematics, rarely an unset attribute; binnings stratified over "
                "default / tuple (int, float, mixed limits) / explicit lists (all-int with widths 1-3, float, mixed, edges "
                "bit-equal to particle values, numpy-scalar items) / numpy arrays (plus every flavour x method on a fixed "
                "sample); every second sample runs all its calls on ONE re-used BulkObservables object; window widths incl. "
                "a particle exactly on the edge and invalid widths; three rapidity flavours. "
                "non-trivial (dN/dx) = >=2 events, some bin filled, and an empty event or a value outside the range or "
                "exactly on an edge; (mid) = >=2 events, a particle inside and one outside the window or an empty event")
    if not getattr(ctx, "fallback", False):
        ctx.cov["tie"] = ("T+C: Gen/Bulk.lean regenerated from BulkObservables.py and proved equal to Core/Bulk.lean "
                          "(Lemmas/BulkGen.lean); hand model and generated functions both run against the real code "
                          "through lean/drivers/C14.lean")
    tables = gen_tables()
    ctx.cov["generated_tables"] = {k: {a: list(b) if isinstance(b, tuple) else b for a, b in v.items()} for k, v in tables.items()}
    ctx.assumptions += [
        "C14: numpy contracts used as parameters: np.linspace (strictly increasing, end points exact - checked per case), "
        "np.digitize(v, edges) = number of edges <= v for increasing edges, np.average(axis=0, weights=ones) = sum/count",
        "C14: the quantity of a particle is whatever Particle.rapidity/pT_abs/pseudorapidity/mT/spacetime_rapidity return (C08's subject)",
        "C14: 'input lists unmodified' and 'returned histogram can be written' are checked on the real code by sampling only "
        "(snapshot of identities and data bytes; write_to_file + parse), they are not Lean theorems",
        "C14: binnings given as numpy arrays / lists of numpy ints are outside the documented API; a TypeError/ValueError for "
        "them is accepted, a returned histogram is checked like any other",
        "C14 tie T: translated = statements of _differential_yield after argument-type validation, the wrappers' quantity and "
        "default binning, the three mid-rapidity functions after argument-type validation. NOT translated (recognised, "
        "hashed): isinstance/callable validation, warnings, _check_quantity_is_method, class ReadOnlyList (checked to delegate "
        "indexing/len/iteration); Histogram methods are the primitives HObj.* of Core/Bulk.lean (Histogram is C09/C10's subject, "
        "tied here by correspondence); the translator itself is trusted (mitigated: generated functions are run against the code)",
    ]
    samples = [(evs, None, "pattern", None) for evs in empty_patterns()]
    for evs, meth, fv, v in type_flavour_block():
        samples.append((evs, None, "flavour-block", (meth, fv, v)))
    for _ in range(ctx.n(200, 5000)):
        evs, alias, tag = gen_events(rng)
        samples.append((evs, alias, tag, None))
    lines, meta = [], []
    for idx, (evs, alias, tag, forced) in enumerate(samples):
        pl = make_particles(evs, alias)
        snap = snapshot(pl)
        reuse = idx % 2 == 1
        bo = new_bo(pl) if reuse else None
        ctx.count(f"sample/{tag}/{'reused-object' if reuse else 'fresh-objects'}")
        # --- differential yields.  On a re-used object: shuffled, one method a second time, and after a call
        #     sometimes a twin binning (same numbers, other kind / element type / container) or the caller modifies
        #     the Histogram it got and asks the same question again; plus one (tuple spec, edge list) pair
        dn_calls = list(DN_METHODS)
        if forced:
            dn_calls = [forced[0]]
        elif reuse:
            rng.shuffle(dn_calls)
            dn_calls.append(rng.choice(dn_calls))
        queue = [(m, None) for m in dn_calls]
        if reuse and not forced:
            m = rng.choice(list(DN_METHODS))
            pos = rng.randrange(len(queue) + 1)
            queue[pos:pos] = [(m, b) for b in gen_seq_pair(rng, m)]
        qi = 0
        while qi < len(queue):
            meth, b = queue[qi]
            qi += 1
            follow_up = b is None and reuse and not forced
            q = quantity_values(pl, DN_METHODS[meth])
            if b is None:
                if forced and forced[2] is not None:
                    b = dict(kind="list", v=list(forced[2]), flavour=forced[1])
                else:
                    b = gen_bins(rng, meth, q, forced[1] if forced else None)
            edges = edges_of(meth, b)
            if not edges_contract(meth, b, edges):
                brk(f"np.linspace contract violated for {b}", case=dict(bins=b))
                continue
            real = call_dn(pl, meth, b, bo)
            if rejected(b, real):
                ctx.count(f"{meth}/bins={b['flavour']}/refused-by-validation")
                ctx.case(("dn-refused", meth, json.dumps(b)), False)
                continue
            if real[0] == "ok":
                hb = [float(x) for x in real[2].bin_boundaries()]
                if hb != edges:
                    brk(f"{meth}({bins_arg(b)!r}) ({'re-used' if reuse else 'fresh'} object): histogram edges {hb} differ from "
                        f"the binning's edges {edges}", case=dict(events=evs, alias=alias, method=meth, bins=b, reused_object=reuse))
            lines.append(f"dndx\t{fl(edges)}\t{enc_dn_events(q)}")
            meta.append(("dn", meth, b, evs, alias, q, edges, real[:2], reuse))
            # the function GENERATED from the current source, on the quantity / default binning of the generated tables
            gq = tables["quantity"].get(meth)
            try:
                qg = q if gq == DN_METHODS[meth] else quantity_values(pl, gq)
            except Exception as e:  # noqa: BLE001
                brk(f"generated table names `{gq}` as the quantity of {meth}: {type(e).__name__}", case=dict(method=meth))
                qg = None
            if qg is not None:
                eg = edges
                if b["kind"] == "default":
                    lo, hi, n = tables["default"][meth]
                    eg = [float(x) for x in np.linspace(lo, hi, num=n + 1)]
                lines.append(f"gdndx\t{fl(eg)}\t{enc_dn_events(qg)}")
                meta.append(("gdn", meth, b, evs, alias, qg, eg, real[:2], reuse))
            if follow_up and real[0] == "ok":
                r = rng.random()
                if r < 0.3:
                    tw = twins(b)
                    for t in rng.sample(tw, min(len(tw), rng.randint(1, 2))):
                        queue.insert(qi, (meth, t))
                    ctx.count("sample/reused-object/twin-binning-follows")
                elif r < 0.6:
                    mut = gen_mutation(rng, edges)
                    apply_mutation(real[2], mut)  # the caller's own object now; `real[:2]` was taken before
                    queue.insert(qi if rng.random() < 0.6 else len(queue), (meth, b))
                    ctx.count(f"sample/reused-object/result-mutated-then-same-call/{mut.split(':')[0]}")
        if not forced:
            # --- mid-rapidity functions
            flavour = rng.choice(FLAVOURS)
            y = quantity_values(pl, flavour)
            w = gen_width(rng, y)
            use_default = flavour == "rapidity" and rng.random() < 0.1
            if use_default:
                w = 1.0
            mid_calls = list(MID_METHODS.items())
            if reuse:  # a re-used object answers every mid-rapidity question twice, in random order
                mid_calls = mid_calls * 2
                rng.shuffle(mid_calls)
            for meth, xname in mid_calls:
                x = quantity_values(pl, xname) if xname else [[0.0 for _ in e] for e in y]
                real = call_mid(pl, meth, w, flavour, use_default, bo)
                op = "yield" if xname is None else "mean"
                lines.append(f"{op}\t{f2h(float(w))}\t{enc_mid_events(y, x)}")
                marg = dict(y_width=w, quantity=flavour, default_args=use_default)
                meta.append(("mid", meth, marg, evs, alias, (y, x), None, real, reuse))
                # the GENERATED function, on the averaged method / default arguments of the generated tables
                gop = {"mid_rapidity_yield": "gyield", "mid_rapidity_mean_pT": "gmeanpt", "mid_rapidity_mean_mT": "gmeanmt"}[meth]
                wg, fg = (tables["mid_default"][meth] if use_default else (w, flavour))
                gx = tables["mean_value"].get(meth)
                try:
                    yg = y if fg == flavour else quantity_values(pl, fg)
                    xg = x if (xname is None or gx == xname) else quantity_values(pl, gx)
                except Exception as e:  # noqa: BLE001
                    brk(f"generated tables name `{fg}` / `{gx}` for {meth}: {type(e).__name__}", case=dict(method=meth))
                    continue
                lines.append(f"{gop}\t{f2h(float(wg))}\t{enc_mid_events(yg, xg)}")
                meta.append(("gmid", meth, marg, evs, alias, (yg, xg), None, real, reuse))
        if snapshot(pl) != snap:
            brk("the particle lists were modified by a BulkObservables call (the model is a pure function)",
                case=dict(events=evs, alias=alias))
    outs = common.run_driver("C14", lines)
    for (kind, meth, arg, evs, alias, vals, edges, real, reuse), out in zip(meta, outs):
        nev = len(evs)
        has_empty = any(len(e) == 0 for e in evs)
        how = "re-used object" if reuse else "fresh object"
        if kind in ("gdn", "gmid"):
            # generated function vs real code (tie C on top of tie T)
            if out.startswith("ok "):
                if kind == "gdn":
                    rows = [parse_fl(r) for r in out[3:].split("|")]
                    ok = real[0] == "ok" and len(rows) == 1 and close_list(real[1], rows[0], 1e-12)
                else:
                    ok = real[0] == "ok" and close(real[1], h2f(out[3:]), rel=1e-12)
            elif out == "err value":
                ok = real == ("err", "value")
            else:
                ok = False
            ctx.count(f"generated/{meth}/{'agrees' if ok else 'DIFFERS'}")
            if not ok:
                brk(f"{meth} ({how}): code {real[:2]} vs GENERATED function {out[:200]}",
                    case=dict(events=evs, alias=alias, method=meth, arg=arg, reused_object=reuse))
            continue
        if kind == "dn":
            q = vals
            if out.startswith("ok "):
                parts = out.split(" ")
                mb = parse_fl(parts[1])
                ok = real[0] == "ok" and close_list(real[1], mb, 1e-12)
                if ok and parts[2] != "-" and nev > 0:
                    # the executable specification (count / N / width) against the code and the model
                    ok = close_list(parse_fl(parts[2]), real[1], 1e-12)
            elif out == "err value":
                ok = real == ("err", "value")
            else:
                ok = False
            flat = [v for e in q for v in e if v == v]
            filled = real[0] == "ok" and any(v != 0 for v in real[1])
            outside = any(v < edges[0] or v >= edges[-1] for v in flat)
            on_edge = any(v in edges for v in flat)
            nontriv = nev >= 2 and filled and (has_empty or outside or on_edge)
            ctx.case(("dn", meth, json.dumps(arg), json.dumps(evs), json.dumps(alias), reuse), nontriv,
                     sample=dict(op=meth, bins=arg, events=evs, code=real[:2], model=out) if nontriv else None)
            ctx.count(f"{meth}/bins={arg['flavour']}/{real[0]}")
            ctx.count(f"dN/events={min(nev, 2)}{'+' if nev > 2 else ''}/{'empty-event' if has_empty else 'no-empty'}")
            if on_edge:
                ctx.count("dN/value-bit-equal-to-edge")
            if arg["kind"] == "list" and real[0] == "ok" and all(isinstance(v, int) for v in arg["v"]):
                wide = [i for i, (a, b_) in enumerate(zip(arg["v"], arg["v"][1:])) if b_ - a > 1]
                if any(real[1][i] != 0 for i in wide):
                    ctx.count("dN/all-int-edges/populated-bin-wider-than-1")
            if not ok:
                brk(f"{meth} ({how}): code {real[:2]} vs model {out}",
                    case=dict(events=evs, alias=alias, method=meth, bins=arg, reused_object=reuse))
        else:
            y, x = vals
            if out.startswith("ok "):
                parts = out.split(" ")
                mv, sv = h2f(parts[1]), h2f(parts[2])
                ok = real[0] == "ok" and close(real[1], mv, rel=1e-12)
                if ok and sv == sv:  # spec is 0/0 = NaN at IEEE when nothing is averaged; the theorem covers that case
                    ok = close(sv, real[1], rel=1e-12)
            elif out == "err value":
                ok = real == ("err", "value")
            else:
                ok = False
            w = float(arg["y_width"])
            flat = [v for e in y for v in e]
            inside = any(v == v and abs(v) <= w / 2 for v in flat)
            outside_w = any(not (v == v and abs(v) <= w / 2) for v in flat)
            nontriv = nev >= 2 and inside and (outside_w or has_empty)
            ctx.case(("mid", meth, json.dumps(arg), json.dumps(evs), json.dumps(alias), reuse), nontriv,
                     sample=dict(op=meth, args=arg, events=evs, code=real, model=out) if nontriv and meth != "mid_rapidity_yield" else None)
            ctx.count(f"{meth}/{arg['quantity']}/events={min(nev, 2)}{'+' if nev > 2 else ''}/"
                      f"{'empty-first' if nev and not evs[0] else 'empty-event' if has_empty else 'no-empty'}/{real[0]}")
            if not ok:
                brk(f"{meth}({arg}) ({how}): code {real} vs model {out}",
                    case=dict(events=evs, alias=alias, method=meth, args=arg, reused_object=reuse))


# ------------------------------------------------------------------ independent reference (exact rationals)
def ref_dn(q, edges):
    """per bin: (# values v with e_i <= v < e_{i+1} over all events) / N / (e_{i+1} - e_i); zeros for no event"""
    n = len(q)
    out = []
    for lo, hi in zip(edges, edges[1:]):
        c = sum(1 for e in q for v in e if lo <= v < hi)
        out.append(Fraction(0) if n == 0 else Fraction(c, n) / (Fraction(hi) - Fraction(lo)))
    return out


def ref_yield(y, w):
    n = len(y)
    if n == 0:
        return Fraction(0)
    half = Fraction(w) / 2
    return Fraction(sum(1 for e in y for v in e if v == v and abs(Fraction(v)) <= half), n)


def ref_mean(y, x, w):
    half = Fraction(w) / 2
    means = []
    for ye, xe in zip(y, x):
        ins = [Fraction(b) for a, b in zip(ye, xe) if a == a and abs(Fraction(a)) <= half]
        if ins:
            means.append(sum(ins) / len(ins))
    return sum(means) / len(means) if means else Fraction(0)


def check_write(h, tmpdir):
    """write the returned histogram and read it back; None or (key, what)"""
    path = os.path.join(tmpdir, "h.csv")
    labels = [{c: "L_" + c for c in ALL_COLS}]
    try:
        h.write_to_file(path, labels, comment="# C14")
    except Exception as e:  # noqa: BLE001
        if isinstance(e, IndexError) and np.ndim(h.systematic_error_) == 1:
            return (WRITE_KEY, f"write_to_file on the histogram returned by BulkObservables raises {type(e).__name__}: {e} "
                               f"(systematic_error_ has shape {np.shape(h.systematic_error_)} after average())")
        return (f"write-returned-histogram/raises-{type(e).__name__}", f"write_to_file raises {type(e).__name__}: {e}")
    rows = [r for r in csv.reader(open(path)) if r]
    nb = len(h.bin_centers())
    if len(rows) != nb + 2 or rows[0] != ["# C14"] or rows[1] != ["L_" + c for c in ALL_COLS]:
        return ("write-returned-histogram/layout", f"unexpected file layout: {rows[:3]}")
    want = [h.bin_centers(), h.bin_bounds_left(), h.bin_bounds_right(), h.histogram()[0]]
    for i, r in enumerate(rows[2:]):
        for c in range(4):
            if float(r[c]) != float(want[c][i]):
                return ("write-returned-histogram/cell", f"row {i} column {ALL_COLS[c]}: file {r[c]} != {float(want[c][i])!r}")
    return None


def oracle_dn(evs, meth, b, tmpdir=None, alias=None, shared=None, mutate=None, handed=None):
    """None or (key, what, detail): the property on the real code for one differential-yield call.
    shared = (particle lists, BulkObservables object) to run the call on a long-lived object.
    mutate: after all checks the caller modifies the Histogram it was handed (see apply_mutation).
    handed: list collecting (result object, its values, its edges) of un-modified results."""
    pl, bo = shared if shared else (make_particles(evs, alias), None)
    q = quantity_values(pl, DN_METHODS[meth])
    if any(v != v or abs(v) == float("inf") for e in q for v in e):
        return None  # the statement speaks about particles that have the quantity
    edges = edges_of(meth, b)
    if not edges_contract(meth, b, edges):
        return None
    snap = snapshot(pl)
    real = call_dn(pl, meth, b, bo)
    if snapshot(pl) != snap:
        return (f"input-modified/{meth}", f"{meth} modified the particle lists passed in", {})
    if rejected(b, real):
        return None
    btxt = f"{b.get('flavour', b['kind'])} {bins_arg(b)!r}"
    if real[0] != "ok":
        if real[1].startswith("shape"):
            return (f"{meth}/histogram-shape", f"{meth}({btxt}).histogram() has {real[1]}, expected one row", dict(observed=real[:2]))
        return (f"{meth}/raises-{real[1]}", f"{meth}({btxt}) raises {real[1]} on {len(evs)} events", dict(observed=real[:2]))
    want = ref_dn(q, edges)
    got = real[1]
    if len(got) != len(want):
        return (f"{meth}/number-of-bins", f"{meth}({btxt}): {len(got)} bins returned, {len(want)} expected "
                                          f"(edges returned {[float(x) for x in real[2].bin_boundaries()]}, asked for {edges})", {})
    for i, (g, wv) in enumerate(zip(got, want)):
        if not close(g, float(wv), rel=1e-9, abs_=1e-300):
            return (f"{meth}/bin-value", f"{meth}({btxt}) bin {i} [{edges[i]},{edges[i+1]}): code {g!r}, "
                                         f"count/N_events/width = {float(wv)!r}", dict(bin=i, observed=got, expected=[float(x) for x in want]))
    # corollary with the histogram's own widths
    h = real[2]
    total = float(sum(float(g) * float(wd) for g, wd in zip(got, h.bin_width()))) * len(evs)
    inrange = sum(1 for e in q for v in e if edges[0] <= v < edges[-1])
    if not close(total, float(inrange), rel=1e-9, abs_=1e-9):
        return (f"{meth}/normalisation", f"sum(bin*width)*N_events = {total!r}, particles in range = {inrange}", {})
    hb = [float(x) for x in h.bin_boundaries()]
    if hb != edges:
        return (f"{meth}/bin-edges", f"{meth}({btxt}) returned a histogram with edges {hb}, the binning asked for has {edges}", {})
    if tmpdir is not None:
        r = check_write(h, tmpdir)
        if r:
            return (r[0], r[1], {})
    if mutate:
        apply_mutation(h, mutate)
    elif handed is not None:
        handed.append((h, list(got), hb, f"{meth}({btxt})"))
    return None


def oracle_mid(evs, meth, w, flavour, alias=None, shared=None):
    pl, bo = shared if shared else (make_particles(evs, alias), None)
    try:
        y = quantity_values(pl, flavour)
        x = quantity_values(pl, MID_METHODS[meth]) if MID_METHODS[meth] else None
    except Exception:  # noqa: BLE001   (e.g. spacetime_rapidity outside the light cone)
        return None
    if any(v != v or abs(v) == float("inf") for e in y for v in e) or (x and any(v != v for e in x for v in e)):
        return None
    if not (isinstance(w, (int, float)) and w > 0):
        return None
    snap = snapshot(pl)
    real = call_mid(pl, meth, w, flavour, bo=bo)
    if snapshot(pl) != snap:
        return (f"input-modified/{meth}", f"{meth} modified the particle lists passed in", {})
    first_empty = len(evs) > 0 and len(evs[0]) == 0
    any_empty = any(len(e) == 0 for e in evs)
    want = ref_yield(y, w) if x is None else ref_mean(y, x, w)
    if real[0] != "ok":
        cls = "empty-first-event" if first_empty else "empty-event" if any_empty else "events"
        return (f"{meth}/{cls}: {real[1]}", f"{meth}({w}, {flavour!r}) raises {real[1]}; expected {float(want)!r}",
                dict(observed=real, expected=float(want)))
    if not close(real[1], float(want), rel=1e-9, abs_=1e-300):
        if x is None:
            key = f"{meth}/per-event-count"
        else:
            key = f"{meth}/empty-event: non-finite" if (any_empty and not math.isfinite(real[1])) else f"{meth}/per-event-mean"
        return (key, f"{meth}({w}, {flavour!r}) = {real[1]!r}, expected {float(want)!r} "
                     f"({'mean count inside the window per event' if x is None else 'mean over events with a particle inside of (sum inside / number inside)'})",
                dict(observed=real[1], expected=float(want)))
    return None


def run_call(evs, call, tmpdir=None, alias=None, shared=None, handed=None):
    if call["method"] in DN_METHODS:
        return oracle_dn(evs, call["method"], call["bins"], tmpdir, alias, shared, call.get("mutate"), handed)
    return oracle_mid(evs, call["method"], call["y_width"], call["quantity"], alias, shared)


def check_handed(handed):
    """results handed out earlier (and not touched by the caller) must still be what they were"""
    for h, vals, edges, txt in handed:
        arr = np.asarray(h.histogram())
        now = [float(x) for x in arr[0]] if arr.ndim == 2 and arr.shape[0] == 1 else None
        if now != vals or [float(x) for x in h.bin_boundaries()] != edges:
            return ("earlier-result-changed", f"the histogram returned earlier by {txt} was changed by a later call, or by the "
                                              f"caller modifying the result of a later call (results share state): "
                                              f"was {vals}, is {now}", dict(was=vals, now=now))
    return None


def run_history(evs, history, alias=None, tmpdir=None):
    """all calls of `history` in a row on ONE BulkObservables object; -> (index, result) of the first failing call.
    A call may carry "mutate": the caller then modifies the Histogram it got (after it was checked)."""
    pl = make_particles(evs, alias)
    shared = (pl, new_bo(pl))
    handed = []
    for i, call in enumerate(history):
        r = run_call(evs, call, tmpdir if call["method"] in DN_METHODS else None, alias, shared, handed)
        r = r or check_handed(handed)
        if r:
            return i, r
    return None


def build_history(rng, calls, pl):
    """a call sequence for ONE long-lived object: every call twice and one four times, shuffled; after some
    differential-yield calls a twin (same numbers, other kind / element type / container), or the caller
    modifies the result it got and asks the same question again; plus one (tuple spec, edge list) pair
    with the same three numbers"""
    order = list(range(len(calls))) * 2 + [rng.randrange(len(calls))] * 2
    rng.shuffle(order)
    hist = []
    tail = []
    for k in order:
        c = dict(calls[k])
        hist.append(c)
        if c["method"] not in DN_METHODS:
            continue
        r = rng.random()
        if r < 0.3:
            tw = twins(c["bins"])
            for t in rng.sample(tw, min(len(tw), rng.randint(1, 2))):
                hist.append(dict(method=c["method"], bins=t))
        elif r < 0.6:
            edges = edges_of(c["method"], c["bins"])
            if edges_contract(c["method"], c["bins"], edges):
                c["mutate"] = gen_mutation(rng, edges)
                again = dict(method=c["method"], bins=c["bins"])
                (hist if rng.random() < 0.6 else tail).append(again)
    meth = rng.choice(list(DN_METHODS))
    pair = [dict(method=meth, bins=b) for b in gen_seq_pair(rng, meth)]
    pos = rng.randrange(len(hist) + 1)
    hist[pos:pos] = pair
    return hist + tail


def shrink(evs, call, key, alias=None, fails=None):
    """delta-debugging on events, then particles (an aliased sample is first tried without the aliasing)"""
    if fails is None:
        def fails(c, al=None):
            r = run_call(c, call, alias=al)
            return r is not None and r[0] == key

    if alias is not None:
        if not fails(evs, None):
            return evs, alias
        alias = None
    cur = [[list(p) for p in e] for e in evs]
    changed = True
    while changed:
        changed = False
        for i in range(len(cur)):
            cand = cur[:i] + cur[i + 1:]
            if fails(cand):
                cur, changed = cand, True
                break
        if changed:
            continue
        for i in range(len(cur)):
            for j in range(len(cur[i])):
                cand = [list(e) for e in cur]
                cand[i] = cur[i][:j] + cur[i][j + 1:]
                if fails(cand):
                    cur, changed = cand, True
                    break
            if changed:
                break
    return cur, None


# ------------------------------------------------------------------ search on the real code
def corpus():
    p = common.VERIF / "harness/corpus/C14"
    return [json.loads(f.read_text()) for f in sorted(p.glob("*.json"))] if p.exists() else []


def search(ctx, budget_s):
    rng = ctx.rng
    t0 = time.time()
    seen = set()
    n = 0
    tmpdir = tempfile.mkdtemp(prefix="c14_", dir="/tmp")

    def report(evs, alias, call, r, do_shrink=True):
        if r[0] in seen:
            return
        seen.add(r[0])
        if do_shrink and r[0] != WRITE_KEY:
            small, al = shrink(evs, call, r[0], alias)
            r2 = run_call(small, call, alias=al)
            if r2 and r2[0] == r[0]:
                evs, alias, r = small, al, r2
        ctx.violation(r[0], r[1], dict(input=dict(events=evs, alias=alias, call=call), detail=r[2],
                                       how_to_replay="./check C14 --replay <this file>"))

    def report_reuse(evs, alias, history, r):
        key = f"instance-reuse-{history[-1]['method']}: {r[0]}"
        if key in seen:
            return
        seen.add(key)
        # drop earlier calls that are not needed for the failure
        hist = list(history)
        i = 0
        while i < len(hist) - 1:
            cand = hist[:i] + hist[i + 1:]
            rr = run_history(evs, cand, alias)
            if rr and rr[0] == len(cand) - 1 and rr[1][0] == r[0]:
                hist = cand
            else:
                i += 1

        def still(c, al=None):
            rr = run_history(c, hist, al)
            return bool(rr) and rr[0] == len(hist) - 1 and rr[1][0] == r[0] and \
                (r[0] == "earlier-result-changed" or run_call(c, hist[-1], alias=al) is None)

        evs, alias = shrink(evs, None, None, alias, fails=still)
        rr = run_history(evs, hist, alias)
        if rr:
            r = rr[1]
        ctx.violation(key, f"a BulkObservables object that already served {len(hist) - 1} call(s) gives a wrong answer where "
                           f"a fresh object is right: {r[1]}",
                      dict(input=dict(events=evs, alias=alias, history=hist), detail=r[2],
                           how_to_replay="./check C14 --replay <this file>  (runs the whole history on one object)"))

    try:
        for case in corpus():
            if "history" in case:
                rr = run_history(case["events"], case["history"], case.get("alias"), tmpdir)
                if rr:
                    bad = case["history"][rr[0]]
                    if rr[1][0] != "earlier-result-changed" and run_call(case["events"], bad, alias=case.get("alias")):  # a fresh object fails as well
                        report(case["events"], case.get("alias"), bad, rr[1], do_shrink=False)
                    else:
                        report_reuse(case["events"], case.get("alias"), case["history"][:rr[0] + 1], rr[1])
            else:
                r = run_call(case["events"], case["call"], tmpdir if case["call"]["method"] in DN_METHODS else None,
                             alias=case.get("alias"))
                if r:
                    report(case["events"], case.get("alias"), case["call"], r, do_shrink=False)
            n += 1
        # every binning flavour x method on the fixed sample
        for evs, meth, fv, v in type_flavour_block():
            pl = make_particles(evs)
            b = dict(kind="list", v=list(v), flavour=fv) if v is not None else gen_bins(rng, meth, quantity_values(pl, DN_METHODS[meth]), fv)
            r = oracle_dn(evs, meth, b, tmpdir)
            ctx.case(("oracle-flavour", meth, json.dumps(b)), True)
            ctx.count(f"oracle/{meth}/bins={fv}")
            if r:
                report(evs, None, dict(method=meth, bins=b), r)
        pats = empty_patterns()
        limit = 20000 if ctx.thorough else 1500
        while time.time() - t0 < budget_s and n < limit:
            if n < 2 * len(pats) and n % 2 == 0:
                evs, alias, tag = pats[n // 2 % len(pats)], None, "pattern"
            else:
                evs, alias, tag = gen_events(rng, allow_unset=False)
            pl = make_particles(evs, alias)
            calls = []
            for meth, qname in DN_METHODS.items():
                calls.append(dict(method=meth, bins=gen_bins(rng, meth, quantity_values(pl, qname))))
            flavour = rng.choice(FLAVOURS)
            w = gen_width(rng, quantity_values(pl, flavour))
            for meth in MID_METHODS:
                calls.append(dict(method=meth, y_width=w, quantity=flavour))
            # fresh object per call
            fresh_ok = []
            for call in calls:
                r = run_call(evs, call, tmpdir if call["method"] in DN_METHODS else None, alias)
                ctx.case(("oracle", json.dumps(call), json.dumps(evs), json.dumps(alias)), len(evs) >= 2)
                if call["method"] in DN_METHODS:
                    ctx.count(f"oracle/{call['method']}/bins={call['bins']['flavour']}")
                fresh_ok.append(r is None)
                if r:
                    report(evs, alias, call, r)
            ctx.count(f"oracle-sample/{tag}")
            # every second sample: a perturbed call sequence (build_history) on ONE long-lived object
            if n % 2 == 1:
                full = build_history(rng, calls, pl)
                pl2 = make_particles(evs, alias)
                shared = (pl2, new_bo(pl2))
                handed = []
                history = []
                for call in full:
                    history.append(call)
                    r = run_call(evs, call, tmpdir if call["method"] in DN_METHODS else None, alias, shared, handed)
                    r = r or check_handed(handed)
                    ctx.case(("oracle-reuse", json.dumps(history), json.dumps(evs)), len(evs) >= 2)
                    if call.get("mutate"):
                        ctx.count(f"oracle-reuse/result-mutated/{call['mutate'].split(':')[0]}")
                    if r and r[0] == "earlier-result-changed":
                        report_reuse(evs, alias, history, r)
                        break
                    if r:
                        plain = {k: v for k, v in call.items() if k != "mutate"}
                        if run_call(evs, plain, alias=alias) is None:  # a fresh object answers this call correctly
                            report_reuse(evs, alias, history, r)
                        else:
                            report(evs, alias, plain, r)
                        break
                ctx.count("oracle-sample/reused-object-history")
                ctx.count("oracle-reuse/calls", len(history))
            n += 1
    finally:
        for f in os.listdir(tmpdir):
            os.unlink(os.path.join(tmpdir, f))
        os.rmdir(tmpdir)
    ctx.cov["oracle_samples"] = n
    ctx.count("oracle-samples", n)


def replay(ctx, path):
    d = json.loads(open(path).read())
    inp = d.get("input")
    if not inp:
        print(f"[C14] replay file names a broken obligation, not an input: {d.get('broken')}")
        return 1
    tmpdir = tempfile.mkdtemp(prefix="c14_", dir="/tmp")
    try:
        if "history" in inp:
            rr = run_history(inp["events"], inp["history"], inp.get("alias"), tmpdir)
            r = rr[1] if rr else None
            if rr:
                print(f"[C14] call {rr[0] + 1} of {len(inp['history'])} on the re-used object fails")
        else:
            r = run_call(inp["events"], inp["call"], tmpdir if inp["call"]["method"] in DN_METHODS else None,
                         alias=inp.get("alias"))
    finally:
        for f in os.listdir(tmpdir):
            os.unlink(os.path.join(tmpdir, f))
        os.rmdir(tmpdir)
    if r:
        print(f"VIOLATION property=C14 replay={path}")
        print(r[1])
        return 1
    print("[C14] replay: property holds on this input now")
    return 0
