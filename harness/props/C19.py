"""C19 — centrality classification is total, monotone and consistent with its sample.  Ties T + C (exact, order-only).

Tie T: harness/translate/centrality.py regenerates Gen/Centrality.lean (`genBuild`, `genClassLoop`, `genRank`,
`genLookup`, `genLookupLoop`) from the current source of `__create_centrality_classes` / `get_centrality_class`;
Lemmas/CentralityGen.lean proves them equal to the hand-written model.  Tie C: the hand-written model (`pipe`) AND the
generated functions (`gpipe`, cut indices evaluated by the driver at Float through the generated expression) are run by
the driver and compared with the real class.

Multiplicities are multiples of 1/2 and travel to the Lean driver as the integers 2*m; percentile edges travel as
the bit pattern of their double (strictly monotone on non-negative doubles).  The rank boundaries
R_j = int(n * c_j / 100.0) are computed here with Python's float arithmetic and handed to the model as a table
(the theorems take them as inputs); their contract (non-decreasing, <= n, < n except the last) is checked per case.
"""
import ast
import json
import math
import struct
import time
import warnings

import numpy as np

import common

warnings.filterwarnings("ignore")

INF = float("inf")


# ------------------------------------------------------------------ keys (strictly monotone maps to int)
def mkey(m) -> int:
    """multiplicity (multiple of 1/2) -> integer"""
    k = float(m) * 2.0
    assert k == int(k), m
    return int(k)


def ekey(c) -> int:
    """percentile edge (any finite double / int) -> integer, strictly monotone, -0.0 == 0.0, 10 == 10.0"""
    f = float(c)
    if f == 0.0:
        return 0
    b = struct.unpack("<q", struct.pack("<d", abs(f)))[0]
    return b if f > 0 else -b


def rank_of(n: int, c) -> int:
    """the expression of the source: int(number_events * centrality_bins_[i] / 100.0)"""
    return int(n * c / 100.0)


def ilist(xs) -> str:
    return ";".join(str(int(x)) for x in xs)


# ------------------------------------------------------------------ real code
def real_obj(sample, edges):
    from sparkx.CentralityClasses import CentralityClasses
    e = list(edges) if not isinstance(edges, np.ndarray) else edges.copy()  # the constructor sorts in place
    return CentralityClasses(events_multiplicity=sample, centrality_bins=e)


def real_cls(obj, q):
    try:
        c = obj.get_centrality_class(q)
    except IndexError:
        return "E"
    if isinstance(c, bool) or not isinstance(c, (int, np.integer)):
        return f"?{c!r}"
    return str(int(c))


def show(xs):
    xs = list(xs)
    return ";".join(xs) if xs else "-"


def real_canon(sample, edges, queries):
    """canonical text of what the real class does, in the driver's answer format"""
    try:
        obj = real_obj(sample, edges)
    except ValueError:
        return "err value", None
    except IndexError:
        return "err index", None
    mins = ["inf" if m == INF else str(mkey(m)) for m in obj.dNchdetaMin_]
    maxs = [str(mkey(m)) for m in obj.dNchdetaMax_]
    bins = [str(ekey(c)) for c in obj.centrality_bins_]
    cls = [real_cls(obj, q) for q in queries]
    return f"ok {show(bins)} {show(mins)} {show(maxs)} {show(cls)}", obj


# ------------------------------------------------------------------ generators
def gen_sample(rng, allow_bad=True):
    u = rng.random()
    if allow_bad and u < 0.04:
        n = rng.randint(0, 3)
    elif u < 0.70:
        n = rng.randint(4, 12)
    else:
        n = rng.randint(13, 40)
    style = rng.choice(["ties", "ties", "distinct", "allequal", "twolevel", "wide", "halves"])
    if style == "ties":
        span = rng.randint(1, max(1, n // 2 + 1))
        xs = [rng.randint(0, span) for _ in range(n)]
    elif style == "distinct":
        xs = rng.sample(range(0, 3 * n + 5), n)
    elif style == "allequal":
        xs = [rng.randint(0, 9)] * n
    elif style == "twolevel":
        a, b = rng.randint(0, 5), rng.randint(0, 50)
        xs = [rng.choice([a, b]) for _ in range(n)]
    elif style == "wide":
        xs = [int(rng.expovariate(1 / 40.0)) for _ in range(n)]
    else:
        xs = [rng.randint(0, 2 * n) / 2.0 for _ in range(n)]
    if allow_bad and n and rng.random() < 0.03:
        xs[rng.randrange(n)] = -rng.randint(1, 3)
    return xs, style


def gen_edges(rng, n, allow_bad=True):
    """returns (raw edge list, tags)"""
    tags = []
    u = rng.random()
    style = rng.choice(["regular", "randint", "randint", "narrowfirst", "narrowfirst", "float", "narrowmid"])
    k = rng.randint(1, 6)  # classes
    if style == "regular":
        es = [100.0 * i / k for i in range(k + 1)]
        es = [int(e) if e == int(e) else e for e in es]
    elif style == "randint":
        inner = sorted(rng.sample(range(1, 100), min(k - 1, 99))) if k > 1 else []
        es = [0] + inner + [100]
    elif style == "narrowfirst":
        # first class(es) narrower than one event: n*c/100 < 1
        lim = 100.0 / max(n, 1)
        small = sorted({rng.choice([1, 2, 3, 5, 0.5, 0.1, max(1, int(lim) - 1), max(1, int(lim))]) for _ in range(rng.randint(1, 2))})
        small = [c for c in small if c < 100]
        pop = range(int(max(small, default=0)) + 1, 100)
        rest = sorted(rng.sample(pop, max(0, min(k - 1 - len(small), 3, len(pop))))) if k > 1 else []
        es = [0] + small + rest + [100]
    elif style == "narrowmid":
        a = rng.randint(5, 90)
        es = sorted({0, a, a + rng.choice([1, 2, 0.5]), rng.randint(a + 3, 100), 100})
    else:
        pool = [2.5, 12.5, 33.3, 66.6, 99.9, 0.7, 29.0, 57.5, 7.25, 50.0, 10.0, 90.0]
        es = sorted({0.0, 100.0, *rng.sample(pool, min(k - 1, len(pool)))}) if k > 1 else [0.0, 100.0]
    if rng.random() < 0.12 and len(es) > 2:
        es = es[1:]
        tags.append("first>0")
    if rng.random() < 0.12 and len(es) > 2:
        es = es[:-1]
        tags.append("last<100")
    if rng.random() < 0.3 and len(es) > 1:
        for _ in range(rng.randint(1, 2)):
            c = rng.choice(es)
            c2 = float(c) if isinstance(c, int) and rng.random() < 0.5 else c
            es.insert(rng.randrange(len(es) + 1), c2)
        tags.append("dup")
        if all(es[i] <= es[i + 1] for i in range(len(es) - 1)):
            tags.append("dup-sorted")
    if rng.random() < 0.3 and len(es) > 1:
        rng.shuffle(es)
        if not all(es[i] <= es[i + 1] for i in range(len(es) - 1)):
            tags.append("unsorted")
    if allow_bad:
        v = rng.random()
        if v < 0.02:
            es = [rng.choice(es)]
            tags.append("one-edge")
        elif v < 0.03:
            es = []
            tags.append("no-edge")
        elif v < 0.06:
            es.insert(rng.randrange(len(es) + 1), rng.choice([-5, 120, 100.5, -0.5]))
            tags.append("out-of-range")
    return es, tags


def gen_queries(rng, sample):
    ks = {mkey(x) for x in sample}
    qs = set()
    for k in ks:
        qs.update((k - 1, k, k + 1))
    top = max(0, max(ks)) if ks else 0
    qs.update((0, top + 2, top + 20, rng.randint(0, top + 4)))
    qs = sorted(q for q in qs if q >= 0)
    return qs


def as_py(k, rng=None):
    """integer key -> the multiplicity handed to the real code (int or float)"""
    if k % 2 == 0 and (rng is None or rng.random() < 0.6):
        return k // 2
    return k / 2.0


def features(sample, edges):
    """branch tags of one (admissible) case, computed from ranks only"""
    n = len(sample)
    tags = []
    try:
        cl = sorted({float(e) for e in edges})
    except Exception:
        return ["?"]
    if n < 4 or any(x < 0 for x in sample) or any(c < 0 or c > 100 for c in cl) or len(cl) < 2:
        return ["inadmissible"]
    R = [rank_of(n, c) for c in cl]
    srt = sorted(sample, reverse=True)
    if R[0] == 0 and any(r == 0 for r in R[1:]):
        tags.append("empty-leading")
    if any(R[i] == R[i + 1] and R[i] > 0 for i in range(len(R) - 1)):
        tags.append("empty-middle")
    if any(0 < R[i] < n and srt[R[i] - 1] == srt[R[i]] for i in range(1, len(R) - 1)):
        tags.append("tie-at-boundary")
    w = {R[i + 1] - R[i] for i in range(len(R) - 1)}
    if len(w) > 1:
        tags.append("uneven")
    if any(0 < x <= 2 for x in w):
        tags.append("few-per-class")
    return tags


# ------------------------------------------------------------------ correspondence (tie C)
def build_line(variant, sample, edges, queries):
    n = len(sample)
    table = {}
    for c in edges:
        k = ekey(c)
        r = rank_of(n, c) if 0 <= float(c) <= 100 else 0
        if k in table and table[k] != r:
            raise AssertionError(f"equal edges with different ranks: {c!r}")
        table[k] = max(r, 0)
    tb = ";".join(f"{k}:{r}" for k, r in table.items())
    return (f"pipe\t{variant}\t0\t{ilist(mkey(x) for x in sample)}\t{ekey(0.0)}\t{ekey(100.0)}\t"
            f"{ilist(ekey(c) for c in edges)}\t{tb}\t{ilist(queries)}")


def gen_line(sample, edges, queries):
    """the same case for the GENERATED functions: no rank table, the driver evaluates the generated cut-index
    expression at Float from the edges' bit patterns"""
    return (f"gpipe\t0\t{ilist(mkey(x) for x in sample)}\t{ekey(0.0)}\t{ekey(100.0)}\t"
            f"{ilist(ekey(c) for c in edges)}\t{ilist(queries)}")


def check_contract(ctx, sample, obj):
    n = len(sample)
    R = [rank_of(n, c) for c in obj.centrality_bins_]
    ok = all(R[i] <= R[i + 1] for i in range(len(R) - 1)) and all(0 <= r <= n for r in R) and all(r < n for r in R[:-1])
    ctx.count("rank-contract-ok" if ok else "rank-contract-VIOLATED")
    if not ok:
        ctx.notes.append(f"rank boundaries outside the theorem's hypotheses: n={n} bins={obj.centrality_bins_} R={R}")
    from fractions import Fraction
    if any(math.floor(Fraction(n) * Fraction(float(c)) / 100) != r for c, r in zip(obj.centrality_bins_, R)):
        ctx.count("float-rank-differs-from-exact-floor")


def one_case(rng, allow_bad=True):
    sample, sstyle = gen_sample(rng, allow_bad)
    edges, etags = gen_edges(rng, len(sample), allow_bad)
    queries = gen_queries(rng, sample)
    return sample, edges, queries, sstyle, etags


def exhaustive_cases():
    """small scope: every sample of 4 and 5 events over {0,1,2} x a fixed family of edge lists"""
    import itertools
    fam = [[0, 100], [0, 50, 100], [0, 10, 50, 100], [0, 25, 50, 75, 100], [0, 10, 20, 100], [0, 30, 40, 100],
           [100, 50, 0, 50], [20, 60, 100], [0, 40, 80], [0, 5, 10, 60, 100]]
    for n in (4, 5):
        for xs in itertools.product((0, 1, 2), repeat=n):
            for es in fam:
                yield list(xs), list(es)


def correspond(ctx):
    rng = ctx.rng
    ctx.rule = ("random samples (0-40 events; ties / distinct / all equal / two levels / wide / half-integers; "
                "int, float and numpy inputs) x edge lists (1-6 classes; regular / random / first or middle class narrower "
                "than one event / non-integer percentiles; unsorted, duplicated, not starting at 0 or not ending at 100, "
                "plus a malformed stream: <4 events, negative multiplicity, <2 edges, out-of-range edge); every sample "
                "value and its neighbours +-1/2, 0 and values above the maximum are queried. non-trivial = admissible "
                "case with a tie across a class boundary, an empty rank interval, uneven classes, or unsorted/duplicated "
                "edges; distinct by canonical input. Thorough adds all samples of 4-5 events over {0,1,2} x 10 edge lists.")
    ctx.assumptions.append("C19: rank boundaries int(n*c/100.0) are evaluated by Python and handed to the model; per case the "
                           "harness checks they are non-decreasing, <= n, and < n except the last (hypotheses of the theorems)")
    ncases = ctx.n(500, 20000)
    cases = []
    for case in corpus():
        cases.append((case["sample"], case["edges"], gen_queries(rng, case["sample"]), "corpus", []))
    for _ in range(ncases):
        cases.append(one_case(rng))
    if ctx.thorough:
        for xs, es in exhaustive_cases():
            cases.append((xs, es, gen_queries(rng, xs), "exhaustive", []))
    lines, metas = [], []
    for sample, edges, queries, sstyle, etags in cases:
        mode = rng.choice(["int", "mixed", "float", "numpy"])
        if mode == "int" and all(mkey(x) % 2 == 0 for x in sample):
            s_py = [int(x) for x in sample]
        elif mode == "float":
            s_py = [float(x) for x in sample]
        elif mode == "numpy" and sample:
            s_py = np.array([float(x) for x in sample])
        else:
            s_py = [as_py(mkey(x), rng) for x in sample]
        e_py = np.array([float(c) for c in edges]) if (edges and rng.random() < 0.1) else list(edges)
        q_py = [as_py(q, rng) for q in queries]
        lines.append(build_line("fix", sample, edges, queries))
        metas.append((sample, edges, queries, s_py, e_py, q_py, sstyle, etags))
    outs = common.run_driver("C19", lines)
    gouts = common.run_driver("C19", [gen_line(*m[:3]) for m in metas])
    nbroken = 0
    mism = []
    gmism = []
    for i, (meta, out) in enumerate(zip(metas, outs)):
        sample, edges, queries, s_py, e_py, q_py, sstyle, etags = meta
        real, obj = real_canon(s_py, e_py, q_py)
        feats = features(sample, edges)
        nontriv = feats != ["inadmissible"] and bool(set(feats) & {"tie-at-boundary", "empty-leading", "empty-middle", "uneven"}
                                                     or set(etags) & {"unsorted", "dup"})
        canon = (tuple(mkey(x) for x in sample), tuple(ekey(c) for c in edges))
        ctx.case(canon, nontriv, sample=dict(sample=[float(x) for x in sample], edges=[float(c) for c in edges],
                                             code=real, model=out) if nontriv else None)
        ctx.count(f"sample/{sstyle}")
        ctx.count("n/" + ("<4" if len(sample) < 4 else "4-12" if len(sample) <= 12 else "13-40"))
        for t in feats + etags:
            ctx.count("feat/" + t)
        ctx.count("answer/" + real.split(" ")[0] + ("-" + real.split(" ")[1] if real.startswith("err") else ""))
        if obj is not None:
            check_contract(ctx, sample, obj)
            ctx.count(f"classes/{len(obj.dNchdetaMin_)}")
        if real != out:
            mism.append(i)
            nbroken += 1
        if real != gouts[i]:
            gmism.append(i)
    ctx.cov["generated_model_mismatches"] = len(gmism)
    if gmism:
        i = gmism[0]
        sample, edges, queries = metas[i][:3]
        real, _ = real_canon(metas[i][3], metas[i][4], metas[i][5])
        ctx.brk("correspondence-broken",
                f"generated model (Gen/Centrality.lean, cut indices at Float): {len(gmism)} of {len(metas)} cases differ; "
                f"first: sample={sample} edges={edges}: code `{real}` vs generated `{gouts[i]}`",
                case=dict(sample=[float(x) for x in sample], edges=[float(c) for c in edges], queries=queries,
                          code=real, model=gouts[i]))
    if mism:
        # classify: does the real code behave like the model of the code before the repair?
        wl = [build_line("wrap", *metas[i][:3]) for i in mism[:200]]
        wouts = common.run_driver("C19", wl)
        like_wrap = sum(1 for i, w in zip(mism[:200], wouts) if real_canon(metas[i][3], metas[i][4], metas[i][5])[0] == w)
        i = mism[0]
        sample, edges, queries = metas[i][:3]
        real, _ = real_canon(metas[i][3], metas[i][4], metas[i][5])
        ctx.brk("correspondence-broken",
                f"{nbroken} of {len(metas)} cases differ; first: sample={sample} edges={edges}: code `{real}` vs model `{outs[i]}`"
                + (f"; {like_wrap} of the first {len(wl)} differing cases agree with the pre-repair model "
                   f"(record[MaxRecord-1] with negative-index wrap)" if like_wrap else ""),
                case=dict(sample=[float(x) for x in sample], edges=[float(c) for c in edges], queries=queries,
                          code=real, model=outs[i]))
    ctx.cov["correspondence_mismatches"] = nbroken


# ------------------------------------------------------------------ oracle on the real code (independent of the model)
def admissible(sample, edges):
    try:
        cl = {float(c) for c in edges}
    except Exception:
        return False
    return len(sample) >= 4 and all(x >= 0 for x in sample) and all(0 <= c <= 100 for c in cl) and len(cl) >= 2


def oracle_check(sample, edges):
    """None, or (key, what, detail) when the real code violates the property on this admissible input.
    Rank-based definition: class i owns the descending ranks [R_i, R_{i+1}), R_j = int(n*c_j/100.0) over the sorted
    distinct edges."""
    if not admissible(sample, edges):
        return None
    n = len(sample)
    cleaned = sorted({float(c) for c in edges})
    R = [rank_of(n, c) for c in cleaned]
    N = len(cleaned) - 1
    srt = sorted(sample, reverse=True)
    leading = R[0] == 0 and R[1] == 0
    inp = dict(sample=list(sample), edges=list(edges))
    try:
        obj = real_obj(list(sample), list(edges))
        bins = [float(c) for c in obj.centrality_bins_]
        if bins != cleaned:
            return ("clean-invariance", f"centrality_bins_ {bins} is not the sorted duplicate-free edge list {cleaned}",
                    dict(expected=cleaned, observed=bins))
        vals = sorted({float(x) for x in sample})
        qs = {0.0, vals[-1] + 1.0, vals[-1] + 100.0}
        for a in vals:
            qs.update((a, a + 0.5, max(0.0, a - 0.5)))
        qs = sorted(qs)
        cls = {}
        for q in qs:
            c = obj.get_centrality_class(q)
            if isinstance(c, bool) or not isinstance(c, (int, np.integer)) or not (0 <= c < N):
                return ("total", f"get_centrality_class({q}) = {c!r}, not a class index in 0..{N - 1}",
                        dict(query=q, observed=repr(c), classes=N))
            cls[q] = int(c)
        for a, b in zip(qs, qs[1:]):
            if cls[b] > cls[a]:
                return ("monotone" + (":leading-class-narrower-than-one-event" if leading else ""),
                        f"multiplicity {b} > {a} is assigned the more peripheral class {cls[b]} > {cls[a]}",
                        dict(queries=[a, b], observed=[cls[a], cls[b]]))
        for i in range(N):
            for r in range(R[i], R[i + 1]):
                x = float(srt[r])
                c = cls[x]
                tie_prev = R[i] > 0 and srt[R[i] - 1] == srt[r]
                if not (c == i or (c < i and tie_prev)):
                    return ("rank-consistency" + (":leading-class-narrower-than-one-event" if leading else ""),
                            f"event of descending rank {r} (multiplicity {x}) lies in the rank interval [{R[i]},{R[i+1]}) of class {i} "
                            f"but is assigned class {c}" + ("" if tie_prev else " and is not tied with the event before the interval"),
                            dict(rank=r, multiplicity=x, expected_class=i, observed_class=c, rank_boundaries=R,
                                 dNchdetaMin_=[float(m) for m in obj.dNchdetaMin_]))
        for i in range(N):
            if R[i] < R[i + 1]:
                seg = srt[R[i]:R[i + 1]]
                if obj.dNchdetaMin_[i] != min(seg) or obj.dNchdetaMax_[i] != max(seg):
                    return ("min-max", f"class {i}: stored (min,max)=({obj.dNchdetaMin_[i]},{obj.dNchdetaMax_[i]}) but its rank interval "
                            f"[{R[i]},{R[i+1]}) holds {seg}", dict(cls=i, expected=[min(seg), max(seg)],
                                                                  observed=[float(obj.dNchdetaMin_[i]), float(obj.dNchdetaMax_[i])]))
        obj2 = real_obj(list(sample), list(cleaned))
        if ([float(m) for m in obj2.dNchdetaMin_] != [float(m) for m in obj.dNchdetaMin_]
                or [float(m) for m in obj2.dNchdetaMax_] != [float(m) for m in obj.dNchdetaMax_]
                or any(obj2.get_centrality_class(q) != cls[q] for q in qs)):
            return ("clean-invariance", f"edges {list(edges)} and their cleaned form {cleaned} give different classes",
                    dict(raw_min=[float(m) for m in obj.dNchdetaMin_], clean_min=[float(m) for m in obj2.dNchdetaMin_]))
    except Exception as e:  # an admissible input must not raise
        return ("exception", f"admissible input raises {type(e).__name__}: {e}", dict(exception=type(e).__name__))
    return None


def shrink(sample, edges, key):
    cur_s, cur_e = list(sample), list(edges)

    def bad(s, e):
        r = oracle_check(s, e)
        return r is not None and r[0] == key

    changed = True
    while changed:
        changed = False
        for i in range(len(cur_s)):
            if len(cur_s) > 4:
                c = cur_s[:i] + cur_s[i + 1:]
                if bad(c, cur_e):
                    cur_s, changed = c, True
                    break
        if changed:
            continue
        for i in range(len(cur_e)):
            if len(cur_e) > 2:
                c = cur_e[:i] + cur_e[i + 1:]
                if bad(cur_s, c):
                    cur_e, changed = c, True
                    break
        if changed:
            continue
        # compress the values to their dense ranks
        vals = sorted(set(cur_s))
        dense = [vals.index(x) for x in cur_s]
        if dense != cur_s and bad(dense, cur_e):
            cur_s, changed = dense, True
            continue
        if cur_e != sorted(set(cur_e)) and bad(cur_s, sorted(set(cur_e))):
            cur_e, changed = sorted(set(cur_e)), True
    return cur_s, cur_e


def search(ctx, budget_s):
    rng = ctx.rng
    t0 = time.time()
    n = 0
    found = set()

    def report(sample, edges, r):
        if r[0] in found:
            return
        found.add(r[0])
        s, e = shrink(sample, edges, r[0])
        r2 = oracle_check(s, e) or r
        ctx.violation(r2[0], r2[1], dict(input=dict(sample=s, edges=e), detail=r2[2],
                                         how_to_replay="./check C19 --replay <this file>"))

    for case in corpus():
        r = oracle_check(case["sample"], case["edges"])
        n += 1
        if r:
            report(case["sample"], case["edges"], r)
    # region where model and code first differed
    for b in ctx.broken:
        c = b.get("case")
        if c and "sample" in c:
            r = oracle_check(c["sample"], c["edges"])
            n += 1
            if r:
                report(c["sample"], c["edges"], r)
    if ctx.thorough or ctx.broken:
        for xs, es in exhaustive_cases():
            if time.time() - t0 > budget_s / 2:
                break
            r = oracle_check(xs, es)
            n += 1
            if r:
                report(xs, es, r)
    limit = 30000 if ctx.thorough else 1500
    while time.time() - t0 < budget_s and n < limit and len(found) < 3:
        sample, edges, _, _, _ = one_case(rng, allow_bad=False)
        if not admissible(sample, edges):
            continue
        r = oracle_check(sample, edges)
        n += 1
        ctx.case(("oracle", tuple(sample), tuple(edges)), bool(set(features(sample, edges)) & {"tie-at-boundary", "empty-leading", "empty-middle", "uneven"}))
        if r:
            report(sample, edges, r)
    ctx.cov["oracle_cases"] = n
    ctx.count("oracle", n)


def corpus():
    p = common.VERIF / "harness/corpus/C19"
    out = []
    if p.exists():
        for f in sorted(p.glob("*.json")):
            d = json.loads(f.read_text())
            out.append(d.get("input", d))
    return out


def replay(ctx, path):
    d = json.loads(open(path).read())
    inp = d.get("input")
    if not inp:
        c = (d.get("broken") or [{}])[0].get("case")
        if not c:
            print(f"[C19] replay file names a broken obligation, not an input: {d.get('broken')}")
            return 1
        inp = c
    sample, edges = inp["sample"], inp["edges"]
    qs = gen_queries(ctx.rng, sample)
    real, _ = real_canon([as_py(mkey(x)) for x in sample], list(edges), [as_py(q) for q in qs])
    model, gmodel = common.run_driver("C19", [build_line("fix", sample, edges, qs), gen_line(sample, edges, qs)])
    print(f"[C19] sample={sample} edges={edges}\n[C19] code : {real}\n[C19] model: {model}\n[C19] gen  : {gmodel}")
    r = oracle_check(sample, edges)
    if r:
        print(f"VIOLATION property=C19 replay={path}")
        print(r[1])
        return 1
    if real != model or real != gmodel:
        print("[C19] replay: the property holds on this input but code and model differ (correspondence broken)")
        return 1
    print("[C19] replay: property holds on this input now")
    return 0


# ------------------------------------------------------------------ translator (tie T)
def translate(ctx):
    """Gen/Centrality.lean from the current `__create_centrality_classes` / `get_centrality_class` (and the checked part
    of `__init__`).  Raises Untranslatable when the source has left the fragment (golden fallback, tie C only)."""
    from translate import centrality
    src = common.read_src("CentralityClasses.py")
    golden = common.LEAN / "golden/Gen/Centrality.lean"
    gi = centrality.golden_init_section(golden.read_text()) if golden.exists() else None
    text, regions = centrality.render(src, golden_init=gi)
    common.write_if_changed(common.LEAN / "SparkxVerif/Gen/Centrality.lean", text)
    ctx.cov["gen_equals_golden"] = golden.exists() and golden.read_text() == text
    init_t = regions[2]["tie"].startswith("T")
    ctx.cov["tie"] = ("T + C: __create_centrality_classes (guards, ranking, cut-index expression, class loop, stored "
                      "min/max), get_centrality_class" + (" and the edge cleaning of __init__" if init_t else "") +
                      " regenerated and proved equal to the model; the float evaluation of int(n*c/100.0)" +
                      ("" if init_t else " and the edge cleaning of __init__ (golden model, translator could not re-derive)") +
                      " by correspondence")
    if not init_t:
        # region-wise golden fallback (DESIGN 2.1 (i)) for the edge cleaning: the correspondence run is enlarged as it
        # is when the whole translator falls back
        ctx.fallback = True
        ctx.cov["golden_restored"] = ["Centrality.lean: __init__ section"]
        ctx.notes.append("edge cleaning of __init__ is outside the translated fragment: " + regions[2]["tie"])
    return regions
