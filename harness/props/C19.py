"""C19 — centrality classification is total, monotone and consistent with its sample.  Ties T + C (exact, order-only).

Tie T: harness/translate/centrality.py regenerates Gen/Centrality.lean (`genBuild`, `genClassLoop`, `genRank`,
`genLookup`, `genLookupLoop`) from the current source of `__create_centrality_classes` / `get_centrality_class`;
Lemmas/CentralityGen.lean proves them equal to the hand-written model.  Tie C: the hand-written model (`pipe`) AND the
generated functions (`gpipe`, cut indices evaluated by the driver at Float through the generated expression) are run by
the driver and compared with the real class.

LOGICAL values and REPRESENTATIONS are kept apart.  A case is a list of logical multiplicities (exact Python ints /
Fractions, multiples of 1/2, of any magnitude), a list of logical percentile edges (exact values of doubles) and
logical queries; the model, the reference and the oracle work on these exact numbers (multiplicities travel to the Lean
driver as the integers 2*m, edges as the bit pattern of their double).  What the REAL class is handed is a
representation of them chosen per case: Python lists (and tuples -> documented TypeError) of ints / floats / bools /
numpy scalars of every dtype, homogeneous or mixed, ndarrays of every integer dtype (int8..int64, uint8..uint64, bool)
and float16/32/64, read-only and non-contiguous (strided view) arrays, values near the dtype limits and zeros, very
large Python ints; every query is a scalar of one of those types.  One restriction, stated in the rule: all numbers
that the code compares with each other in one case are exactly representable in every floating type that occurs among
them (so magnitudes above 2^53 meet integer-kind scalars only, and int64 is not mixed with uint64 there): numpy's
lossy int<->float comparison is outside the property's domain.  The rank boundaries
R_j = int(n * c_j / 100.0) are computed here with Python's float arithmetic and handed to the model as a table
(the theorems take them as inputs); their contract (non-decreasing, <= n, < n except the last) is checked per case.
"""
import ast
import contextlib
import copy
import functools
import json
import math
import os
import pickle
import random as _random
import shutil
import struct
import tempfile
import time
import warnings
from fractions import Fraction

import numpy as np

import common

warnings.filterwarnings("ignore")
np.seterr(all="ignore")

INF = float("inf")
TWO53 = 2 ** 53
INT_DT = ["int8", "uint8", "int16", "uint16", "int32", "uint32", "int64", "uint64"]
FLT_DT = ["float16", "float32", "float64"]
FLOAT_TYPES = ["float"] + ["np." + d for d in FLT_DT]
INT_TYPES = ["int", "bool", "np.bool_"] + ["np." + d for d in INT_DT]
SIGNED_NP = ["np.int8", "np.int16", "np.int32", "np.int64"]


# ------------------------------------------------------------------ logical values (exact) and their representations
def exact(x) -> Fraction:
    """the exact value of any scalar the class may be handed or may return"""
    if isinstance(x, Fraction):
        return x
    if isinstance(x, (bool, np.bool_)):
        return Fraction(int(x))
    if isinstance(x, (int, np.integer)):
        return Fraction(int(x))
    if isinstance(x, (float, np.floating)):
        return Fraction(float(x))          # float16 / float32 -> double is exact
    if isinstance(x, str):
        return Fraction(x)
    raise TypeError(f"not a number of the fragment: {x!r}")


def lv(x):
    """logical value: Python int when integral, else Fraction"""
    f = exact(x)
    return int(f) if f.denominator == 1 else f


def jv(v):
    """JSON form of a logical value (int, exact float, or 'p/q')"""
    f = exact(v)
    if f.denominator == 1:
        return int(f)
    try:
        if Fraction(float(f)) == f:
            return float(f)
    except OverflowError:
        pass
    return str(f)


def can(t: str, v) -> bool:
    """is the logical value v exactly representable as a scalar of type t"""
    return _can(t, exact(v))


@functools.lru_cache(maxsize=200000)
def _can(t: str, f: Fraction) -> bool:
    if t == "int":
        return f.denominator == 1
    if t in ("bool", "np.bool_"):
        return f in (0, 1)
    if t == "float" or t == "np.float64":
        try:
            return Fraction(float(f)) == f
        except OverflowError:
            return False
    dt = t[3:]
    if dt in INT_DT:
        ii = np.iinfo(dt)
        return f.denominator == 1 and ii.min <= f <= ii.max
    if dt in FLT_DT:
        try:
            d = float(f)
        except OverflowError:
            return False
        if Fraction(d) != f:
            return False
        r = np.dtype(dt).type(d)
        return bool(np.isfinite(r)) and Fraction(float(r)) == f
    raise ValueError(t)


def mk(t: str, v):
    """the scalar of type t holding the logical value v (caller checked `can`)"""
    f = exact(v)
    if t == "int":
        return int(f)
    if t == "bool":
        return bool(int(f))
    if t == "float":
        return float(f)
    if t == "np.bool_":
        return np.bool_(bool(int(f)))
    dt = t[3:]
    if dt in INT_DT:
        return np.dtype(dt).type(int(f))
    return np.dtype(dt).type(float(f))


def palette(vals, family=None):
    """scalar types that may occur together in one group of mutually compared numbers: every floating type must hold
    ALL values of the group exactly; when some value is not a double, int64-family and uint64 are not mixed (numpy
    compares them in float64).  family: 'intkind' (no floating type at all) | 'u64' | 'signed' | None"""
    F = [] if family == "intkind" else [t for t in FLOAT_TYPES if all(can(t, v) for v in vals)]
    I = list(INT_TYPES)
    if any(exact(v) >= 2 ** 63 for v in vals):
        # numpy cannot compare np.bool_ with a Python int outside the C long range (OverflowError)
        I.remove("np.bool_")
    if any(exact(v) >= 2 ** 64 for v in vals):
        # no numpy integer type holds such a value: np.mean / np.array of a list that mixes it with numpy integer
        # scalars raises OverflowError; Python ints beyond 64 bits are generated in lists of Python numbers only
        I = [t for t in I if not t.startswith("np.")]
    if not all(can("np.float64", v) for v in vals):
        if family == "u64":
            I = [t for t in I if t not in SIGNED_NP]
        else:
            I = [t for t in I if t != "np.uint64"]
    return F + I


def eligible(pal, v):
    return [t for t in pal if can(t, v)]


REJECTED = ("tuple", "gen", "iter", "map")   # not `list` / `numpy.ndarray`: the documented TypeError


class SubArr(np.ndarray):
    """a trivial ndarray subclass (isinstance(x, np.ndarray) holds)"""


def choose_rep(rng, vals, pal, allow_tuple=True):
    """a representation (JSON-able spec) of the list of logical values, drawn from the palette"""
    opts = []
    for t in pal:
        if vals and all(can(t, v) for v in vals):
            opts.append((dict(c="list", t=[t] * len(vals)), 3.0 if t in ("int", "float") else 1.0))
            if t.startswith("np."):
                opts.append((dict(c="nd", t=t[3:].rstrip("_")), 2.5))
    if all(eligible(pal, v) for v in vals):
        opts.append((dict(c="list", t=None), 5.0))
        opts.append((dict(c="ndobj", t=None), 1.5))      # ndarray of dtype object holding the same scalars
    if not opts:
        return None
    spec = dict(rng.choices([o for o, _ in opts], weights=[w for _, w in opts])[0])
    if spec["c"] in ("list", "ndobj") and spec["t"] is None:
        spec["t"] = [rng.choice(eligible(pal, v)) for v in vals]
    if spec["c"] == "nd":
        spec["ro"] = rng.random() < 0.25
        spec["nc"] = rng.random() < 0.25
        spec["sub"] = rng.random() < 0.12
    elif spec["c"] == "list" and allow_tuple and rng.random() < 0.03:
        spec["c"] = rng.choice(REJECTED)
    return spec


def plain_rep(vals):
    """the plainest representation: a list of Python ints / floats"""
    return dict(c="list", t=["int" if can("int", v) else "float" for v in vals])


def build_rep(spec, vals):
    """the Python object for the logical values under the spec (a fresh object on every call: the class may sort its
    argument in place)"""
    if spec["c"] in ("list", "ndobj") + REJECTED:
        xs = [mk(t, v) for t, v in zip(spec["t"], vals)]
        if len(xs) != len(vals) or len(spec["t"]) != len(vals):
            raise ValueError("spec / value length mismatch")
        if spec["c"] == "ndobj":
            arr = np.empty(len(xs), dtype=object)
            for i, x in enumerate(xs):
                arr[i] = x
            return arr
        return {"list": lambda: xs, "tuple": lambda: tuple(xs), "gen": lambda: (x for x in xs),
                "iter": lambda: iter(xs), "map": lambda: map(lambda x: x, xs)}[spec["c"]]()
    dt = spec["t"]
    t = "np.bool_" if dt == "bool" else "np." + dt
    if not all(can(t, v) for v in vals):
        raise ValueError("value not representable in dtype " + dt)
    py = [int(exact(v)) if (dt in INT_DT or dt == "bool") else float(exact(v)) for v in vals]
    if spec.get("nc"):
        # a strided view into a larger buffer whose other entries are plausible multiplicities too
        n = len(py)
        base = np.zeros(2 * n + 1, dtype=dt)
        base[0::2] = np.array([py[(7 * i + 3) % n] for i in range(n + 1)] if n else [0], dtype=dt)
        base[1::2] = np.array(py, dtype=dt)
        arr = base[1::2]
    else:
        arr = np.array(py, dtype=dt)
    if spec.get("sub"):
        arr = arr.view(SubArr)
    if spec.get("ro"):
        arr.setflags(write=False)
    return arr


def rep_types(spec):
    if spec["c"] == "nd":
        return ["np.bool_" if spec["t"] == "bool" else "np." + spec["t"]]
    return sorted(set(spec["t"]))


def rep_tag(spec):
    if spec["c"] == "nd":
        return "nd:" + spec["t"] + ("+ro" if spec.get("ro") else "") + ("+nc" if spec.get("nc") else "") + \
            ("+sub" if spec.get("sub") else "")
    ts = set(spec["t"])
    return spec["c"] + ":" + (next(iter(ts)) if len(ts) == 1 else "mixed" if ts else "empty")


def family_of(spec, vals):
    """the palette family a representation belongs to (deterministic; used by the oracle and by replay)"""
    ts = rep_types(spec)
    fam = None
    if not any(t in FLOAT_TYPES for t in ts) and all(can("int", v) for v in vals) \
            and not all(can("np.float64", v) for v in vals):
        fam = "intkind"
    if "np.uint64" in ts and not any(t in SIGNED_NP for t in ts) and not all(can("np.float64", v) for v in vals):
        fam = "u64"
    return fam


# ------------------------------------------------------------------ keys (strictly monotone maps to int)
def mkey(m) -> int:
    """multiplicity (multiple of 1/2, any magnitude) -> integer"""
    k = exact(m) * 2
    assert k.denominator == 1, m
    return int(k)


def ekey(c) -> int:
    """percentile edge (exact value of a double) -> integer, strictly monotone, -0.0 == 0.0, 10 == 10.0 == np.int8(10)"""
    e = exact(c)
    f = float(e)
    assert Fraction(f) == e, c
    if f == 0.0:
        return 0
    b = struct.unpack("<q", struct.pack("<d", abs(f)))[0]
    return b if f > 0 else -b


def rank_of(n: int, c) -> int:
    """the expression of the source on the logical edge: int(number_events * float(edge) / 100.0) in doubles"""
    return int(n * float(exact(c)) / 100.0)


def ilist(xs) -> str:
    return ";".join(str(int(x)) for x in xs)


# ------------------------------------------------------------------ devices: copies, subclass, process environment
COPY_MODES = ["copy", "deepcopy", "pickle"]
NO_DEV = dict(ocopy=None, scopy=None, ecopy=None, sub=False, env=False, by=False)


def cp(obj, mode):
    """obj or one of its copies: copy.copy / copy.deepcopy / pickle round trip"""
    if not mode:
        return obj
    if mode == "copy":
        return copy.copy(obj)
    if mode == "deepcopy":
        return copy.deepcopy(obj)
    return pickle.loads(pickle.dumps(obj))


def gen_dev(rng):
    """which objects of the case are replaced by a copy before use, whether the class is a trivial subclass, whether
    the calls run in an unusual process environment"""
    return dict(ocopy=rng.choice(COPY_MODES) if rng.random() < 0.35 else None,
                scopy=rng.choice(COPY_MODES) if rng.random() < 0.12 else None,
                ecopy=rng.choice(COPY_MODES) if rng.random() < 0.12 else None,
                sub=rng.random() < 0.15, env=rng.random() < 0.10, by=rng.random() < 0.30)


def dev_tag(dev):
    return "+".join([f"{k}={v}" for k, v in dev.items() if v]) or "plain"


def cc_class(sub=False):
    """the class under test, or a trivial subclass of it that is importable from this module (so that it pickles)"""
    from sparkx.CentralityClasses import CentralityClasses
    if not sub:
        return CentralityClasses
    cls = globals().get("CentralitySub")
    if cls is None or cls.__mro__[1] is not CentralityClasses:
        cls = type("CentralitySub", (CentralityClasses,), {"__module__": __name__, "__qualname__": "CentralitySub",
                                                           "__doc__": "a subclass that adds nothing"})
        globals()["CentralitySub"] = cls
    return cls


class Env:
    """an unusual but legitimate process environment for the calls of one case: cwd = a fresh empty temp dir,
    non-default numpy print options, np.seterr(all='warn'), advanced global `random` / `np.random` states.
    `changes()` names what the calls left different from the state at entry; everything is restored on exit."""

    def __init__(self, seed):
        self.seed = seed

    def _snap(self):
        return dict(cwd=os.getcwd(), files=sorted(os.listdir(".")), geterr=dict(np.geterr()),
                    printoptions=repr(sorted(np.get_printoptions().items())), random=repr(_random.getstate()),
                    np_random=repr(np.random.get_state()))

    def __enter__(self):
        self.saved = (os.getcwd(), np.geterr(), np.get_printoptions(), _random.getstate(), np.random.get_state())
        self.tmp = tempfile.mkdtemp(prefix="c19env_")
        os.chdir(self.tmp)
        np.set_printoptions(precision=2, suppress=True, threshold=5, linewidth=40)
        np.seterr(all="warn")
        _random.seed(self.seed)
        [_random.random() for _ in range(self.seed % 7)]
        np.random.seed(self.seed % (2 ** 31))
        np.random.rand(self.seed % 5)
        self.entry = self._snap()
        return self

    def changes(self):
        now = self._snap()
        return [k for k in self.entry if self.entry[k] != now[k]]

    def __exit__(self, *a):
        cwd, err, po, rs, nrs = self.saved
        os.chdir(cwd)
        np.seterr(**err)
        np.set_printoptions(**{k: v for k, v in po.items() if k != "override_repr"})
        _random.setstate(rs)
        np.random.set_state(nrs)
        shutil.rmtree(self.tmp, ignore_errors=True)


def in_env(dev, seed):
    return Env(seed) if dev.get("env") else contextlib.nullcontext()


# ------------------------------------------------------------------ real code
def real_obj(sample, edges, dev=NO_DEV):
    """sample / edges are the represented objects; they are handed over as they are, or as a copy (dev); the object
    returned is the constructed one, or its copy (dev)"""
    def inp(x, mode):
        # one-shot iterables (which the class must reject) cannot be copied or pickled: they go in as they are
        return cp(x, mode) if isinstance(x, (list, np.ndarray)) else x
    obj = cc_class(dev.get("sub"))(events_multiplicity=inp(sample, dev.get("scopy")),
                                   centrality_bins=inp(edges, dev.get("ecopy")))
    if dev.get("by"):
        bystanders(obj)
    return cp(obj, dev.get("ocopy"))


def bystanders(obj):
    """BYSTANDER device: the object's *other* public methods are called between construction and everything that is
    judged (stored minima/maxima, cleaned edges, lookups).  The statement makes the class a function of (sample,
    edges) only, so a call of a reporting method must not change any of it.  Methods whose arguments are not known
    here are left alone; a bystander that raises is not judged (it is not the property's subject)."""
    import tempfile
    for name in sorted(n for n in dir(type(obj)) if not n.startswith("_") and n != "get_centrality_class"):
        f = getattr(obj, name, None)
        if not callable(f):
            continue
        try:
            if name == "output_centrality_classes":
                with tempfile.TemporaryDirectory(prefix="c19by_") as d:
                    f(os.path.join(d, "classes.dat"))
                    f(os.path.join(d, "classes.dat"))
        except Exception:  # noqa: BLE001
            pass


def real_cls(obj, q):
    try:
        c = obj.get_centrality_class(q)
    except IndexError:
        return "E"
    except Exception as e:  # noqa: BLE001 - any other exception is a difference from the model
        return f"?{type(e).__name__}"
    if isinstance(c, bool) or not isinstance(c, (int, np.integer)):
        return f"?{c!r}"
    return str(int(c))


def show(xs):
    xs = list(xs)
    return ";".join(xs) if xs else "-"


def is_inf(m):
    return isinstance(m, (float, np.floating)) and m == INF


ENV_CHANGES = []   # (what changed) for every case run under Env whose calls altered the process environment


def real_canon(sample, edges, queries, dev=NO_DEV, seed=0):
    """canonical text of what the real class does, in the driver's answer format"""
    with in_env(dev, seed) as env:
        out = _real_canon(sample, edges, queries, dev)
        if env is not None and env.changes():
            ENV_CHANGES.append(env.changes())
    return out


def _real_canon(sample, edges, queries, dev):
    try:
        obj = real_obj(sample, edges, dev)
    except ValueError:
        return "err value", None
    except IndexError:
        return "err index", None
    except TypeError:
        return "err type", None
    except Exception as e:  # noqa: BLE001
        return f"err other:{type(e).__name__}", None
    try:
        mins = ["inf" if is_inf(m) else str(mkey(m)) for m in obj.dNchdetaMin_]
        maxs = [str(mkey(m)) for m in obj.dNchdetaMax_]
        bins = [str(ekey(c)) for c in obj.centrality_bins_]
    except Exception as e:  # noqa: BLE001 - a stored value that is not one of the given numbers
        return f"ok ?{type(e).__name__} mins={obj.dNchdetaMin_!r} maxs={obj.dNchdetaMax_!r}", obj
    cls = [real_cls(obj, q) for q in queries]
    return f"ok {show(bins)} {show(mins)} {show(maxs)} {show(cls)}", obj


# ------------------------------------------------------------------ generators
def gen_sample(rng, allow_bad=True):
    """logical multiplicities (exact ints / Fractions) and the name of the value profile"""
    u = rng.random()
    if allow_bad and u < 0.04:
        n = rng.randint(0, 3)
    elif u < 0.70:
        n = rng.randint(4, 12)
    else:
        n = rng.randint(13, 40)
    style = rng.choice(["ties", "ties", "distinct", "allequal", "twolevel", "wide", "halves",
                        "limit", "limit", "limit", "bigpy", "f16", "f32", "bool"])
    if style == "ties":
        span = rng.randint(1, max(1, n // 2 + 1))
        xs = [rng.randint(0, span) for _ in range(n)]
    elif style == "distinct":
        xs = rng.sample(range(0, 3 * n + 5), n)
    elif style == "allequal":
        xs = [rng.randint(0, 9)] * n
    elif style == "twolevel":
        a, b = rng.randint(0, 5), rng.randint(0, 50)
        xs = [rng.choice([a, b]) for _ in range(n)]
    elif style == "wide":
        xs = [int(rng.expovariate(1 / 40.0)) for _ in range(n)]
    elif style == "limit":
        # values at and near the limits of one integer dtype, zeros, and values in between
        M = int(np.iinfo(rng.choice(INT_DT)).max)
        pool = [0, 0, 0, 1, 2, M, M, M - 1, M - 2, M // 2, M // 2 + 1]
        xs = [rng.choice(pool) if rng.random() < 0.7 else rng.randint(0, M) for _ in range(n)]
        style = f"limit/{M.bit_length()}bit"
    elif style == "bigpy":
        pool = [0, 1, TWO53, TWO53 + 1, 2 ** 63, 2 ** 64, 2 ** 64 + 1, 10 ** 30, 10 ** 30 - 1, 3 * 10 ** 18]
        xs = [rng.choice(pool) if rng.random() < 0.8 else rng.randint(0, 10 ** 30) for _ in range(n)]
    elif style == "f16":
        xs = [Fraction(rng.choice([0, 1, 2047, 2048, rng.randint(0, 2048)]), 2) for _ in range(n)]   # halves, exact in float16
    elif style == "f32":
        xs = [Fraction(rng.choice([0, 1, 2 ** 24 - 1, 2 ** 24, rng.randint(0, 2 ** 24)]), 2) for _ in range(n)]
    elif style == "bool":
        xs = [rng.randint(0, 1) for _ in range(n)]
    else:
        xs = [Fraction(rng.randint(0, 2 * n), 2) for _ in range(n)]
    if allow_bad and n and rng.random() < 0.03:
        xs[rng.randrange(n)] = -rng.randint(1, 3)
    return [lv(x) for x in xs], style


def gen_edges(rng, n, allow_bad=True):
    """returns (raw edge list, tags)"""
    tags = []
    u = rng.random()
    style = rng.choice(["regular", "randint", "randint", "narrowfirst", "narrowfirst", "float", "narrowmid"])
    k = rng.randint(1, 6)  # classes
    if style == "regular":
        es = [100.0 * i / k for i in range(k + 1)]
        es = [int(e) if e == int(e) else e for e in es]
    elif style == "randint":
        inner = sorted(rng.sample(range(1, 100), min(k - 1, 99))) if k > 1 else []
        es = [0] + inner + [100]
    elif style == "narrowfirst":
        # first class(es) narrower than one event: n*c/100 < 1
        lim = 100.0 / max(n, 1)
        small = sorted({rng.choice([1, 2, 3, 5, 0.5, 0.1, max(1, int(lim) - 1), max(1, int(lim))]) for _ in range(rng.randint(1, 2))})
        small = [c for c in small if c < 100]
        pop = range(int(max(small, default=0)) + 1, 100)
        rest = sorted(rng.sample(pop, max(0, min(k - 1 - len(small), 3, len(pop))))) if k > 1 else []
        es = [0] + small + rest + [100]
    elif style == "narrowmid":
        a = rng.randint(5, 90)
        es = sorted({0, a, a + rng.choice([1, 2, 0.5]), rng.randint(a + 3, 100), 100})
    else:
        pool = [2.5, 12.5, 33.3, 66.6, 99.9, 0.7, 29.0, 57.5, 7.25, 50.0, 10.0, 90.0]
        es = sorted({0.0, 100.0, *rng.sample(pool, min(k - 1, len(pool)))}) if k > 1 else [0.0, 100.0]
    if rng.random() < 0.12 and len(es) > 2:
        es = es[1:]
        tags.append("first>0")
    if rng.random() < 0.12 and len(es) > 2:
        es = es[:-1]
        tags.append("last<100")
    if rng.random() < 0.3 and len(es) > 1:
        for _ in range(rng.randint(1, 2)):
            c = rng.choice(es)
            c2 = float(c) if isinstance(c, int) and rng.random() < 0.5 else c
            es.insert(rng.randrange(len(es) + 1), c2)
        tags.append("dup")
        if all(es[i] <= es[i + 1] for i in range(len(es) - 1)):
            tags.append("dup-sorted")
    if rng.random() < 0.3 and len(es) > 1:
        rng.shuffle(es)
        if not all(es[i] <= es[i + 1] for i in range(len(es) - 1)):
            tags.append("unsorted")
    if allow_bad:
        v = rng.random()
        if v < 0.02:
            es = [rng.choice(es)]
            tags.append("one-edge")
        elif v < 0.03:
            es = []
            tags.append("no-edge")
        elif v < 0.06:
            es.insert(rng.randrange(len(es) + 1), rng.choice([-5, 120, 100.5, -0.5]))
            tags.append("out-of-range")
    return es, tags


def gen_queries(rng, sample):
    """logical queries as integer keys 2*q: every sample value, its neighbours at distance 1/2 and 1, 0, values above"""
    ks = {mkey(x) for x in sample}
    qs = set()
    for k in ks:
        qs.update((k - 2, k - 1, k, k + 1, k + 2))
    top = max(0, max(ks)) if ks else 0
    qs.update((0, top + 4, top + 20, 2 * rng.randint(0, top // 2 + 2), rng.randint(0, top + 4)))
    qs = sorted(q for q in qs if q >= 0)
    return qs


def represent(rng, sample, edges, queries, allow_tuple=True):
    """choose how the logical case is handed to the real class.  Returns None when no representation exists, else
    dict(sample, edges, queries (possibly fewer), srep, erep, qtypes).  Multiplicities and queries share one palette
    (they are compared with each other), the edges have their own."""
    fam = None
    if sample and all(can("int", v) for v in sample):
        if not all(can("np.float64", v) for v in sample):
            fam = rng.choice(["intkind", "u64", "signed"])
        elif rng.random() < 0.15:
            fam = "intkind"
    pal = palette(sample, fam)
    floats = [t for t in pal if t in FLOAT_TYPES]
    # a query must be exact in every floating type of the palette, and have a type of its own
    qv = [(k, Fraction(k, 2)) for k in queries]
    qv = [(k, v) for k, v in qv if all(can(t, v) for t in floats) and eligible(pal, v)]
    srep = choose_rep(rng, sample, pal, allow_tuple)
    if srep is None:
        return None
    qv = [(k, v) for k, v in qv if query_ok(srep, v)]
    qtypes = [rng.choice(eligible(pal, v)) for _, v in qv]
    # edges: optionally first rounded into a low-precision floating type (the rounded numbers ARE the logical edges)
    edges = [lv(c) for c in edges]
    if edges and rng.random() < 0.25:
        ft = rng.choice(["float16", "float32"])
        edges = [lv(float(np.dtype(ft).type(float(exact(c))))) for c in edges]
    epal = palette(edges)
    erep = choose_rep(rng, edges, epal, allow_tuple)
    if erep is None:
        return None
    return dict(sample=list(sample), edges=edges, queries=[k for k, _ in qv], srep=srep, erep=erep, qtypes=qtypes,
                dev=gen_dev(rng))


def query_ok(srep, v):
    """numpy cannot compare np.bool_ with a Python int outside the C long range (OverflowError): such queries are not
    put to a sample that holds np.bool_ scalars"""
    return not (exact(v) >= 2 ** 63 and "np.bool_" in rep_types(srep))


def typed_queries(case):
    return [mk(t, Fraction(k, 2)) for k, t in zip(case["queries"], case["qtypes"])]


def oracle_qtypes(sample, srep, qvals):
    """deterministic scalar types for the oracle's queries (same palette rule as `represent`)"""
    pal = palette(sample, family_of(srep, sample))
    floats = [t for t in pal if t in FLOAT_TYPES]
    out = []
    for j, v in enumerate(qvals):
        if not all(can(t, v) for t in floats) or not query_ok(srep, v):
            out.append(None)
            continue
        el = eligible(pal, v)
        out.append(el[(j + len(sample)) % len(el)] if el else None)
    return out


def features(sample, edges):
    """branch tags of one (admissible) case, computed from ranks only"""
    n = len(sample)
    tags = []
    try:
        cl = sorted({float(e) for e in edges})
    except Exception:
        return ["?"]
    if n < 4 or any(x < 0 for x in sample) or any(c < 0 or c > 100 for c in cl) or len(cl) < 2:
        return ["inadmissible"]
    R = [rank_of(n, c) for c in cl]
    srt = sorted(sample, reverse=True)
    if R[0] == 0 and any(r == 0 for r in R[1:]):
        tags.append("empty-leading")
    if any(R[i] == R[i + 1] and R[i] > 0 for i in range(len(R) - 1)):
        tags.append("empty-middle")
    if any(0 < R[i] < n and srt[R[i] - 1] == srt[R[i]] for i in range(1, len(R) - 1)):
        tags.append("tie-at-boundary")
    w = {R[i + 1] - R[i] for i in range(len(R) - 1)}
    if len(w) > 1:
        tags.append("uneven")
    if any(0 < x <= 2 for x in w):
        tags.append("few-per-class")
    return tags


# ------------------------------------------------------------------ correspondence (tie C)
def build_line(variant, sample, edges, queries):
    n = len(sample)
    table = {}
    for c in edges:
        k = ekey(c)
        r = rank_of(n, c) if 0 <= float(c) <= 100 else 0
        if k in table and table[k] != r:
            raise AssertionError(f"equal edges with different ranks: {c!r}")
        table[k] = max(r, 0)
    tb = ";".join(f"{k}:{r}" for k, r in table.items())
    return (f"pipe\t{variant}\t0\t{ilist(mkey(x) for x in sample)}\t{ekey(0.0)}\t{ekey(100.0)}\t"
            f"{ilist(ekey(c) for c in edges)}\t{tb}\t{ilist(queries)}")


def gen_line(sample, edges, queries):
    """the same case for the GENERATED functions: no rank table, the driver evaluates the generated cut-index
    expression at Float from the edges' bit patterns"""
    return (f"gpipe\t0\t{ilist(mkey(x) for x in sample)}\t{ekey(0.0)}\t{ekey(100.0)}\t"
            f"{ilist(ekey(c) for c in edges)}\t{ilist(queries)}")


def check_contract(ctx, sample, obj):
    n = len(sample)
    R = [rank_of(n, c) for c in obj.centrality_bins_]
    ok = all(R[i] <= R[i + 1] for i in range(len(R) - 1)) and all(0 <= r <= n for r in R) and all(r < n for r in R[:-1])
    ctx.count("rank-contract-ok" if ok else "rank-contract-VIOLATED")
    if not ok:
        ctx.notes.append(f"rank boundaries outside the theorem's hypotheses: n={n} bins={obj.centrality_bins_} R={R}")
    from fractions import Fraction
    if any(math.floor(Fraction(n) * Fraction(float(c)) / 100) != r for c, r in zip(obj.centrality_bins_, R)):
        ctx.count("float-rank-differs-from-exact-floor")


def one_case(rng, allow_bad=True):
    """a logical case together with its representation; re-drawn until a representation exists"""
    while True:
        sample, sstyle = gen_sample(rng, allow_bad)
        edges, etags = gen_edges(rng, len(sample), allow_bad)
        queries = gen_queries(rng, sample)
        case = represent(rng, sample, edges, queries, allow_tuple=allow_bad)
        if case is not None:
            case.update(sstyle=sstyle, etags=etags)
            return case


def plain_case(rng, sample, edges, sstyle):
    """corpus / exhaustive inputs: given logical values, random representation"""
    sample = [lv(x) for x in sample]
    case = represent(rng, sample, edges, gen_queries(rng, sample), allow_tuple=False)
    case.update(sstyle=sstyle, etags=[])
    return case


def exhaustive_cases():
    """small scope: every sample of 4 and 5 events over {0,1,2} x a fixed family of edge lists"""
    import itertools
    fam = [[0, 100], [0, 50, 100], [0, 10, 50, 100], [0, 25, 50, 75, 100], [0, 10, 20, 100], [0, 30, 40, 100],
           [100, 50, 0, 50], [20, 60, 100], [0, 40, 80], [0, 5, 10, 60, 100]]
    for n in (4, 5):
        for xs in itertools.product((0, 1, 2), repeat=n):
            for es in fam:
                yield list(xs), list(es)


def jcase(case, **more):
    """JSON form of a case (logical values + representation), as written into evidence samples and replay files"""
    d = dict(sample=[jv(x) for x in case["sample"]], edges=[jv(c) for c in case["edges"]],
             srep=case["srep"], erep=case["erep"], dev=dict(case.get("dev") or NO_DEV))
    if "queries" in case:
        d.update(queries=list(case["queries"]), qtypes=list(case["qtypes"]))
    d.update(more)
    return d


def correspond(ctx):
    rng = ctx.rng
    ctx.rule = ("LOGICAL cases: random samples (0-40 events; ties / distinct / all equal / two levels / wide / half-integers / "
                "values at and near the limits of every integer dtype with zeros / Python ints up to 1e30 / halves at the "
                "float16 and float32 precision limits / 0-1 values) x edge lists (1-6 classes; regular / random / first or "
                "middle class narrower than one event / non-integer percentiles, also rounded to float16 / float32; unsorted, "
                "duplicated, not starting at 0 or not ending at 100, plus a malformed stream: <4 events, negative "
                "multiplicity, <2 edges, out-of-range edge); every sample value, its neighbours at +-1/2 and +-1, 0 and "
                "values above the maximum are queried.  REPRESENTATION drawn per case for both inputs: lists of Python "
                "ints / floats / bools / numpy scalars of every dtype (homogeneous or mixed per element), tuples (must raise "
                "the documented TypeError), ndarrays of int8..int64, uint8..uint64, bool, float16/32/64, read-only and "
                "non-contiguous, ndarray subclass views, ndarrays of dtype object holding the same scalars; generators / iter(list) / "
                "map objects / tuples must raise the documented TypeError (the docs accept `list or numpy.ndarray` only); "
                "every query a scalar of a drawn type.  DEVICES drawn per case: the sample / the edge object / the constructed "
                "CentralityClasses object are replaced by their copy.copy / copy.deepcopy / pickle round trip before use (the "
                "copy is what is judged, against the same model and reference, and against the plainly constructed original); "
                "the class is a trivial subclass; construction and queries run after os.chdir into a fresh empty directory with "
                "non-default numpy print options, np.seterr(all='warn') and advanced global random / np.random states, which "
                "(with the directory's contents) must be left as found; BYSTANDER: the object's other public method "
                "(output_centrality_classes, twice, into a temp dir) is called between construction and everything judged - "
                "stored values and lookups must be those of the untouched object.  Not applied: text variants (the surface "
                "takes no text).  Restriction: the numbers compared with each other "
                "in one case (multiplicities + queries; edges among themselves) are exact in every floating type occurring "
                "among them, and where a value is not a double int64-family and uint64 are not mixed - i.e. magnitudes "
                "above 2^53 meet integer-kind scalars only (numpy's lossy int<->float comparison is outside the property's "
                "domain).  The model and the reference see the exact logical values.  non-trivial = admissible case with a "
                "tie across a class boundary, an empty rank interval, uneven classes, or unsorted/duplicated edges; distinct "
                "by canonical input + representation. Thorough adds all samples of 4-5 events over {0,1,2} x 10 edge lists.")
    ctx.assumptions.append("C19: rank boundaries int(n*c/100.0) are evaluated by Python and handed to the model; per case the "
                           "harness checks they are non-decreasing, <= n, and < n except the last (hypotheses of the theorems)")
    ctx.assumptions.append("C19 domain: multiplicities / queries above 2^53 are generated only with integer-kind scalars (Python "
                           "int, one numpy integer family), and no floating scalar type occurs in a case unless it holds every "
                           "compared number exactly: numpy compares int64/uint64 with floats (and with each other) in float64, "
                           "which is lossy at magnitudes no multiplicity has; such mixes are outside the property's domain")
    ncases = ctx.n(500, 20000)
    cases = []
    for c in corpus():
        cases.append(case_of_input(rng, c, "corpus"))
    for _ in range(ncases):
        cases.append(one_case(rng))
    if ctx.thorough:
        for xs, es in exhaustive_cases():
            cases.append(plain_case(rng, xs, es, "exhaustive"))
    lines = [build_line("fix", c["sample"], c["edges"], c["queries"]) for c in cases]
    outs = common.run_driver("C19", lines)
    gouts = common.run_driver("C19", [gen_line(c["sample"], c["edges"], c["queries"]) for c in cases])
    mism = []
    gmism = []
    reals = []
    for i, (case, out) in enumerate(zip(cases, outs)):
        sample, edges = case["sample"], case["edges"]
        stag, etag = rep_tag(case["srep"]), rep_tag(case["erep"])
        ctx.count("srep/" + stag)
        ctx.count("erep/" + etag)
        for t in set(case["qtypes"]):
            ctx.count("qtype/" + t)
        dev = case["dev"]
        ctx.count("dev/" + dev_tag(dev))
        nenv = len(ENV_CHANGES)
        real, obj = real_canon(build_rep(case["srep"], sample), build_rep(case["erep"], edges), typed_queries(case),
                               dev, seed=i + 1)
        reals.append(real)
        if len(ENV_CHANGES) > nenv:
            ctx.brk("correspondence-broken", f"constructing / querying the object changed the process environment: "
                    f"{ENV_CHANGES[-1]} (cwd, files in cwd, np.geterr(), print options and the global random states are "
                    f"not the class's to change)", case=jcase(case, code=real))
        if case["srep"]["c"] in REJECTED or case["erep"]["c"] in REJECTED:
            # documented: TypeError unless list / numpy.ndarray (not part of the model)
            ctx.count("answer/" + real.split(" ")[0] + "-" + (real.split(" ")[1] if real.startswith("err") else "ok"))
            if real != "err type":
                ctx.brk("correspondence-broken", f"an argument that is neither list nor numpy.ndarray "
                        f"({rep_tag(case['srep'])} | {rep_tag(case['erep'])}) does not raise the documented TypeError: {real}",
                        case=jcase(case, code=real))
            continue
        feats = features(sample, edges)
        nontriv = feats != ["inadmissible"] and bool(set(feats) & {"tie-at-boundary", "empty-leading", "empty-middle", "uneven"}
                                                     or set(case["etags"]) & {"unsorted", "dup"})
        canon = (tuple(mkey(x) for x in sample), tuple(ekey(c) for c in edges), stag, etag, dev_tag(dev))
        ctx.case(canon, nontriv, sample=jcase(case, code=real, model=out) if nontriv else None)
        ctx.count(f"sample/{case['sstyle']}")
        ctx.count("n/" + ("<4" if len(sample) < 4 else "4-12" if len(sample) <= 12 else "13-40"))
        for t in feats + case["etags"]:
            ctx.count("feat/" + t)
        ctx.count("answer/" + real.split(" ")[0] + ("-" + real.split(" ")[1] if real.startswith("err") else ""))
        if obj is not None:
            check_contract(ctx, sample, obj)
            ctx.count(f"classes/{len(obj.dNchdetaMin_)}")
        if real != out:
            mism.append(i)
        if real != gouts[i]:
            gmism.append(i)
    ctx.cov["generated_model_mismatches"] = len(gmism)

    def by_rep(idx):
        h = {}
        for i in idx:
            k = rep_tag(cases[i]["srep"]) + " | " + rep_tag(cases[i]["erep"])
            h[k] = h.get(k, 0) + 1
        return dict(sorted(h.items(), key=lambda kv: -kv[1])[:8])

    if gmism:
        i = gmism[0]
        ctx.brk("correspondence-broken",
                f"generated model (Gen/Centrality.lean, cut indices at Float): {len(gmism)} of {len(cases)} cases differ "
                f"(by representation: {by_rep(gmism)}); first: sample={cases[i]['sample']} as {rep_tag(cases[i]['srep'])} "
                f"edges={cases[i]['edges']} as {rep_tag(cases[i]['erep'])}: code `{reals[i]}` vs generated `{gouts[i]}`",
                case=jcase(cases[i], code=reals[i], model=gouts[i]),
                more_cases=[jcase(cases[j]) for j in gmism[1:12]])
    if mism:
        # classify: does the real code behave like the model of the code before the repair?
        wl = [build_line("wrap", cases[i]["sample"], cases[i]["edges"], cases[i]["queries"]) for i in mism[:200]]
        wouts = common.run_driver("C19", wl)
        like_wrap = sum(1 for i, w in zip(mism[:200], wouts) if reals[i] == w)
        i = mism[0]
        ctx.brk("correspondence-broken",
                f"{len(mism)} of {len(cases)} cases differ (by representation: {by_rep(mism)}); first: "
                f"sample={cases[i]['sample']} as {rep_tag(cases[i]['srep'])} edges={cases[i]['edges']} as "
                f"{rep_tag(cases[i]['erep'])}: code `{reals[i]}` vs model `{outs[i]}`"
                + (f"; {like_wrap} of the first {len(wl)} differing cases agree with the pre-repair model "
                   f"(record[MaxRecord-1] with negative-index wrap)" if like_wrap else ""),
                case=jcase(cases[i], code=reals[i], model=outs[i]),
                more_cases=[jcase(cases[j]) for j in mism[1:12]])
    ctx.cov["correspondence_mismatches"] = len(mism)


# ------------------------------------------------------------------ oracle on the real code (independent of the model)
def case_of_input(rng, inp, sstyle="replay"):
    """a case from a corpus / replay / broken-case dict: logical values, and the representation if it was recorded
    (otherwise a random one when rng is given, else the plain one)"""
    sample = [lv(x) for x in inp["sample"]]
    edges = [lv(c) for c in inp["edges"]]
    if "srep" in inp and "erep" in inp:
        case = dict(sample=sample, edges=edges, srep=inp["srep"], erep=inp["erep"])
        if "queries" in inp and "qtypes" in inp:
            case.update(queries=list(inp["queries"]), qtypes=list(inp["qtypes"]))
        else:
            qs = gen_queries(__import__("random").Random(0), sample)
            qt = oracle_qtypes(sample, case["srep"], [Fraction(k, 2) for k in qs])
            case.update(queries=[k for k, t in zip(qs, qt) if t], qtypes=[t for t in qt if t])
    elif rng is not None:
        case = represent(rng, sample, edges, gen_queries(rng, sample), allow_tuple=False)
    else:
        case = dict(sample=sample, edges=edges, srep=plain_rep(sample), erep=plain_rep(edges))
    if inp.get("dev"):
        case["dev"] = dict(NO_DEV, **inp["dev"])
    case.setdefault("dev", dict(NO_DEV))
    case.setdefault("sstyle", sstyle)
    case.setdefault("etags", [])
    return case


def admissible(sample, edges):
    try:
        cl = {exact(c) for c in edges}
    except Exception:
        return False
    return len(sample) >= 4 and all(x >= 0 for x in sample) and all(0 <= c <= 100 for c in cl) and len(cl) >= 2


def oracle_check(sample, edges, srep=None, erep=None, dev=None):
    """None, or (key, what, detail) when the real code violates the property on this admissible input, handed over in
    the given representation (default: plain lists of Python numbers).  The reference works on the exact logical
    values.  Rank-based definition: class i owns the descending ranks [R_i, R_{i+1}), R_j = int(n*c_j/100.0) over the
    sorted distinct edges."""
    sample = [lv(x) for x in sample]
    edges = [lv(c) for c in edges]
    if not admissible(sample, edges):
        return None
    srep = srep or plain_rep(sample)
    erep = erep or plain_rep(edges)
    dev = dict(NO_DEV, **(dev or {}))
    if srep["c"] in REJECTED or erep["c"] in REJECTED:
        return None
    try:
        build_rep(srep, sample), build_rep(erep, edges)
    except Exception:
        return None  # (a shrinking step left the representation's range)
    n = len(sample)
    cleaned = sorted({exact(c) for c in edges})
    R = [rank_of(n, c) for c in cleaned]
    N = len(cleaned) - 1
    srt = sorted((exact(x) for x in sample), reverse=True)
    leading = R[0] == 0 and R[1] == 0
    rtag = f"{rep_tag(srep)} | {rep_tag(erep)}" + ("" if dev == NO_DEV else " | " + dev_tag(dev))
    with in_env(dev, len(sample) + 17) as env:
        r = _oracle_check(sample, edges, srep, erep, dev, n, cleaned, R, N, srt, leading, rtag)
        if r is None and env is not None and env.changes():
            r = ("environment", f"[{rtag}] constructing / querying the object changed the process environment: {env.changes()}",
                 dict(changed=env.changes()))
    return r


def _oracle_check(sample, edges, srep, erep, dev, n, cleaned, R, N, srt, leading, rtag):
    try:
        # everything below is judged on the object as the devices deliver it (a copy / an unpickled object / an
        # instance of a subclass, built from copied inputs, in the changed environment)
        obj = real_obj(build_rep(srep, sample), build_rep(erep, edges), dev)
        bins = [exact(c) for c in obj.centrality_bins_]
        if bins != cleaned:
            return ("clean-invariance", f"[{rtag}] centrality_bins_ {[jv(b) for b in bins]} is not the sorted duplicate-free "
                    f"edge list {[jv(c) for c in cleaned]}", dict(expected=[jv(c) for c in cleaned], observed=[jv(b) for b in bins]))
        vals = sorted(set(srt))
        qs = {Fraction(0), vals[-1] + 1, vals[-1] + 100}
        for a in vals:
            qs.update((a, a + Fraction(1, 2), a + 1, max(Fraction(0), a - Fraction(1, 2)), max(Fraction(0), a - 1)))
        qs = sorted(qs)
        qt = oracle_qtypes(sample, srep, qs)
        qs, qt = [q for q, t in zip(qs, qt) if t], [t for t in qt if t]
        cls = {}
        for q, t in zip(qs, qt):
            c = obj.get_centrality_class(mk(t, q))
            if isinstance(c, bool) or not isinstance(c, (int, np.integer)) or not (0 <= c < N):
                return ("total", f"[{rtag}] get_centrality_class({t}({jv(q)})) = {c!r}, not a class index in 0..{N - 1}",
                        dict(query=jv(q), qtype=t, observed=repr(c), classes=N))
            cls[q] = int(c)
        for a, b in zip(qs, qs[1:]):
            if cls[b] > cls[a]:
                return ("monotone" + (":leading-class-narrower-than-one-event" if leading else ""),
                        f"[{rtag}] multiplicity {jv(b)} > {jv(a)} is assigned the more peripheral class {cls[b]} > {cls[a]}",
                        dict(queries=[jv(a), jv(b)], observed=[cls[a], cls[b]]))
        for i in range(N):
            for r in range(R[i], R[i + 1]):
                x = srt[r]
                if x not in cls:
                    continue
                c = cls[x]
                tie_prev = R[i] > 0 and srt[R[i] - 1] == srt[r]
                if not (c == i or (c < i and tie_prev)):
                    return ("rank-consistency" + (":leading-class-narrower-than-one-event" if leading else ""),
                            f"[{rtag}] event of descending rank {r} (multiplicity {jv(x)}) lies in the rank interval "
                            f"[{R[i]},{R[i+1]}) of class {i} but is assigned class {c}"
                            + ("" if tie_prev else " and is not tied with the event before the interval"),
                            dict(rank=r, multiplicity=jv(x), expected_class=i, observed_class=c, rank_boundaries=R,
                                 dNchdetaMin_=[repr(m) for m in obj.dNchdetaMin_]))

        def stored(obj_):
            # (inf marks an empty class; a NaN is kept as such: the statement speaks of non-empty classes only)
            def one(m):
                if isinstance(m, (float, np.floating)) and m != m:
                    return "nan"
                return None if is_inf(m) else exact(m)
            return ([one(m) for m in obj_.dNchdetaMin_], [one(m) for m in obj_.dNchdetaMax_])
        smin, smax = stored(obj)
        for i in range(N):
            if R[i] < R[i + 1]:
                seg = srt[R[i]:R[i + 1]]
                if smin[i] != min(seg) or smax[i] != max(seg):
                    return ("min-max", f"[{rtag}] class {i}: stored (min,max)=({obj.dNchdetaMin_[i]!r},{obj.dNchdetaMax_[i]!r}) but "
                            f"its rank interval [{R[i]},{R[i+1]}) holds {[jv(v) for v in seg]}",
                            dict(cls=i, expected=[jv(min(seg)), jv(max(seg))],
                                 observed=[repr(obj.dNchdetaMin_[i]), repr(obj.dNchdetaMax_[i])]))
        # the same classes from the cleaned edge list (plain Python numbers)
        obj2 = real_obj(build_rep(srep, sample), build_rep(plain_rep(cleaned), cleaned), dev)
        if stored(obj2) != (smin, smax) or any(obj2.get_centrality_class(mk(t, q)) != cls[q] for q, t in zip(qs, qt)):
            return ("clean-invariance", f"[{rtag}] edges {[jv(c) for c in edges]} and their cleaned form "
                    f"{[jv(c) for c in cleaned]} give different classes",
                    dict(raw_min=[repr(m) for m in obj.dNchdetaMin_], clean_min=[repr(m) for m in obj2.dNchdetaMin_]))
        # ... and from the plain-list representation of the same logical input (representation independence)
        obj3 = real_obj(build_rep(plain_rep(sample), sample) if all(can("float", v) or can("int", v) for v in sample)
                        else build_rep(srep, sample), build_rep(plain_rep(edges), edges))
        if stored(obj3) != (smin, smax):
            return ("representation", f"[{rtag}] the same numbers as plain Python lists give other classes: "
                    f"min {obj.dNchdetaMin_!r} vs {obj3.dNchdetaMin_!r}",
                    dict(repr_min=[repr(m) for m in obj.dNchdetaMin_], plain_min=[repr(m) for m in obj3.dNchdetaMin_]))
        # ... and a copied / unpickled / subclass object answers as the plainly constructed original does
        if dev != NO_DEV:
            obj0 = real_obj(build_rep(srep, sample), build_rep(erep, edges))
            diff = [jv(q) for q, t in zip(qs, qt) if obj0.get_centrality_class(mk(t, q)) != cls[q]]
            if stored(obj0) != (smin, smax) or diff:
                return ("copy", f"[{rtag}] the object delivered by the devices differs from the plainly constructed one: "
                        f"min {obj.dNchdetaMin_!r} vs {obj0.dNchdetaMin_!r}, queries answered differently: {diff[:5]}",
                        dict(queries=diff[:10]))
    except Exception as e:  # an admissible input must not raise
        return ("exception", f"[{rtag}] admissible input raises {type(e).__name__}: {e}", dict(exception=type(e).__name__))
    return None


def drop_at(spec, i):
    if spec["c"] == "nd":
        return spec
    return dict(spec, t=spec["t"][:i] + spec["t"][i + 1:])


def shrink(case, key):
    """delta debugging on events / edges, then on the representation; the case keeps failing with the same key"""
    cs, ce, rs, re_ = list(case["sample"]), list(case["edges"]), case["srep"], case["erep"]
    dev = dict(NO_DEV, **(case.get("dev") or {}))

    def bad(s, e, r1, r2, d=None):
        r = oracle_check(s, e, r1, r2, dev if d is None else d)
        return r is not None and r[0] == key

    # the devices the failure does not need are switched off first
    for k in list(dev):
        if dev[k] and bad(cs, ce, rs, re_, dict(dev, **{k: NO_DEV[k]})):
            dev[k] = NO_DEV[k]

    changed = True
    while changed:
        changed = False
        for i in range(len(cs)):
            if len(cs) > 4 and bad(cs[:i] + cs[i + 1:], ce, drop_at(rs, i), re_):
                cs, rs, changed = cs[:i] + cs[i + 1:], drop_at(rs, i), True
                break
        if changed:
            continue
        for i in range(len(ce)):
            if len(ce) > 2 and bad(cs, ce[:i] + ce[i + 1:], rs, drop_at(re_, i)):
                ce, re_, changed = ce[:i] + ce[i + 1:], drop_at(re_, i), True
                break
        if changed:
            continue
        # compress the values to their dense ranks (when the representation can still hold them)
        vals = sorted(set(cs))
        dense = [vals.index(x) for x in cs]
        if dense != cs and bad(dense, ce, rs, re_):
            cs, changed = dense, True
            continue
        # simpler representations: no flags, plain lists
        for cand in ([dict(rs, ro=False, nc=False, sub=False)] if rs["c"] == "nd" and (rs.get("ro") or rs.get("nc") or rs.get("sub")) else []) + \
                ([plain_rep(cs)] if rs != plain_rep(cs) else []):
            if bad(cs, ce, cand, re_):
                rs, changed = cand, True
                break
        if changed:
            continue
        for cand in ([dict(re_, ro=False, nc=False, sub=False)] if re_["c"] == "nd" and (re_.get("ro") or re_.get("nc") or re_.get("sub")) else []) + \
                ([plain_rep(ce)] if re_ != plain_rep(ce) else []):
            if bad(cs, ce, rs, cand):
                re_, changed = cand, True
                break
        if changed:
            continue
        srt_e = sorted(set(ce))
        if ce != srt_e and re_["c"] != "nd" and bad(cs, srt_e, rs, plain_rep(srt_e)):
            ce, re_, changed = srt_e, plain_rep(srt_e), True
    return dict(sample=cs, edges=ce, srep=rs, erep=re_, dev=dev)


def search(ctx, budget_s):
    rng = ctx.rng
    t0 = time.time()
    n = 0
    found = set()

    def check(case):
        nonlocal n
        n += 1
        r = oracle_check(case["sample"], case["edges"], case["srep"], case["erep"], case.get("dev"))
        if r and r[0] not in found:
            found.add(r[0])
            m = shrink(case, r[0])
            r2 = oracle_check(m["sample"], m["edges"], m["srep"], m["erep"], m["dev"]) or r
            ctx.violation(r2[0], r2[1], dict(input=jcase(m), detail=r2[2],
                                             how_to_replay="./check C19 --replay <this file>"))
        return r

    for c in corpus():
        check(case_of_input(None, c))
        check(case_of_input(rng, c))
        for mode in COPY_MODES:
            check(dict(case_of_input(None, c), dev=dict(NO_DEV, ocopy=mode, sub=(mode == "pickle"))))
    # region where model and code first differed (with the representation it was handed over in)
    for b in ctx.broken:
        for c in [b.get("case")] + list(b.get("more_cases") or []):
            if c and "sample" in c:
                check(case_of_input(None, c))
    if ctx.thorough or ctx.broken:
        for xs, es in exhaustive_cases():
            if time.time() - t0 > budget_s / 2:
                break
            check(plain_case(rng, xs, es, "exhaustive"))
    limit = 30000 if ctx.thorough else 1500
    while time.time() - t0 < budget_s and n < limit and len(found) < 3:
        case = one_case(rng, allow_bad=False)
        if not admissible(case["sample"], case["edges"]):
            continue
        check(case)
        ctx.case(("oracle", tuple(mkey(x) for x in case["sample"]), tuple(ekey(c) for c in case["edges"]),
                  rep_tag(case["srep"]), rep_tag(case["erep"])),
                 bool(set(features(case["sample"], case["edges"])) & {"tie-at-boundary", "empty-leading", "empty-middle", "uneven"}))
        ctx.count("oracle-srep/" + rep_tag(case["srep"]))
    ctx.cov["oracle_cases"] = n
    ctx.count("oracle", n)


def corpus():
    p = common.VERIF / "harness/corpus/C19"
    out = []
    if p.exists():
        for f in sorted(p.glob("*.json")):
            d = json.loads(f.read_text())
            out.append(d.get("input", d))
    return out


def replay(ctx, path):
    d = json.loads(open(path).read())
    inp = d.get("input")
    if not inp:
        c = (d.get("broken") or [{}])[0].get("case")
        if not c:
            print(f"[C19] replay file names a broken obligation, not an input: {d.get('broken')}")
            return 1
        inp = c
    case = case_of_input(None, inp)
    sample, edges = case["sample"], case["edges"]
    if "queries" not in case:
        qs = gen_queries(ctx.rng, sample)
        qt = oracle_qtypes(sample, case["srep"], [Fraction(k, 2) for k in qs])
        case.update(queries=[k for k, t in zip(qs, qt) if t], qtypes=[t for t in qt if t])
    real, _ = real_canon(build_rep(case["srep"], sample), build_rep(case["erep"], edges), typed_queries(case), case["dev"], 1)
    model, gmodel = common.run_driver("C19", [build_line("fix", sample, edges, case["queries"]),
                                              gen_line(sample, edges, case["queries"])])
    print(f"[C19] sample={[jv(x) for x in sample]} as {rep_tag(case['srep'])}  edges={[jv(c) for c in edges]} as "
          f"{rep_tag(case['erep'])}  devices: {dev_tag(case['dev'])}\n[C19] code : {real}\n[C19] model: {model}\n[C19] gen  : {gmodel}")
    r = oracle_check(sample, edges, case["srep"], case["erep"], case["dev"])
    if r:
        print(f"VIOLATION property=C19 replay={path}")
        print(r[1])
        return 1
    if real != model or real != gmodel:
        print("[C19] replay: the property holds on this input but code and model differ (correspondence broken)")
        return 1
    print("[C19] replay: property holds on this input now")
    return 0


# ------------------------------------------------------------------ translator (tie T)
def translate(ctx):
    """Gen/Centrality.lean from the current `__create_centrality_classes` / `get_centrality_class` (and the checked part
    of `__init__`).  Raises Untranslatable when the source has left the fragment (golden fallback, tie C only)."""
    from translate import centrality
    src = common.read_src("CentralityClasses.py")
    golden = common.LEAN / "golden/Gen/Centrality.lean"
    gi = centrality.golden_init_section(golden.read_text()) if golden.exists() else None
    text, regions = centrality.render(src, golden_init=gi)
    common.write_if_changed(common.LEAN / "SparkxVerif/Gen/Centrality.lean", text)
    ctx.cov["gen_equals_golden"] = golden.exists() and golden.read_text() == text
    init_t = regions[2]["tie"].startswith("T")
    ctx.cov["tie"] = ("T + C: __create_centrality_classes (guards, ranking, cut-index expression, class loop, stored "
                      "min/max), get_centrality_class" + (" and the edge cleaning of __init__" if init_t else "") +
                      " regenerated and proved equal to the model; the float evaluation of int(n*c/100.0)" +
                      ("" if init_t else " and the edge cleaning of __init__ (golden model, translator could not re-derive)") +
                      " by correspondence")
    if not init_t:
        # region-wise golden fallback (DESIGN 2.1 (i)) for the edge cleaning: the correspondence run is enlarged as it
        # is when the whole translator falls back
        ctx.fallback = True
        ctx.cov["golden_restored"] = ["Centrality.lean: __init__ section"]
        ctx.notes.append("edge cleaning of __init__ is outside the translated fragment: " + regions[2]["tie"])
    return regions
