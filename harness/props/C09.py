"""C09 — Histogram bins count exactly the values in [left,right).

Tie C: random fill/scale/density histories run on the real `sparkx.Histogram` and on the Lean model
(`Core/Histogram.lean` through `drivers/C09.lean`), compared after every call; the driver also prints
the closed-form specification (`closedContent`, the right-hand side of theorem `C09.bin_content`).
Search: the property itself checked on the real class against a reference recount with exact rationals.

This module also holds the machinery shared with C10 (op encoding, running the real class, comparing).
"""
import json
import math
import time
import warnings
from fractions import Fraction

import numpy as np

import common
from common import f2h, h2f
from translate import histogram as tr
from translate.pyexpr import Untranslatable

warnings.filterwarnings("ignore")

NAN = float("nan")
INF = float("inf")
EXC_KIND = {ValueError: "value", TypeError: "type", IndexError: "index", KeyError: "key",
            ZeroDivisionError: "zerodiv"}
ALL_COLS = ["bin_center", "bin_low", "bin_high", "distribution", "stat_err+", "stat_err-", "sys_err+", "sys_err-"]
INEXACT_OPS = {"md", "av", "aw", "ae"}


def Histogram():
    from sparkx.Histogram import Histogram as H
    return H


# ------------------------------------------------------------------ translator (tie T, shared with C10)
# The model file imports Gen/HistWrite.lean (column tables of write_to_file, used by C10's theorems); it is
# regenerated for C09 too so that the Lean project always reflects the tree under test.
def translate(ctx):
    regions = translate_write(ctx)
    if ctx.prop == "C09":       # C10 calls this function too; the filling / scaling core is C09's tie
        regions = regions + translate_core(ctx)
    return regions


def translate_write(ctx):
    gen = common.LEAN / "SparkxVerif/Gen/HistWrite.lean"
    golden = common.LEAN / "golden/Gen/HistWrite.lean"
    try:
        text, regions = tr.render(common.read_src("Histogram.py"))
    except Untranslatable as e:
        # DESIGN 2.1 (i): the extractor cannot parse the region -> the golden model takes over and has to
        # survive the full correspondence run of this tier
        common.write_if_changed(gen, golden.read_text())
        ctx.notes.append(f"translator could not re-derive write_to_file ({e}); golden Gen/HistWrite.lean used")
        ctx.cov["tie"] = "correspondence-only (translator could not re-derive)"
        ctx.cov["gen_equals_golden"] = True
        return [dict(file="src/sparkx/Histogram.py", what="Histogram.write_to_file", hash=None, untranslatable=str(e))]
    changed = common.write_if_changed(gen, text)
    ctx.cov["gen_equals_golden"] = golden.exists() and golden.read_text() == text
    if changed:
        ctx.notes.append("Gen/HistWrite.lean regenerated (source differs from last run)")
    return regions


def translate_core(ctx):
    """Tie T for the filling / scaling core: Gen/HistCore.lean regenerated from the current text of __init__,
    add_value, add_histogram, scale_histogram, statistical_error, make_density and the geometry getters
    (harness/translate/histcore.py); Lemmas/HistCoreGen.lean proves it equal to Core/Histogram.lean."""
    from translate import histcore
    gen = common.LEAN / "SparkxVerif/Gen/HistCore.lean"
    golden = common.LEAN / "golden/Gen/HistCore.lean"
    try:
        text, regions, notes = histcore.render(common.read_src("Histogram.py"))
    except (Untranslatable, SyntaxError) as e:
        # DESIGN 2.1 (i): the source has left the fragment the extractor understands -> the golden definitions (proved
        # equal to the hand model) take over; the correspondence carries the tie alone and runs with the thorough counts
        common.write_if_changed(gen, golden.read_text())
        ctx.fallback = True
        ctx.notes.append(f"translator could not re-derive the filling/scaling core ({e}); golden Gen/HistCore.lean used")
        ctx.cov["tie"] = "correspondence-only (translator could not re-derive: %s)" % str(e)[:300]
        ctx.cov["core_gen_equals_golden"] = True
        return [dict(file="src/sparkx/Histogram.py", what="Histogram filling/scaling core", hash=None,
                     untranslatable=str(e))]
    changed = common.write_if_changed(gen, text)
    same = golden.exists() and golden.read_text() == text
    ctx.cov["core_gen_equals_golden"] = same
    ctx.cov["gen_equals_golden"] = bool(ctx.cov.get("gen_equals_golden")) and same
    ctx.cov["translator_not_modelled"] = notes
    ctx.cov.setdefault("tie", "translator + correspondence")
    if changed:
        ctx.notes.append("Gen/HistCore.lean regenerated (source differs from last run)")
    return regions


# ------------------------------------------------------------------ op encoding for the driver
def _x(v):
    return "nan" if v != v else f2h(v)


def _xs(vs):
    return ";".join(_x(float(v)) for v in vs)


def enc_labels(labels):
    return f"{len(labels)}:" + "+".join(";".join(common.hexs(k) + "=" + common.hexs(v) for k, v in d.items())
                                         for d in labels)


def enc_op(op):
    k = op[0]
    if k == "x":        # (canonical form only; error-path calls are never sent to the driver)
        return "x," + common.hexs(json.dumps(jsonable(list(op)), sort_keys=True))
    if k == "cp":
        return "cp," + op[1]
    if k == "f":
        return f"f,{_x(float(op[1]))},{'-' if op[2] is None else _x(float(op[2]))}"
    if k == "fl":
        w = op[2]
        ws = "-" if w is None else ("s" + _x(float(w[1])) if w[0] == "s" else "l" + _xs(w[1]))
        return f"fl,{_xs(op[1])},{ws}"
    if k in ("ah", "se", "md", "av", "ae"):
        return k
    if k == "sc":
        return f"sc,{f2h(float(op[1]))}"
    if k in ("sl", "er", "sy", "aw"):
        return f"{k},{_xs(op[1])}"
    if k == "ab":
        return f"ab,{op[1]},{f2h(float(op[2]))}"
    if k == "rb":
        return f"rb,{op[1]}"
    if k == "wr":
        cols = "-" if op[1] is None else ";".join(common.hexs(c) for c in op[1])
        return f"wr,{cols},{enc_labels(op[2])}"
    raise ValueError(op)


def enc_case(edges, ops):
    """(error-path calls ("x", …) are outside the model: it is given the other calls only)"""
    return "hist\t" + ";".join(f2h(e) for e in edges) + "\t" + "|".join(enc_op(o) for o in ops if o[0] not in UNMODELLED)


# ------------------------------------------------------------------ running the real class
def _integral(v):
    return v == v and abs(v) < 2.0 ** 53 and float(v).is_integer()


def _scalar(v, how):
    """the number v in the representation the caller uses: Python float / int / bool, numpy float64 / int64 / int32 /
    float32 scalar.  Falls back to float when v has no exact representation of that kind (the VALUE never changes)."""
    if how == "int" and _integral(v):
        return int(v)
    if how == "np":
        return np.float64(v)
    if how == "npint" and _integral(v):
        return np.int64(v)
    if how == "npint32" and _integral(v) and abs(v) < 2 ** 31:
        return np.int32(v)
    if how == "np32" and v == v and float(np.float32(v)) == v:
        return np.float32(v)
    if how == "bool" and v in (0.0, 1.0):
        return bool(v)
    return float(v)


SCALAR_HOWS = ("float", "int", "np", "npint", "npint32", "np32", "bool")
CONTAINER_HOWS = ("list", "array", "ints", "mixed", "intarray", "int32array", "f32array", "npscalars", "bools")


def _container(vals, how):
    """the argument container the caller uses: Python list of floats / of ints / of ints where integral (mixed) / of
    bools / of numpy scalars, numpy float64 / int64 / int32 / float32 array.  Falls back to the float flavour when the
    values have no exact representation of that kind."""
    if how == "array":
        return np.array(vals, dtype=float)
    if how == "ints" and all(_integral(v) for v in vals):
        return [int(v) for v in vals]
    if how == "mixed":
        return [int(v) if _integral(v) else float(v) for v in vals]
    if how == "bools" and all(v in (0.0, 1.0) for v in vals):
        return [bool(v) for v in vals]
    if how == "npscalars":
        return [np.float64(v) for v in vals]
    if how == "intarray" and all(_integral(v) for v in vals):
        return np.array([int(v) for v in vals], dtype=np.int64)
    if how == "int32array" and all(_integral(v) and abs(v) < 2 ** 31 for v in vals):
        return np.array([int(v) for v in vals], dtype=np.int32)
    if how == "f32array" and all(v == v and float(np.float32(v)) == v for v in vals):
        return np.array(vals, dtype=np.float32)
    if how in ("intarray", "int32array", "f32array"):
        return np.array(vals, dtype=float)
    if how in SEQUENCE_KINDS:
        return SEQUENCE_KINDS[how]([float(v) for v in vals])
    return [float(v) for v in vals]


# other things a caller may hand in where the documentation says "list": used as a VALID representation only where the
# code under test accepts them with the result of the list form (`sequence_support`, probed once per run), otherwise the
# rejection is asserted (error-path call) — a one-shot iterator that is read twice shows as a wrong result
SEQUENCE_KINDS = {"tuple": tuple, "objarray": lambda xs: np.array(xs, dtype=object), "gen": lambda xs: (x for x in xs),
                  "iter": iter, "map": lambda xs: map(lambda x: x, xs)}
_SUPPORT = {}


def sequence_support():
    """{(method, parameter): {kind: 'same' | 'raises' | 'noop' | 'different'}} — what the code under test does with a
    tuple / numpy object array / generator / iterator / map object in place of the documented list, compared with the
    list form on equal objects (state and written file)."""
    if _SUPPORT:
        return _SUPPORT
    import os
    import tempfile

    def state(h):
        return jsonable({k: np.array(getattr(h, k), dtype=float).tolist() for k in
                         ("bin_edges_", "histograms_", "histograms_raw_count_", "error_", "scaling_", "systematic_error_")}
                        | {"nb": h.number_of_bins_, "nh": h.number_of_histograms_})

    def base():
        h = Histogram()([0.0, 1.0, 2.0, 4.0])
        h.add_value([0.5, 1.5, 1.5, 3.0])
        h.add_histogram()
        h.add_value([0.5, 3.0], weight=[2.0, 0.5])
        return h
    d = tempfile.mkdtemp()
    lab = [{c: f"{k}{c}" for c in ALL_COLS} for k in range(2)]

    def wr(h, **kw):
        fn = os.path.join(d, "f.csv")
        h.write_to_file(fn, **kw)
        return open(fn).read()
    calls = {("add_value", "value"): ([0.5, 1.5, 3.5], lambda h, x: h.add_value(x) and None),
             ("add_value", "weight"): ([1.0, 2.0, 0.5], lambda h, x: h.add_value([0.5, 1.5, 3.5], weight=x) and None),
             ("scale_histogram", "value"): ([2.0, 0.5, 3.0], lambda h, x: h.scale_histogram(x) and None),
             ("set_error", "own_error"): ([2.0, 0.5, 3.0], lambda h, x: h.set_error(x) and None),
             ("set_systematic_error", "own_error"): ([2.0, 0.5, 3.0], lambda h, x: h.set_systematic_error(x) and None),
             ("average_weighted", "weights"): ([1.0, 3.0], lambda h, x: h.average_weighted(x) and None),
             ("write_to_file", "hist_labels"): (lab, lambda h, x: wr(h, hist_labels=x)),
             ("write_to_file", "columns"): (["bin_low", "distribution"], lambda h, x: wr(h, hist_labels=lab, columns=x))}
    with warnings.catch_warnings():
        warnings.simplefilter("ignore")
        for key, (L, f) in calls.items():
            h = base()
            pre = state(h)
            RL = (f(h, list(L)), state(h))
            row = {}
            for kind, K in SEQUENCE_KINDS.items():
                h = base()
                try:
                    with np.errstate(all="ignore"):
                        r = (f(h, K(list(L))), state(h))
                    row[kind] = "same" if r == RL else "noop" if (r[1] == pre and RL[1] != pre) else "different"
                except Exception:  # noqa: BLE001
                    row[kind] = "raises" if state(h) == pre else "raises-changed"
            _SUPPORT[key] = row
    import shutil
    shutil.rmtree(d, ignore_errors=True)
    return _SUPPORT


def hows_for(method, param, base=None):
    """container representations for a list-valued argument: the list / ndarray flavours plus the other sequence kinds
    the code under test accepts for this parameter"""
    base = list(CONTAINER_HOWS if base is None else base)
    return base + [k for k, v in sequence_support().get((method, param), {}).items() if v == "same"]


def _hows(op):
    """(representation of the first argument, representation of the weight argument) of an op"""
    s = op[-1] if len(op) > 1 and isinstance(op[-1], str) and op[0] in ("f", "fl", "sc", "sl", "er", "sy", "aw") else "list"
    a, _, b = s.partition("|")
    return a, (b or ("array" if a == "array" else "list"))


# ---- call forms.  The documented parameter order (docstrings / signatures of sparkx.Histogram at HEAD), hard-coded:
# a signature change that re-binds positional arguments or changes a default shows as a wrong result.
REQ = object()
SIGNATURES = {
    "Histogram": [("bin_boundaries", REQ)],
    "add_value": [("value", REQ), ("weight", None)],
    "scale_histogram": [("value", REQ)],
    "set_error": [("own_error", REQ)],
    "set_systematic_error": [("own_error", REQ)],
    "add_bin": [("index", REQ), ("bin_edge", REQ)],
    "remove_bin": [("index", REQ)],
    "average_weighted": [("weights", REQ)],
    "write_to_file": [("filename", REQ), ("hist_labels", REQ), ("comment", ""), ("columns", None)],
    "add_histogram": [], "statistical_error": [], "make_density": [], "average": [], "average_weighted_by_error": [],
}
CALL_FORMS = ("positional", "positional-defaults-explicit", "keywords", "keywords-defaults-explicit", "mixed", "mixed-defaults-explicit")


def call_form(salt):
    import zlib
    return CALL_FORMS[zlib.crc32(repr(salt).encode()) % len(CALL_FORMS)]


def bind(method, given, form):
    """-> (args, kwargs): the call `method(**given)` written in the form `form`.  `given` maps parameter names to the
    arguments the caller passes; parameters with a default that are not in `given` are left out, or — in the
    '-defaults-explicit' forms — passed with the documented default value."""
    sig = SIGNATURES[method]
    names = [n for n, _ in sig]
    vals = {k: v for k, v in given.items() if k in names}
    if form.endswith("defaults-explicit"):
        for n, d in sig:
            if n not in vals and d is not REQ:
                vals[n] = d
    last = max([i for i, n in enumerate(names) if n in vals], default=-1)
    npos = 0 if form.startswith("keywords") else max(1, (last + 1) // 2) if form.startswith("mixed") else last + 1
    args = []
    for n, d in sig[:min(npos, last + 1)]:
        if n in vals:
            args.append(vals[n])
        elif d is not REQ:
            args.append(d)          # a gap in the positional prefix: the documented default
        else:
            break
    done = names[:len(args)]
    kwargs = {k: v for k, v in vals.items() if k not in done}
    kwargs.update({k: v for k, v in given.items() if k not in names})     # (error-path calls: unknown keywords)
    return args, kwargs


def invoke(target, method, given, salt=None, form=None):
    """call `target.method` (or the class `target` itself for method 'Histogram') with the arguments `given` in one of
    the equivalent call forms, chosen by a process-independent hash of `salt` (the op)"""
    args, kwargs = bind(method, given, form or call_form((method, salt)))
    f = target if method == "Histogram" else getattr(target, method)
    return f(*args, **kwargs)


def _pickle_round_trip(x):
    import pickle
    return pickle.loads(pickle.dumps(x))


def _copiers():
    import copy
    return {"copy": copy.copy, "deepcopy": copy.deepcopy, "pickle": _pickle_round_trip}


def maybe_copied(x, salt):
    """an input object as it is, or (fixed by the hash of the call) its copy.copy / copy.deepcopy / pickle round trip"""
    import zlib
    z = zlib.crc32(repr(("input-copy", salt)).encode()) % 8
    if z >= 3:
        return x
    try:
        return list(_copiers().values())[z](x)
    except Exception:  # noqa: BLE001 - not copyable (generators): as it is
        return x


class EnvironmentLeak(Exception):
    """the call completed, but left process-wide state changed (what: list of names)"""

    def __init__(self, what):
        super().__init__("call left process-wide state changed: " + ", ".join(what))
        self.what = what


def in_environment(salt, call):
    """run `call()`; for one call in three (fixed by the hash of the call) in a non-default environment — numpy error
    state 'warn', terse numpy print options, advanced `random` / `np.random` global states — and check that the call
    leaves `random`, `np.random`, np.geterr(), the print options and the working directory as it found them."""
    import os
    import random
    import zlib
    z = zlib.crc32(repr(("environment", salt)).encode())
    if z % 3:
        return call()
    old = (np.geterr(), np.get_printoptions(), random.getstate(), np.random.get_state())
    try:
        np.seterr(all="warn")
        np.set_printoptions(precision=2, threshold=3, suppress=True, linewidth=30)
        random.seed(z)
        random.random()
        np.random.seed(z % 2 ** 32)
        np.random.random(3)
        found = (np.geterr(), np.get_printoptions(), random.getstate(), np.random.get_state(), os.getcwd())
        exc, result = None, None
        try:
            result = call()
        except Exception as e:  # noqa: BLE001
            exc = e
        now = (np.geterr(), np.get_printoptions(), random.getstate(), np.random.get_state(), os.getcwd())
        names = ("numpy-error-state", "numpy-print-options", "random-state", "numpy-random-state", "working-directory")
        leaks = [n for n, a, b in zip(names, found, now)
                 if not (a == b if n != "numpy-random-state" else
                         (a[0] == b[0] and np.array_equal(a[1], b[1]) and tuple(a[2:]) == tuple(b[2:])))]
        if os.getcwd() != found[4]:
            os.chdir(found[4])
    finally:
        np.seterr(**old[0])
        np.set_printoptions(**old[1])
        random.setstate(old[2])
        np.random.set_state(old[3])
    if exc is not None:
        raise exc
    if leaks:
        raise EnvironmentLeak(leaks)
    return result


OPMETHOD = dict(f="add_value", fl="add_value", ah="add_histogram", sc="scale_histogram", sl="scale_histogram",
                se="statistical_error", md="make_density", er="set_error", sy="set_systematic_error", ab="add_bin",
                rb="remove_bin", av="average", aw="average_weighted", ae="average_weighted_by_error", wr="write_to_file")


def _materialise(v, tmp):
    """arguments of an error-path call as Python objects: JSON values as they are, {"__tuple__": [...]} -> tuple,
    {"__array__": [...]} -> numpy array, "<tmpfile>" / "<dir>" / "<missing-dir>/f.csv" -> paths"""
    if isinstance(v, dict) and set(v) == {"__tuple__"}:
        return tuple(_materialise(x, tmp) for x in v["__tuple__"])
    if isinstance(v, dict) and set(v) == {"__array__"}:
        return np.array(v["__array__"])
    if isinstance(v, dict) and set(v) == {"__kind__", "items"}:
        return SEQUENCE_KINDS[v["__kind__"]]([_materialise(x, tmp) for x in v["items"]])
    if isinstance(v, dict):
        return {k: _materialise(x, tmp) for k, x in v.items()}
    if isinstance(v, list):
        return [_materialise(x, tmp) for x in v]
    if v == "<tmpfile>":
        return tmp("file")
    if v == "<dir>":
        return tmp("dir")
    if v == "<missing-dir>/f.csv":
        return tmp("dir") + "/no-such-directory/f.csv"
    return v


def path_form(wsalt):
    """how the file name of a write_to_file call is given (fixed by the hash of the call)"""
    import zlib
    return ("absolute", "absolute", "bare", "dot-slash", "subdir")[zlib.crc32(repr(("path", wsalt)).encode()) % 5]


def op_method(op):
    if op[0] == "cp":
        return {"copy": "copy.copy", "deepcopy": "copy.deepcopy", "pickle": "pickle round trip"}[op[1]]
    return op[1] if op[0] == "x" else OPMETHOD.get(op[0], op[0])


UNMODELLED = ("x", "cp")        # calls the Lean model is not shown: they must not change the state


def apply_op(h, op, tmpdir=None):
    """apply one op to a real Histogram; returns extra observation (for 'wr') or None; raises what the code raises.
    Every call is written in one of the equivalent call forms (`invoke`), fixed by the content of the op.
    ("x", method, [[name, value], ...], flags): an error-path call outside the model — arbitrary (JSON) arguments,
    flag "warn" = issued under warnings.simplefilter("error")."""
    k = op[0]
    how, whow = _hows(op)
    salt = jsonable(list(op))

    def call(method, **given):
        given = {n: (maybe_copied(v, (salt, n)) if isinstance(v, (list, tuple, dict, np.ndarray)) else v) for n, v in given.items()}
        return in_environment(salt, lambda: invoke(h, method, given, salt))

    if k == "cp":
        # ("cp", "copy" | "deepcopy" | "pickle"): the session goes on with a copy of the object
        c = in_environment(salt, lambda: _copiers()[op[1]](h))
        if type(c) is not type(h):
            raise TypeError(f"the copy is a {type(c).__name__}")
        new = dict(c.__dict__)
        h.__dict__.clear()
        h.__dict__.update(new)
        return None
    if k == "x":
        import os
        import shutil
        import tempfile
        made = []

        def tmp(kind):
            if kind == "dir":
                d = tempfile.mkdtemp(dir=tmpdir)
                made.append(d)
                return d
            fd, fn = tempfile.mkstemp(suffix=".csv", dir=tmpdir)
            os.close(fd)
            made.append(fn)
            return fn
        given = {n: _materialise(v, tmp) for n, v in op[2]}
        flags = op[3] if len(op) > 3 else []
        try:
            with warnings.catch_warnings():
                warnings.simplefilter("error" if "warn" in flags else "ignore")
                invoke(h, op[1], given, salt)
        finally:
            for m in made:
                shutil.rmtree(m, ignore_errors=True) if os.path.isdir(m) else (os.path.exists(m) and os.unlink(m))
        return None
    if k == "f":
        v = _scalar(op[1], how)
        if op[2] is None:
            call("add_value", value=v)
        else:
            call("add_value", value=v, weight=_scalar(op[2], whow if whow in SCALAR_HOWS else "float"))
    elif k == "fl":
        vals = _container(op[1], how)
        w = op[2]
        if w is None:
            call("add_value", value=vals)
        elif w[0] == "s":
            call("add_value", value=vals, weight=w[1])
        else:
            call("add_value", value=vals, weight=_container(w[1], whow))
    elif k == "ah":
        call("add_histogram")
    elif k == "sc":
        call("scale_histogram", value=_scalar(op[1], how))
    elif k == "sl":
        call("scale_histogram", value=_container(op[1], how))
    elif k == "se":
        call("statistical_error")
    elif k == "md":
        call("make_density")
    elif k == "er":
        call("set_error", own_error=_container(op[1], how))
    elif k == "sy":
        call("set_systematic_error", own_error=_container(op[1], how))
    elif k == "ab":
        call("add_bin", index=op[1], bin_edge=op[2])
    elif k == "rb":
        call("remove_bin", index=op[1])
    elif k == "av":
        call("average")
    elif k == "aw":
        call("average_weighted", weights=_container(op[1], how))
    elif k == "ae":
        call("average_weighted_by_error")
    elif k == "wr":
        import os
        import shutil
        import tempfile
        import zlib
        comment = op[3] if len(op) > 3 else ""
        wsalt = jsonable([op[0], op[1], op[2], comment])
        d = tempfile.mkdtemp(dir=tmpdir)
        cwd = os.getcwd()
        # the file name as a caller may give it: absolute / bare relative name in the working directory / './name' /
        # relative path into an existing sub-directory
        form = path_form(wsalt)
        try:
            if form == "absolute":
                fn = os.path.join(d, "hist.csv")
            else:
                os.chdir(d)
                if form == "subdir":
                    os.mkdir("out")
                fn = {"bare": "hist.csv", "dot-slash": "./hist.csv", "subdir": os.path.join("out", "hist.csv")}[form]
            given = dict(filename=fn, hist_labels=maybe_copied(op[2], (wsalt, "labels")))
            if comment != "":
                given["comment"] = comment
            if op[1] is not None:
                given["columns"] = maybe_copied(list(op[1]), (wsalt, "columns"))
            here = os.getcwd()
            in_environment(wsalt, lambda: invoke(h, "write_to_file", given, wsalt))
            if os.getcwd() != here:
                raise EnvironmentLeak(["working-directory"])
            with open(fn, newline="") as f:        # no newline translation: header texts may hold line breaks
                return parse_csv(f.read())
        finally:
            os.chdir(cwd)
            shutil.rmtree(d, ignore_errors=True)
    else:
        raise AssertionError(op)
    return None


class Blocks(list):
    """the parsed file: a list of (header cells, rows of floats); `.comments` = the '#' lines"""
    comments = ()


def parse_csv(text):
    """blocks = (header cells, rows of floats); blocks end with an empty line; '#' lines are comments"""
    import csv
    import io
    blocks, cur, comments = Blocks(), None, []
    for row in csv.reader(io.StringIO(text)):
        if row and row[0].startswith("#"):
            comments.append(",".join(row))
            continue
        if not row:
            if cur is not None:
                blocks.append(cur)
            cur = None
            continue
        if cur is None:
            cur = (row, [])
        else:
            cur[1].append([float(c) for c in row])
    if cur is not None:
        blocks.append(cur)
    blocks.comments = tuple(comments)
    return blocks


def arr(a):
    a = np.asarray(a)
    return dict(shape=list(a.shape), data=a.astype(float).tolist())


def observe(h):
    return dict(nb=h.number_of_bins_, nh=h.number_of_histograms_, edges=[float(x) for x in h.bin_edges_],
                hist=arr(h.histogram()), raw=arr(h.histogram_raw_counts()), err=arr(h.standard_error()),
                scal=arr(h.scaling_), sys=arr(h.systematic_error_),
                centers=[float(x) for x in h.bin_centers()], widths=[float(x) for x in h.bin_width()],
                left=[float(x) for x in h.bin_bounds_left()], right=[float(x) for x in h.bin_bounds_right()],
                bounds=[float(x) for x in h.bin_boundaries()])


LIST_REPS = ("float", "int", "mixed", "np", "npint")
ARRAY_REPS = ("float64", "int64", "int32", "float32")
TUPLE_REPS = ("as-is", "int", "float", "np", "npint")      # (float32 end points make np.linspace work in single precision)


def make_hist(ctor):
    """ctor = ("tuple", lo, hi, n[, rep]) | ("list", edges[, rep]) | ("array", edges[, rep]): the same binning in the
    representation `rep` the caller uses (Python ints / floats / mixed, numpy scalars, int64 / int32 / float32 / float64
    arrays).  A representation that cannot hold the edges exactly falls back to floats: the VALUES never change."""
    cls = Histogram()
    salt = jsonable(list(ctor))

    def H(x):
        return invoke(cls, "Histogram", dict(bin_boundaries=x), salt)
    if ctor[0] == "tuple":
        rep = ctor[4] if len(ctor) > 4 else "as-is"
        lo, hi = (ctor[1], ctor[2]) if rep == "as-is" else (_scalar(ctor[1], rep), _scalar(ctor[2], rep))
        return H((lo, hi, ctor[3]))
    rep = ctor[2] if len(ctor) > 2 else None
    es = [float(e) for e in ctor[1]]
    if ctor[0] == "array":
        if rep == "int64" and all(_integral(e) for e in es):
            return H(np.array([int(e) for e in es], dtype=np.int64))
        if rep == "int32" and all(_integral(e) and abs(e) < 2 ** 31 for e in es):
            return H(np.array([int(e) for e in es], dtype=np.int32))
        if rep == "float32" and all(float(np.float32(e)) == e for e in es):
            return H(np.array(es, dtype=np.float32))
        return H(np.array(es, dtype=float))
    if rep in ("int", "mixed"):
        return H([int(e) if _integral(e) else e for e in es])
    if rep in ("np", "npint"):
        return H([_scalar(e, rep) for e in es])
    return H(es)


def ctor_flavour(ctor):
    """for the distribution histogram: kind / representation / dtype class of the edges the object ends up with"""
    try:
        dt = make_hist(ctor).bin_edges_.dtype
    except Exception:  # noqa: BLE001
        dt = "?"
    rep = (ctor[4] if len(ctor) > 4 else "as-is") if ctor[0] == "tuple" else (ctor[2] if len(ctor) > 2 else "float")
    return f"{ctor[0]}/{rep}/edges-{dt}"


def run_real(ctor, ops):
    """-> (initial edges, [(tag, observation | write result)])"""
    h = make_hist(ctor)
    edges0 = [float(x) for x in h.bin_edges_]
    out = []
    for op in ops:
        try:
            with np.errstate(all="ignore"):
                extra = apply_op(h, op)
            tag = "ok"
        except Exception as e:  # noqa: BLE001 - the kind is what is compared
            tag = "err:" + EXC_KIND.get(type(e), type(e).__name__)
            extra = None
        if op[0] == "wr":
            out.append((tag, extra))
        else:
            out.append((tag, observe(h)))
    return edges0, out


# ------------------------------------------------------------------ parsing the driver's answer
def _pf(s):
    return [h2f(t) for t in s.split(";")] if s else []


def _parr(s):
    n, body = s.split(":", 1)
    n = int(n)
    if n == 0:
        return []
    rows = body.split("/")
    assert len(rows) == n, s
    return [_pf(r) for r in rows]


def parse_obs(s):
    p = s.split("~")
    if p[0] == "w":
        if p[1] != "ok":
            return (p[1], None)
        n, body = p[2].split(":", 1)
        blocks = []
        if int(n):
            for b in body.split("#"):
                hd, rows = b.split("@", 1)
                rows = _parr(rows)
                # an empty header field: one column labelled "" (a write with NO column is never generated with rows)
                one_empty = hd == "" and not (rows and len(rows[0]) == 0)
                blocks.append(([""] if one_empty else [bytes.fromhex(c).decode() for c in hd.split(";")], rows))
        return ("ok", blocks)
    d = dict(nb=int(p[1]), nh=int(p[2]), edges=_pf(p[3]), hist=_parr(p[4]), raw=_parr(p[5]),
             err=_parr(p[6]), scal=_parr(p[7]), sys=_parr(p[8]), centers=_pf(p[9]), widths=_pf(p[10]))
    if len(p) >= 14:        # `ghist`: the generated bin_bounds_left / bin_bounds_right / bin_boundaries
        d.update(left=_pf(p[11]), right=_pf(p[12]), bounds=_pf(p[13]))
    return (p[0], d)


def parse_answer(line):
    if not line.startswith("ok "):
        return None, None
    if "\t" not in line:        # `ghist`: no specification side
        body = line[3:]
        return ([parse_obs(o) for o in body.split("|")] if body else []), None
    body, spec = line[3:].split("\t")
    obs = [parse_obs(o) for o in body.split("|")] if body else []
    sc, sr = spec.split("~")
    return obs, (_pf(sc), _pf(sr))


# ------------------------------------------------------------------ comparison
class TOL:
    """relative tolerance once an inexact operation (make_density, averaging) has run.  An object whose edges the
    caller gave in single precision (float32 array) is entitled to single-precision arithmetic wherever the widths
    enter (numpy keeps float32 in float32-with-Python-scalar expressions), everything else is held to 1e-11."""
    rel = 1e-11
    integral = 1e-9


def set_precision(ctor_or_hist):
    h = make_hist(ctor_or_hist) if isinstance(ctor_or_hist, (tuple, list)) else ctor_or_hist
    single = getattr(h.bin_edges_, "dtype", None) == np.float32
    TOL.rel = 1e-6 if single else 1e-11
    TOL.integral = 1e-6 if single else 1e-9
    return single


def feq(a, b, exact):
    if a != a and b != b:
        return True
    if a == b:
        return True
    if exact:
        return False
    return common.close(a, b, rel=TOL.rel, abs_=1e-300)


def rows_eq(real, model, exact):
    """real = dict(shape,data) from numpy; model = list of rows"""
    if len(real["shape"]) != 2 or real["shape"][0] != len(model):
        return False
    for r, m in zip(real["data"], model):
        if len(r) != len(m) or not all(feq(x, y, exact) for x, y in zip(r, m)):
            return False
    return True


def vec_eq(a, b, exact):
    return len(a) == len(b) and all(feq(x, y, exact) for x, y in zip(a, b))


def compare_obs(real, model, exact, arrays=("hist", "raw", "err", "scal", "sys")):
    """-> None or the name of the first differing observable"""
    (rt, ro), (mt, mo) = real, model
    if rt != mt:
        return f"outcome {rt} vs model {mt}"
    if mo is None or ro is None:
        return None
    if isinstance(mo, list):  # write result
        if len(ro) != len(mo):
            return f"{len(ro)} blocks vs model {len(mo)}"
        for b, (rb, mb) in enumerate(zip(ro, mo)):
            if list(rb[0]) != list(mb[0]):
                return f"header of block {b}: {rb[0]} vs model {mb[0]}"
            if len(rb[1]) != len(mb[1]) or not all(vec_eq(x, y, exact) for x, y in zip(rb[1], mb[1])):
                return f"rows of block {b}: {rb[1]} vs model {mb[1]}"
        return None
    if ro["nb"] != mo["nb"] or ro["nh"] != mo["nh"]:
        return f"(nBins,nHist) {(ro['nb'], ro['nh'])} vs model {(mo['nb'], mo['nh'])}"
    for k in ("edges", "centers", "widths", "left", "right", "bounds"):
        if k in mo and k in ro and not vec_eq(ro[k], mo[k], exact):
            return f"{k}: {ro[k]} vs model {mo[k]}"
    for k in arrays:
        if not rows_eq(ro[k], mo[k], exact):
            return f"{k}: shape {ro[k]['shape']} {ro[k]['data']} vs model {mo[k]}"
    return None


def init_obs(edges):
    """the state of a new histogram as the driver would print it"""
    nb = len(edges) - 1
    return dict(nb=nb, nh=1, edges=list(edges), hist=[[0.0] * nb], raw=[[0.0] * nb], err=[[0.0] * nb], scal=[[1.0] * nb],
                sys=[[0.0] * nb], centers=[(edges[i] + edges[i + 1]) / 2.0 for i in range(nb)],
                widths=[edges[i + 1] - edges[i] for i in range(nb)])


def compare_history(ctor, ops, answer, arrays=("hist", "raw", "err", "scal", "sys"), real_run=None):
    """-> (None | description of first difference, index of the op).  An error-path call ("x", …) is not shown to the
    model: it has to raise and to leave the object in the state the model has after the calls before it."""
    set_precision(ctor)
    edges0, real = real_run if real_run is not None else run_real(ctor, ops)
    obs, spec = parse_answer(answer)
    if obs is None or len(obs) != len([o for o in ops if o[0] not in UNMODELLED]):
        return f"driver answered {answer[:200]}", -1, real, spec
    exact = True
    it = iter(obs)
    last = ("ok", init_obs(edges0))
    if obs and isinstance(obs[0][1], dict) and "bounds" in obs[0][1]:
        nb0 = len(edges0) - 1
        last[1].update(left=list(edges0[:nb0]), right=list(edges0[1:]), bounds=list(edges0))
    for i, (op, r) in enumerate(zip(ops, real)):
        if op[0] == "cp":
            d = f"raised {r[0]}" if r[0] != "ok" else compare_obs(("ok", r[1]), ("ok", last[1]), exact, arrays)
            if d:
                return f"after call {i}: the {op_method(op)} of the object differs from the object: {d}", i, real, spec
            continue
        if op[0] == "x":
            if not r[0].startswith("err") and "silent-ok" not in op[3]:
                return None, -1, real, spec        # the call was accepted: not an error path, nothing to compare further
            d = compare_obs(("ok", r[1]), ("ok", last[1]), exact, arrays)
            if d:
                return f"after the failed call {i} {op[1]}{op[2]} ({r[0]}) the object is not as before: {d}", i, real, spec
            continue
        m = next(it)
        if op[0] in INEXACT_OPS:
            exact = False
        d = compare_obs(r, m, exact, arrays)
        if d:
            return f"after op {i} {op[:3]}: {d}", i, real, spec
        if op[0] != "wr":
            last = m
    return None, -1, real, spec


# ------------------------------------------------------------------ generators
def gen_ctor(rng, max_bins=8, min_bins=1):
    """every binning flavour, each also in integer / single-precision / mixed representation"""
    n = rng.randint(min_bins, max_bins)
    r = rng.random()
    if r < 0.3:   # uniform tuple
        lo = rng.choice([0, 0.0, -2.5, 1.0, -8, 0.125, -0.75])
        span = rng.choice([1, 2, 3, 0.5, 10, 7, 1.7])
        return ("tuple", lo, lo + span, n, rng.choice(TUPLE_REPS))
    if rng.random() < 0.4:      # all-integer edges: the binnings a user types as [0, 1, 2, 5] or np.arange(5)
        steps = [rng.choice([1.0, 1.0, 2.0, 3.0, 5.0]) for _ in range(n)]
        if rng.random() < 0.4:
            steps = [1.0] * n
        lo = rng.choice([0.0, -3.0, 2.0, 1.0, -10.0])
    else:
        steps = [rng.choice([0.25, 0.5, 1.0, 1.5, 2.0, 3.0, 0.125, 5.0]) for _ in range(n)]
        if r < 0.4:
            steps = [1.0] * n          # explicit unit widths
        lo = rng.choice([0.0, -3.0, 2.0, -0.5, -10.25])
    edges = [lo]
    for s in steps:
        edges.append(edges[-1] + s)
    if rng.random() < 0.4:
        return ("array", edges, rng.choice(ARRAY_REPS))
    return ("list", edges, rng.choice(LIST_REPS))


def gen_value(rng, edges, nan_ok=True):
    r = rng.random()
    lo, hi = edges[0], edges[-1]
    if r < 0.30:
        return rng.choice(edges)                                  # bit-equal to an edge
    if r < 0.38:
        e = rng.choice(edges)
        return float(np.nextafter(e, rng.choice([-INF, INF])))     # one ulp beside an edge
    if r < 0.46:
        return rng.choice([lo - 1.0, hi + 0.5, hi, lo, INF, -INF, hi + 1e300, lo - 1e-300])
    if r < 0.48 and nan_ok:
        return NAN
    if r < 0.52 and 0.0 in edges:
        return -0.0
    if len(edges) > 1 and r < 0.75:
        i = rng.randrange(len(edges) - 1)
        return (edges[i] + edges[i + 1]) / 2
    return lo + (hi - lo) * rng.randint(-2, 18) / 16.0


def gen_weight(rng, nan_ok=False):
    if nan_ok and rng.random() < 0.04:
        return NAN
    return rng.choice([1.0, 0.5, 2.0, 0.125, 3.0, 1.5, 0.0, -1.0, -0.5, 7.0, 0.375])


def gen_fill(rng, edges):
    r = rng.random()
    if r < 0.35:
        v = gen_value(rng, edges)
        w = None if rng.random() < 0.5 else gen_weight(rng, nan_ok=True)
        return ("f", v, w, rng.choice(SCALAR_HOWS) + "|" + rng.choice(SCALAR_HOWS))
    n = rng.choice([0, 1, 2, 3, 4, 6])
    vs = [gen_value(rng, edges, nan_ok=rng.random() < 0.15) for _ in range(n)]
    r = rng.random()
    if r < 0.4:
        w = None
    elif r < 0.47:
        w = ("s", gen_weight(rng))
    else:
        m = n if rng.random() < 0.9 else n + rng.choice([1, -1]) if n else 1
        w = ("l", [gen_weight(rng, nan_ok=rng.random() < 0.3) for _ in range(max(m, 0))])
    return ("fl", vs, w, rng.choice(hows_for("add_value", "value")) + "|" + rng.choice(hows_for("add_value", "weight")))


def gen_scale(rng, nbins):
    if rng.random() < 0.6:
        return ("sc", rng.choice([2.0, 0.5, 3.0, 1.0, 0.0, 0.25, -1.0, 4.0, 1.5]), rng.choice(SCALAR_HOWS[:-1]))
    n = nbins if rng.random() < 0.85 else nbins + rng.choice([1, -1])
    cs = [rng.choice([1.0, 2.0, 0.5, 0.0, 3.0, 0.25]) for _ in range(max(n, 0))]
    if rng.random() < 0.08 and cs:
        cs[rng.randrange(len(cs))] = -1.0
    return ("sl", cs, rng.choice(hows_for("scale_histogram", "value", CONTAINER_HOWS[:-2])))


# ---- error paths
BAD_ELEMENTS = ["a", None, [1.0], {"k": 1.0}]
ALL_METHODS = ["add_value", "add_value", "add_value", "scale_histogram", "scale_histogram", "set_error", "set_error",
               "set_systematic_error", "add_bin", "add_bin", "remove_bin", "average_weighted", "average_weighted",
               "write_to_file", "write_to_file", "write_to_file", "add_histogram", "statistical_error", "make_density",
               "average", "average_weighted_by_error"]


def _is_num(x):
    return isinstance(x, (int, float)) and x == x


def _inside_value(rng, edges):
    i = rng.randrange(len(edges) - 1)
    return (edges[i] + edges[i + 1]) / 2


def gen_error_call(rng, edges, nh=1, methods=None, front_only=False):
    """an error-path call ("x", method, [[parameter, argument], …], flags): a call that has to raise, at different depths
    of the method's work — rejected by the argument checks up front; a bad element (wrong type, NaN) at position 0 /
    in the middle / at the end of the data, so that the elements before it may have been processed; an argument of
    the wrong type; an unknown keyword; an unwritable path; a warning turned into an error (flag "warn").
    front_only: only calls that fail before any element has been processed."""
    nb = len(edges) - 1
    methods = methods or ALL_METHODS
    m = rng.choice(methods)
    flags = []

    def pos(n):
        return 0 if front_only or n <= 1 else rng.choice([0, n // 2, n - 1])

    def poisoned(xs, bads):
        xs = list(xs)
        if not xs:
            return [rng.choice(bads)]
        xs[pos(len(xs))] = rng.choice(bads)
        return xs
    given = None
    # a tuple / object array / one-shot iterator where the documentation says list, for the parameters where the code
    # under test does not take them like a list: it has to refuse them ("raises") or ignore them ("noop") — either way
    # nothing may change
    seqs = {"add_value": ("value", "weight"), "scale_histogram": ("value",), "set_error": ("own_error",),
            "set_systematic_error": ("own_error",), "average_weighted": ("weights",), "write_to_file": ("hist_labels", "columns")}
    if m in seqs and nb >= 1 and rng.random() < 0.25:
        prm = rng.choice(seqs[m])
        kinds = [(k_, v) for k_, v in sequence_support().get((m, prm), {}).items() if v in ("raises", "noop")]
        if kinds:
            kind, what = rng.choice(kinds)
            n = nh if prm == "weights" else rng.randint(1, 4) if m == "add_value" else nb
            items = [rng.choice([1.0, 0.5, 2.0]) for _ in range(n)]
            full = [{c: f"h{k_}:{c}" for c in ALL_COLS} for k_ in range(nh)]
            if m == "add_value":
                vals = [_inside_value(rng, edges) for _ in range(n)]
                given = [["value", {"__kind__": kind, "items": vals}]] if prm == "value" else \
                        [["value", vals], ["weight", {"__kind__": kind, "items": items}]]
            elif m == "write_to_file":
                given = [["filename", "<tmpfile>"], ["hist_labels", {"__kind__": kind, "items": full} if prm == "hist_labels" else full]] + \
                        ([["columns", {"__kind__": kind, "items": ["bin_low", "distribution"]}]] if prm == "columns" else [])
            else:
                given = [[prm, {"__kind__": kind, "items": items}]]
            return ("x", m, given, ["silent-ok"] if what == "noop" else [])
    if m == "add_value" and nb >= 1:
        n = rng.randint(1, 5)
        vals = [_inside_value(rng, edges) for _ in range(n)]
        ws = [rng.choice([1.0, 0.5, 2.0, 3.0]) for _ in range(n)]
        q = rng.randrange(9)
        if q == 0:
            given = [["value", poisoned(vals, BAD_ELEMENTS)]] + ([["weight", ws]] if rng.random() < 0.5 else [])
        elif q == 1:
            given = [["value", vals], ["weight", poisoned(ws, ["a", [1.0], NAN, {"k": 1.0}])]]
        elif q == 2:
            given = [["value", vals], ["weight", ws + [1.0] if rng.random() < 0.5 else ws[:-1]]]
        elif q == 3:
            given = [["value", rng.choice(["abc", None, {"__tuple__": vals}, {"v": 1.0}])]] + \
                    ([["weight", rng.choice([1.0, ws])]] if rng.random() < 0.4 else [])
        elif q == 4:
            given = [["value", vals], ["weight", 2.0]]
        elif q == 5:
            given = [["value", vals[0]], ["weight", rng.choice([[1.0], "a", {"w": 1.0}])]]
        elif q == 6:
            out = rng.choice([edges[0] - 1.0, edges[-1] + 0.5])
            flags = ["warn"]
            if rng.random() < 0.3:
                given = [["value", out]] + ([["weight", 2.0]] if rng.random() < 0.5 else [])
            else:
                vals[pos(n)] = out
                given = [["value", vals]] + ([["weight", ws]] if rng.random() < 0.5 else [])
        elif q == 7:
            given = [["value", poisoned(vals, [NAN])]] + ([["weight", ws]] if rng.random() < 0.5 else [])
        else:
            given = [["value", vals], ["wieght", ws]]
    elif m == "scale_histogram" and nb >= 1:
        cs = [rng.choice([1.0, 2.0, 0.5, 3.0]) for _ in range(nb)]
        given = [["value", rng.choice([poisoned(cs, ["a", None, [1.0]]), poisoned(cs, [-1.0, -0.5]), cs + [1.0], cs[:-1],
                                       -2.0, [cs]])]]
    elif m in ("set_error", "set_systematic_error"):
        es = [rng.choice([1.0, 0.5, 2.0, 3.0]) for _ in range(nb)]
        given = [["own_error", rng.choice([poisoned(es, ["a", "x y"]), poisoned(es, [[1.0], {"k": 1.0}]), es + [1.0], es[:-1] if es else 1.0,
                                           {"__tuple__": es}, 1.0, None, [es, es]])]]
    elif m == "add_bin":
        i = rng.randint(0, nb)
        hi = edges[i]
        lo = edges[i - 1] if i > 0 else hi - 1.0
        good = lo + (hi - lo) * 0.5
        given = rng.choice([[["index", float(i)], ["bin_edge", good]], [["index", str(i)], ["bin_edge", good]],
                            [["index", None], ["bin_edge", good]], [["index", i], ["bin_edge", str(good)]],
                            [["index", i], ["bin_edge", None]], [["index", i], ["bin_edge", [good]]],
                            [["index", -1], ["bin_edge", good]], [["index", nb + 1], ["bin_edge", edges[-1] + 1.0]],
                            [["index", i], ["bin_edge", hi]], [["index", i], ["bin_edge", hi + 1e6]],
                            [["index", i], ["bin_edge", lo - 1.0 if i > 0 else hi]], [["index", i]],
                            [["index", i], ["bin_edge", good], ["edge", good]]])
    elif m == "remove_bin":
        given = rng.choice([[["index", 1.0]], [["index", "0"]], [["index", None]], [["index", [0]]], [["index", nb]],
                            [["index", -1]], [["index", nb + 3]], [], [["index", 0], ["axis", 1]]])
    elif m == "average_weighted":
        ws = [rng.choice([1.0, 2.0, 0.5]) for _ in range(nh)]
        given = [["weights", rng.choice([poisoned(ws, ["a", [1.0], {"k": 1.0}]), ws + [1.0], ws[:-1], [ws, ws] if nh > 1 else [[1.0, 1.0]],
                                         ([1.0, -1.0] + [0.0] * (nh - 2)) if nh >= 2 else [0.0], "ab"])]]
    elif m == "write_to_file":
        full = [{c: f"h{k}:{c}" for c in ALL_COLS} for k in range(nh)]
        q = rng.randrange(12)
        ok = [["filename", "<tmpfile>"], ["hist_labels", full]]
        if q == 0:
            given = ok + [["columns", rng.choice([["bin_low", "foo"], ["foo"], ["distribution", 5]])]]
        elif q == 1:
            given = ok + [["columns", rng.choice(["bin_low", {"__tuple__": ["bin_low"]}, 3])]]
        elif q == 2:
            given = [["filename", "<tmpfile>"], ["hist_labels", rng.choice([full[0], "labels", None, [full[0], "x"], [["bin_low", "x"]]])]]
        elif q == 3:
            broken = [dict(d) for d in full]
            del broken[-1][rng.choice(ALL_COLS)]
            given = [["filename", "<tmpfile>"], ["hist_labels", broken]]
        elif q == 4:
            given = [["filename", "<tmpfile>"], ["hist_labels", []]]
        elif q == 5:
            given = [["filename", rng.choice(["<dir>", "<missing-dir>/f.csv", None, 5.0, ["f.csv"]])], ["hist_labels", full]]
        elif q == 6:
            given = ok + [["comment", rng.choice([None, 5, ["# c"]])]]
        elif q == 7 and nh >= 3:
            given = [["filename", "<tmpfile>"], ["hist_labels", full[:2]]]
        elif q == 8 and nh >= 2:
            given, flags = [["filename", "<tmpfile>"], ["hist_labels", full[:1]]], ["warn"]
        elif q == 9:
            given = [["hist_labels", full]]
        elif q == 10:
            given = ok + [["column", ["bin_low"]]]
        else:
            given = ok + [["columns", ["bin_low", "distribution"]], ["hist_labels2", full]]
    if given is None:       # the methods without parameters (and the fall-backs): an argument too many
        m = m if m in SIGNATURES else "add_histogram"
        if SIGNATURES[m] and m not in ("add_histogram", "statistical_error", "make_density", "average", "average_weighted_by_error"):
            m = rng.choice(["add_histogram", "statistical_error", "make_density", "average", "average_weighted_by_error"])
        given = [[rng.choice(["value", "weights", "n", "index"]), rng.choice([1, 1.0, None, [1.0]])]]
    return ("x", m, given, flags)


def prefix_equivalent(op, edges, nb, last_err=None, last_sys=None):
    """A failed call of one of the element-wise paths may have processed exactly the elements before the offending
    one.  -> the VALID op with that effect, or None when the call has no such prefix (nothing may have changed)."""
    def floats(xs):
        return [float(x) for x in xs]
    if op[0] == "fl":
        w = op[2]
        if w and w[0] == "l" and len(w[1]) == len(op[1]) and all(v == v for v in op[1]):
            p = next((i for i, x in enumerate(w[1]) if x != x), None)
            if p:
                return ("fl", floats(op[1][:p]), ("l", floats(w[1][:p])), "list")
        return None
    if op[0] == "md":
        return ("se",)      # make_density = zero test, statistical_error(), scale_histogram(...): the last step may refuse
    if op[0] != "x":
        return None
    given = {n: v for n, v in op[2]}
    flags = op[3] if len(op) > 3 else []
    if set(given) - {n for n, _ in SIGNATURES.get(op[1], [])}:
        return None         # unknown keyword: rejected by Python before the method runs
    if op[1] == "add_value":
        v, w = given.get("value"), given.get("weight")
        if not (isinstance(v, list) and v and all(_is_num(x) for x in v)):
            return None
        if isinstance(w, list) and len(w) == len(v):
            p = next((i for i, x in enumerate(w) if not _is_num(x)), None)
            if p is None and "warn" not in flags:
                return None
        elif w is not None:
            return None
        else:
            p = None
        if "warn" in flags:
            q = next((i for i, x in enumerate(v) if x < edges[0] or x > edges[-1]), None)
            p = q if p is None else (p if q is None else min(p, q))
        if not p:
            return None
        return ("fl", floats(v[:p]), None if w is None else ("l", floats(w[:p])), "list")
    if op[1] in ("set_error", "set_systematic_error"):
        e = given.get("own_error")
        last = last_err if op[1] == "set_error" else last_sys
        def num(x):
            return isinstance(x, (int, float))
        # (a nested list makes the conversion of the whole argument fail; strings / dicts are converted element by element)
        if isinstance(e, list) and len(e) == nb and last is not None and all(num(x) or isinstance(x, (str, dict)) for x in e):
            p = next((i for i, x in enumerate(e) if not num(x)), None)
            if p:
                return ("er" if op[1] == "set_error" else "sy", floats(e[:p]) + floats(last[p:]), "list")
    return None


C09_ERROR_METHODS = ["add_value", "add_value", "scale_histogram", "add_histogram", "statistical_error", "make_density"]


def gen_history_c09(rng, edges, density=True, errors="front"):
    nb = len(edges) - 1
    ops = []
    for _ in range(rng.randint(1, 12)):
        r = rng.random()
        if r < 0.55:
            ops.append(gen_fill(rng, edges))
        elif r < 0.75:
            ops.append(gen_scale(rng, nb))
        elif r < 0.83:
            ops.append(("ah",))
        elif r < 0.92:
            ops.append(("se",))
        elif density:
            ops.append(("md",))
        if errors and rng.random() < 0.1:
            ops.append(gen_error_call(rng, edges, methods=C09_ERROR_METHODS, front_only=(errors == "front")))
        if rng.random() < 0.07:
            ops.append(("cp", rng.choice(["copy", "deepcopy", "pickle"])))
    return ops


def on_edge(ops, edges):
    es = set(edges)
    for op in ops:
        if op[0] == "f" and op[1] in es:
            return True
        if op[0] == "fl" and any(v in es for v in op[1]):
            return True
    return False


# ------------------------------------------------------------------ independent reference (search oracle)
def F(x):
    return Fraction(x)


def bin_of(edges, v):
    """index of the bin with edge_i <= v < edge_{i+1}, by definition (linear scan), or None"""
    for i in range(len(edges) - 1):
        if edges[i] <= v < edges[i + 1]:
            return i
    return None


def oracle_c09(ctor, ops):
    """Replays the history on the real class and checks the property with a reference recount.
    Returns None or (key, what, detail)."""
    if ctor[0] == "tuple" and not (ctor[1] < ctor[2] and ctor[3] >= 1):
        # not a binning (empty or reversed range, no bins): the constructor has to refuse it
        try:
            h = make_hist(ctor)
        except Exception:  # noqa: BLE001
            return None
        return ("ctor:degenerate-tuple-accepted",
                f"Histogram(({ctor[1]}, {ctor[2]}, {ctor[3]})) is accepted and gives the edges "
                f"{[float(x) for x in h.bin_edges_]} ({h.number_of_bins_} bins)", dict(ctor=list(ctor[:4])))
    h = make_hist(ctor)
    set_precision(h)
    edges = [float(x) for x in h.bin_edges_]
    nb = len(edges) - 1
    if any(not (a < b) for a, b in zip(edges, edges[1:])):
        return None  # numpy did not give increasing edges: outside the property's domain
    if ctor[0] == "tuple":
        # uniform binning (lo, hi, n): n bins from lo to hi, all of width (hi - lo) / n
        lo, hi, n = float(ctor[1]), float(ctor[2]), ctor[3]
        if nb != n or h.number_of_bins_ != n:
            return ("uniform:bins", f"the binning ({lo}, {hi}, {n}) has {nb} bins (number_of_bins_ = {h.number_of_bins_})",
                    dict(edges=edges))
        if edges[0] != lo or edges[-1] != hi:
            return ("uniform:range", f"the binning ({lo}, {hi}, {n}) runs from {edges[0]} to {edges[-1]}", dict(edges=edges))
        w = (F(hi) - F(lo)) / n
        for i in range(nb):
            if abs(F(edges[i + 1]) - F(edges[i]) - w) > abs(w) * Fraction(1, 10 ** 9) + Fraction(1, 10 ** 300):
                return ("uniform:width", f"bin {i} of the binning ({lo}, {hi}, {n}) has width {edges[i + 1] - edges[i]}, "
                        f"not {float(w)}", dict(edges=edges, i=i))
    # geometry
    for i in range(nb):
        if h.bin_bounds_left()[i] != edges[i] or h.bin_bounds_right()[i] != edges[i + 1]:
            return ("bounds", "bin bounds differ from the edges", dict(i=i))
        if not common.close(h.bin_centers()[i], float((F(edges[i]) + F(edges[i + 1])) / 2), rel=1e-15):
            return ("centers", "bin centre is not the midpoint of its edges", dict(i=i))
        if not common.close(h.bin_width()[i], float(F(edges[i + 1]) - F(edges[i])), rel=1e-15):
            return ("width", "bin width is not the difference of its edges", dict(i=i))
    cont = [F(0)] * nb      # exact content of the current histogram
    raw = [F(0)] * nb
    mag = [F(0)] * nb       # sum of |terms| behind `cont` (scale for the comparison once floats are inexact)
    exact = True

    def add(b, x):
        cont[b] += F(x)
        raw[b] += F(x)
        mag[b] += abs(F(x))

    def snapshot():
        return (np.array(h.histogram(), dtype=float).copy(), np.array(h.histogram_raw_counts(), dtype=float).copy(),
                np.array(h.standard_error(), dtype=float).copy(), np.array(h.scaling_, dtype=float).copy(),
                np.array(h.systematic_error_, dtype=float).copy(), np.array(h.bin_edges_, dtype=float).copy(),
                np.array([h.number_of_bins_, h.number_of_histograms_], dtype=float))

    def same(a, b):
        return a.shape == b.shape and np.array_equal(a, b, equal_nan=True)

    for n, op in enumerate(ops):
        k = op[0]
        before = snapshot()
        try:
            with np.errstate(all="ignore"):
                apply_op(h, op)
            raised = None
        except Exception as e:  # noqa: BLE001
            raised = e
        after = snapshot()
        where = dict(op_index=n, op=list(op[:3]))
        changed = not all(same(a, b) for a, b in zip(before, after))
        if k == "cp":
            if raised is not None or changed:
                names = ("contents", "raw counts", "errors", "scaling", "systematic errors", "edges", "counters")
                diff = [nm for nm, a, b in zip(names, before, after) if not same(a, b)]
                return (f"copy:{op_method(op)}:differs-from-original",
                        f"the {op_method(op)} of the histogram " + (f"raised {type(raised).__name__}: {raised}" if raised is not None else
                        f"differs from the histogram in {diff}: edges {after[5].tolist()} vs {before[5].tolist()}, contents "
                        f"{after[0].tolist()} vs {before[0].tolist()}"), where)
            continue
        if isinstance(raised, EnvironmentLeak):
            return (f"environment:{'+'.join(raised.what)}:{op_method(op)}", f"{op_method(op)}: {raised}", where)
        if k == "x" and raised is None:
            if "silent-ok" in op[3] and not changed:
                continue        # an argument of an undocumented kind was ignored without an exception: nothing changed
            if "silent-ok" in op[3]:
                return (f"undocumented-argument-kind-changed-object:{op_method(op)}",
                        f"{op_method(op)}{op[2]} is outside the documented argument types and was neither refused nor ignored", where)
            return None         # the call was accepted: not an error path; this history is not followed further
        if raised is not None and changed and k not in ("f", "fl"):
            eq = prefix_equivalent(op, edges, nb) if k in ("x", "md") else None
            if eq == ("se",):
                want = np.sqrt(before[0])
                if all(same(a, b) for j, (a, b) in enumerate(zip(before, after)) if j != 2) and same(after[2], want):
                    continue
                eq = None
            if eq is None:
                names = ("contents", "raw counts", "errors", "scaling", "systematic errors", "edges", "counters")
                diff = [nm for nm, a, b in zip(names, before, after) if not same(a, b)]
                return (f"error-path:object-changed-by-failed-call:{op_method(op)}",
                        f"{op_method(op)} raised {type(raised).__name__} ({str(raised)[:80]}) but the object is not as it was "
                        f"before the call: {diff} changed", dict(where, changed=diff))
            # an element-wise path: exactly the elements before the offending one may have been processed
            for v, x in zip(eq[1], eq[2][1] if eq[2] else [1.0] * len(eq[1])):
                b = bin_of(edges, v)
                if b is not None:
                    add(b, x)
        if k == "x":
            pass
        elif k in ("f", "fl"):
            vals = [op[1]] if k == "f" else list(op[1])
            w = op[2]
            if any(v != v for v in vals):
                if raised is None or not all(same(a, b) for a, b in zip(before, after)):
                    return ("nan-not-rejected", "a NaN value was not rejected (or changed the histogram)", where)
                continue
            if k == "f":
                ws = [1.0 if w is None else w]
            elif w is None:
                ws = [1.0] * len(vals)
            elif w[0] == "s":
                ws = None        # list value with scalar weight: the code refuses it
            else:
                ws = list(w[1])
            if ws is None or len(ws) != len(vals) or any(x != x for x in ws):
                if raised is None:
                    return ("bad-weight-accepted", "inconsistent / NaN weight accepted", where)
                # a NaN weight inside a list is detected element by element: re-derive what was filled before it
                if ws is not None and len(ws) == len(vals):
                    for v, x in zip(vals, ws):
                        if x != x:
                            break
                        b = bin_of(edges, v)
                        if b is not None:
                            add(b, x)
                else:
                    if not all(same(a, b) for a, b in zip(before, after)):
                        return ("rejected-call-mutated", "a rejected add_value call changed the histogram", where)
                    continue
            else:
                if raised is not None:
                    return ("fill-raised", f"add_value raised {type(raised).__name__} on valid input", where)
                for v, x in zip(vals, ws):
                    b = bin_of(edges, v)
                    if b is not None:
                        add(b, x)
                if all(bin_of(edges, v) is None for v in vals) and not all(same(a, b) for a, b in zip(before, after)):
                    return ("outside-changed", "values outside [first edge, last edge) changed the histogram", where)
        elif k == "ah":
            cont = [F(0)] * nb
            raw = [F(0)] * nb
            mag = [F(0)] * nb
        elif k in ("sc", "sl"):
            cs = [op[1]] * nb if k == "sc" else list(op[1])
            if len(cs) != nb or any(c < 0 for c in cs):
                if raised is None:
                    return ("bad-scale-accepted", "negative / wrong-length scale factor accepted", where)
                continue
            if raised is not None:
                return ("scale-raised", f"scale_histogram raised {type(raised).__name__}", where)
            cont = [c * F(x) for c, x in zip(cont, cs)]
            mag = [c * F(x) for c, x in zip(mag, cs)]
            # errors are multiplied as well, raw counts untouched
            for i in range(nb):
                e0, e1 = before[2][-1][i], after[2][-1][i]
                if not feq(e1, e0 * cs[i], False):
                    return ("scale-error", "scaling did not multiply the error by the factor", where)
            if not same(before[1], after[1]):
                return ("scale-raw", "scaling changed the raw counts", where)
        elif k == "se":
            if raised is not None:
                return ("staterr-raised", f"statistical_error raised {type(raised).__name__}", where)
            H2 = after[0]
            for r in range(H2.shape[0]):
                for i in range(nb):
                    c = H2[r][i]
                    want = math.sqrt(c) if c >= 0 else NAN
                    if not feq(after[2][r][i], want, False):
                        return ("staterr", "statistical_error is not the square root of the contents", where)
        elif k == "md":
            tot = sum(cont)
            if not exact and abs(tot) <= 1e-9 * max(sum(mag), Fraction(1, 10**300)):
                return None     # total is zero only up to rounding of an earlier density: outcome not determined
            if tot <= 0:
                if tot == 0 and any(c != 0 for c in cont):
                    # mixed-sign weights cancelling to a total of exactly 0 (some bin is negative): like a negative total
                    # no density exists, and whether the float sum of content/width*width hits 0.0 exactly is a matter of
                    # rounding (the zero test is ill-conditioned there) -- outcome not determined; stop following
                    return None
                if tot == 0 and raised is None:
                    return ("density-zero", "make_density accepted an empty histogram", where)
                if tot < 0:
                    return None     # negative total weight: no density exists; stop following this history
                continue
            if raised is not None:
                return ("density-raised", f"make_density raised {type(raised).__name__}", where)
            integral = sum(F(float(c)) * (F(edges[i + 1]) - F(edges[i])) for i, c in enumerate(after[0][-1]))
            if abs(float(integral) - 1.0) > TOL.integral:
                uniform = len({F(edges[i + 1]) - F(edges[i]) for i in range(nb)}) == 1
                unit = uniform and F(edges[1]) - F(edges[0]) == 1
                cls = "unit-widths" if unit else ("uniform-non-unit-widths" if uniform else "non-uniform-widths")
                return (f"make_density-integral-{cls}",
                        f"make_density: integral over the binned range is {float(integral)!r}, not 1 "
                        f"(edges {edges})", dict(where, integral=float(integral), edges=edges))
            cont = [c / (tot * (F(edges[i + 1]) - F(edges[i]))) for i, c in enumerate(cont)]
            mag = [c / (tot * (F(edges[i + 1]) - F(edges[i]))) for i, c in enumerate(mag)]
            exact = False
            for i in range(nb):
                if not abs(float(after[0][-1][i]) - float(cont[i])) <= TOL.rel * max(float(mag[i]), 1e-300):
                    return ("make_density-not-content-per-width",
                            f"make_density: bin {i} holds {float(after[0][-1][i])!r}, content/(total*width) is "
                            f"{float(cont[i])!r} (edges {edges})", dict(where, bin=i, edges=edges))
        # content of the current histogram against the recount
        got = after[0][-1]
        gotraw = after[1][-1]
        for i in range(nb):
            if not (got[i] == float(cont[i]) if exact
                    else abs(float(got[i]) - float(cont[i])) <= TOL.rel * max(float(mag[i]), 1e-300)):
                return ("bin-content", f"bin {i} of the current histogram holds {float(got[i])!r}, the weighted number of "
                        f"values in [{edges[i]},{edges[i+1]}) times the later factors is {float(cont[i])!r}",
                        dict(where, bin=i, edges=edges))
            if gotraw[i] != float(raw[i]):
                return ("raw-count", f"raw count of bin {i} is {float(gotraw[i])!r}, expected {float(raw[i])!r}",
                        dict(where, bin=i))
    return None


def shrink_ops(ctor, ops, key, oracle):
    cur = list(ops)
    changed = True
    while changed and len(cur) > 1:
        changed = False
        for i in range(len(cur)):
            cand = cur[:i] + cur[i + 1:]
            try:
                r = oracle(ctor, cand)
            except Exception:  # noqa: BLE001
                r = None
            if r and r[0] == key:
                cur = cand
                changed = True
                break
    return cur


def jsonable(x):
    if isinstance(x, float):
        if x != x:
            return "nan"
        if x in (INF, -INF):
            return "inf" if x > 0 else "-inf"
        return x
    if isinstance(x, (list, tuple)):
        return [jsonable(y) for y in x]
    if isinstance(x, dict):
        return {k: jsonable(v) for k, v in x.items()}
    return x


def unjson(x):
    if x == "nan":
        return NAN
    if x == "inf":
        return INF
    if x == "-inf":
        return -INF
    if isinstance(x, list):
        return [unjson(y) for y in x]
    if isinstance(x, dict):
        return {k: unjson(v) for k, v in x.items()}
    return x


def ops_from_json(ops):
    out = []
    for o in unjson(ops):
        o = list(o)
        if o[0] == "fl" and isinstance(o[2], list):
            o[2] = (o[2][0], o[2][1])
        out.append(tuple(o))
    return out


def ctor_from_json(c):
    c = unjson(c)
    return tuple(c)


# ------------------------------------------------------------------ correspondence (tie C)
def correspond(ctx):
    rng = ctx.rng
    ctx.rule = ("random histories (1-12 calls: add_value scalar/list/array with none/scalar/list weights, "
                "scale_histogram number/list, add_histogram, statistical_error, make_density) on uniform-tuple and "
                "explicit non-uniform binnings of 1-8 bins, dyadic weights/factors, values bit-equal to edges, one ulp "
                "beside them, outside, +-inf, NaN; compared after every call (contents, raw counts, errors, scaling, "
                "centres, widths), bit-exact until the first make_density; error-path calls outside the model (bad element "
                "at the front of the data, wrong types, unknown keywords, warnings-as-errors) mixed in: they have to raise "
                "and leave the object in the model's state; every call in one of six equivalent call forms; binnings, values "
                "and weights in integer / single-precision / mixed / bool / numpy-scalar representations, weights also as "
                "tuples / object arrays where the code takes them like a list (probed once per run; refused or ignored "
                "sequence kinds must change nothing); the history goes on with copy.copy / copy.deepcopy / pickle round trips "
                "of the object; arguments handed in as copies; one call in three under np.seterr(all='warn'), terse print "
                "options, advanced random states (to be left as found); non-trivial = some value bit-equal to an "
                "edge and at least one weight list or scale call; distinct by canonical input")
    ctx.assumptions.append("np.digitize(v, edges) = #{e in edges | e <= v} for increasing edges; np.linspace gives "
                           "increasing edges (checked on every generated binning); np.sqrt = IEEE sqrt")
    n = ctx.n(250, 6000)
    cases, lines = [], []
    for _ in range(n):
        ctor = gen_ctor(rng)
        edges = [float(x) for x in make_hist(ctor).bin_edges_]
        ops = gen_history_c09(rng, edges)
        cases.append((ctor, edges, ops))
        lines.append(enc_case(edges, ops))
    # every case twice: `hist` = the hand model (Core/Histogram.lean), `ghist` = the definitions regenerated from the
    # current source (Gen/HistCore.lean: generated constructor, methods and geometry getters) -- tie C on top of tie T
    outs_all = common.run_driver("C09", lines + ["g" + l for l in lines])
    outs, gouts = outs_all[:len(lines)], outs_all[len(lines):]
    nspec = 0
    ndiff = 0
    ngdiff = 0
    for (ctor, edges, ops), out, gout in zip(cases, outs, gouts):
        inc = all(a < b for a, b in zip(edges, edges[1:]))
        if not inc:
            ctx.brk("correspondence-broken", f"constructor {ctor} did not give increasing edges {edges}")
            continue
        real_run = run_real(ctor, ops)
        diff, at, real, spec = compare_history(ctor, ops, out, real_run=real_run)
        gdiff, gat, _, _ = compare_history(ctor, ops, gout, real_run=real_run)
        if gdiff:
            ngdiff += 1
            if ngdiff <= 3:
                ctx.brk("correspondence-broken", f"Histogram history, definitions generated from the source: {gdiff}",
                        case=dict(ctor=jsonable(ctor), ops=jsonable([o for o in ops]), at=gat))
        kinds = {o[0] for o in ops}
        nontriv = on_edge(ops, edges) and bool(kinds & {"sc", "sl"} or any(o[0] == "fl" and o[2] and o[2][0] == "l" for o in ops))
        canon = (tuple(edges), tuple(enc_op(o) for o in ops))
        ctx.case(canon, nontriv, sample=dict(ctor=jsonable(ctor), ops=jsonable([o[:3] for o in ops]),
                                             last=jsonable(real[-1][1]["hist"]["data"]) if real else None))
        for o in ops:
            ctx.count("op/" + o[0] + (":" + o[1] if o[0] == "x" else ""))
            ctx.count("call-form/" + call_form((op_method(o), jsonable(list(o)))))
        for t, _ in real:
            ctx.count("outcome/" + t)
        ctx.count("ctor/" + ctor_flavour(ctor))
        ctx.count(f"bins/{len(edges) - 1}")
        if diff:
            ndiff += 1
            if ndiff <= 3:
                ctx.brk("correspondence-broken", f"Histogram history: {diff}",
                        case=dict(ctor=jsonable(ctor), ops=jsonable([o for o in ops]), at=at))
            continue
        # the closed-form specification printed by the driver (right-hand side of theorem bin_content)
        # against the real code: histories whose current histogram saw only fill / scale / statistical_error calls
        cur = ops
        for i, o in enumerate(ops):
            if o[0] == "ah":
                cur = ops[i + 1:]
        if real and all(o[0] in ("f", "fl", "sc", "sl", "se") for o in cur):
            got = real[-1][1]["hist"]["data"][-1]
            gotraw = real[-1][1]["raw"]["data"][-1]
            nspec += 1
            if not (vec_eq(got, spec[0], True) and vec_eq(gotraw, spec[1], True)):
                ctx.brk("correspondence-broken",
                        f"closed-form specification (theorem bin_content) {spec} vs real contents {got} / raw {gotraw}",
                        case=dict(ctor=jsonable(ctor), ops=jsonable([o for o in ops])))
    ctx.cov["spec_side_compared"] = nspec
    ctx.cov["histories_differing"] = ndiff
    ctx.cov["generated_histories_compared"] = len(cases)
    ctx.cov["generated_histories_differing"] = ngdiff
    # the generated tuple constructor (`initTuple`) against the real one: valid and rejected tuples
    tup = []
    for _ in range(ctx.n(60, 600)):
        lo = rng.choice([0.0, -2.5, 1.0, -8.0, 0.125, 1e-3, -1e6])
        kind = rng.choice(["ok", "ok", "ok", "equal", "swapped", "zero-bins", "negative-bins"])
        span = rng.choice([1.0, 2.0, 3.0, 0.5, 10.0, 7.0, 1.7, 1e-6, 1e9])
        n = rng.randint(1, 40)
        hi = lo + span
        if kind == "equal":
            hi = lo
        elif kind == "swapped":
            lo, hi = hi, lo
        elif kind == "zero-bins":
            n = 0
        elif kind == "negative-bins":
            n = -rng.randint(1, 5)
        tup.append((kind, lo, hi, n))
    gl = common.run_driver("C09", [f"ginit\t{f2h(a)}\t{f2h(b)}\t{n}" for _, a, b, n in tup])
    for (kind, a, b, n), out in zip(tup, gl):
        ctx.case(("ginit", a, b, n), kind != "ok")
        ctx.count("generated-ctor/" + kind)
        try:
            h = Histogram()((a, b, n))
            robs = ("ok", observe(h))
        except Exception as e:  # noqa: BLE001
            robs = ("err:" + EXC_KIND.get(type(e), type(e).__name__), None)
        if not out.startswith("ok "):
            ctx.brk("correspondence-broken", f"generated constructor: driver answered {out[:100]} for ({a},{b},{n})")
            continue
        body = out[3:]
        if body.startswith("err:"):
            bad = None if robs[0] == body else f"outcome {robs[0]} vs generated {body}"
        else:
            p = body.split("~")
            m = dict(nb=int(p[1]), nh=int(p[2]), edges=_pf(p[3]), hist=_parr(p[4]), raw=_parr(p[5]), err=_parr(p[6]),
                     scal=_parr(p[7]), sys=_parr(p[8]))
            if robs[0] != "ok":
                bad = f"outcome {robs[0]} vs generated ok"
            else:
                ro = robs[1]
                bad = None
                if (ro["nb"], ro["nh"]) != (m["nb"], m["nh"]):
                    bad = f"(nBins,nHist) {(ro['nb'], ro['nh'])} vs generated {(m['nb'], m['nh'])}"
                elif len(ro["edges"]) != len(m["edges"]) or not all(
                        abs(x - y) <= 4e-16 * max(abs(a), abs(b)) for x, y in zip(ro["edges"], m["edges"])):
                    bad = f"edges {ro['edges']} vs generated {m['edges']}"
                else:
                    for k in ("hist", "raw", "err", "scal", "sys"):
                        if not rows_eq(ro[k], m[k], True):
                            bad = f"{k}: {ro[k]} vs generated {m[k]}"
                            break
        if bad:
            ctx.brk("correspondence-broken", f"generated constructor on ({a},{b},{n}): {bad}", case=dict(ctor=["tuple", a, b, n]))
    # uniform binnings: np.linspace against the formula of theorem uniform_edges
    lin = []
    for _ in range(ctx.n(40, 400)):
        lo = rng.choice([0.0, -2.5, 1.0, -8.0, 0.125, 1e-3, -1e6])
        span = rng.choice([1.0, 2.0, 3.0, 0.5, 10.0, 7.0, 1.7, 1e-6, 1e9])
        lin.append((lo, lo + span, rng.randint(1, 40)))
    outs = common.run_driver("C09", [f"lin\t{f2h(a)}\t{f2h(b)}\t{n}" for a, b, n in lin])
    for (a, b, n), out in zip(lin, outs):
        real = [float(x) for x in make_hist(("tuple", a, b, n)).bin_edges_]
        model = _pf(out[3:]) if out.startswith("ok ") else None
        ok = model is not None and len(model) == len(real) and \
            all(abs(x - y) <= 4e-16 * max(abs(a), abs(b)) for x, y in zip(real, model)) and \
            all(x < y for x, y in zip(real, real[1:]))
        ctx.case(("lin", a, b, n), n > 1)
        ctx.count("linspace")
        if not ok:
            ctx.brk("correspondence-broken", f"uniform edges of ({a},{b},{n}): numpy {real} vs model {model}",
                    case=dict(ctor=["tuple", a, b, n]))


# ------------------------------------------------------------------ search on the real code
def corpus(prop):
    p = common.VERIF / "harness/corpus" / prop
    out = []
    if p.exists():
        for f in sorted(p.glob("*.json")):
            out.append(json.loads(f.read_text()))
    return out


def search(ctx, budget_s):
    rng = ctx.rng
    t0 = time.time()
    n = 0
    found = set()
    for case in corpus("C09"):
        r = oracle_c09(ctor_from_json(case["ctor"]), ops_from_json(case["ops"]))
        n += 1
        if r:
            found.add(r[0])
            ctx.violation(r[0], r[1], dict(input=case, detail=jsonable(r[2]), how_to_replay="./check C09 --replay <this file>"))
    limit = 20000 if ctx.thorough else 1500
    while time.time() - t0 < budget_s and n < limit:
        ctor = gen_ctor(rng)
        edges = [float(x) for x in make_hist(ctor).bin_edges_]
        ops = gen_history_c09(rng, edges, errors="any")
        if n % 3 == 0:      # make sure filled-then-density histories are frequent
            ops = [o for o in ops if o[0] != "md"] + [("f", (edges[0] + edges[1]) / 2, None, "float"), ("md",)]
        if n % 25 == 7:     # a tuple that is no binning (hi <= lo, or no bins): has to be refused
            lo = rng.choice([0.0, -2.5, 1.0, 0.125])
            hi = lo + rng.choice([1.0, 2.0, 0.5, 7.0])
            ctor = rng.choice([("tuple", lo, lo, rng.randint(1, 8)), ("tuple", hi, lo, rng.randint(1, 8)),
                               ("tuple", lo, hi, 0), ("tuple", lo, hi, -rng.randint(1, 4))])
            ops = []
        r = oracle_c09(ctor, ops)
        n += 1
        ctx.case(("oracle", tuple(edges), tuple(enc_op(o) for o in ops)), on_edge(ops, edges))
        if r and r[0] not in found:
            found.add(r[0])
            ops2 = shrink_ops(ctor, ops, r[0], oracle_c09)
            r2 = oracle_c09(ctor, ops2) or r
            ctx.violation(r2[0], r2[1], dict(input=dict(ctor=jsonable(ctor), ops=jsonable([list(o) for o in ops2])),
                                             detail=jsonable(r2[2]), how_to_replay="./check C09 --replay <this file>"))
    ctx.cov["oracle_cases"] = n
    ctx.count("oracle", n)


def replay(ctx, path):
    d = json.loads(open(path).read())
    inp = d.get("input")
    if not inp:
        print(f"[C09] replay file names a broken obligation, not an input: {d.get('broken')}")
        return 1
    ctor, ops = ctor_from_json(inp["ctor"]), ops_from_json(inp["ops"])
    r = oracle_c09(ctor, ops)
    edges = [float(x) for x in make_hist(ctor).bin_edges_]
    try:
        translate(ctx)      # the model is the one of the tree under test
        ok, log = common.lake_build(common.obligations("C09")["driver_modules"])
        if not ok:
            raise RuntimeError("lake build of the driver failed")
        out = common.run_driver("C09", [enc_case(edges, ops)])[0]
        diff = compare_history(ctor, ops, out)[0]
        print(f"[C09] model vs code on this input: {'agree' if diff is None else diff}")
    except Exception as e:  # noqa: BLE001
        print(f"[C09] driver not available: {e}")
    if r:
        print(f"VIOLATION property=C09 replay={path}")
        print(r[1])
        return 1
    print("[C09] replay: property holds on this input now")
    return 0
