"""C12 — flow estimates depend only on relative azimuthal geometry.

Tie T: selector lists / dispatch chains / keyword defaults of the six estimators -> Gen/FlowSelectors.lean; the value path of
ReactionPlaneFlow / ScalarProductFlow / EventPlaneFlow (integrated_flow, differential_flow with all helpers inlined) ->
Gen/FlowCore.lean (harness/translate/flowcore.py), proved equal to the model in Lemmas/FlowCoreGen.lean; the driver's
`g<op>` ops run the generated functions and are compared with the real code as well.
Tie C: the executable model Core/Flow.lean (Float driver) against the real ReactionPlaneFlow /
ScalarProductFlow / EventPlaneFlow on the same generated samples (u = exp(i n phi) taken from the real
particles; the scipy resolution correction of the event-plane method is supplied by the harness and its
value checked against the real code).
Search: the property itself on the REAL code, independent of the model: metamorphic relations
(rotate / permute particles / permute events / single bin) for the reaction-plane, scalar-product,
event-plane and Q-cumulant estimators, the weighted-mean reference for the reaction plane, and
"defaults and documented selectors are accepted" for all six estimators.
Lee-Yang-zero and PCA numerics are not modelled (selectors / defaults only).
"""
import cmath
import json
import math
import time
import warnings

import numpy as np

import common
from common import f2h, h2f
from translate import flowsel

warnings.filterwarnings("ignore")

DOCUMENTED = ["pT", "rapidity", "pseudorapidity"]
WEIGHTS = ["pT", "pT2", "pTn", "rapidity", "pseudorapidity"]
CLASSES = ["ReactionPlaneFlow", "EventPlaneFlow", "ScalarProductFlow", "QCumulantFlow", "LeeYangZeroFlow", "PCAFlow"]
MASS = 0.138
KEY_EP_DEGENERATE = "EventPlaneFlow-rotation-vanishing-qvector"


# ------------------------------------------------------------------ translator (tie T)
def translate(ctx):
    text, regions, _, _ = flowsel.render(common.read_src)
    changed = common.write_if_changed(common.LEAN / "SparkxVerif/Gen/FlowSelectors.lean", text)
    golden = common.LEAN / "golden/Gen/FlowSelectors.lean"
    same = golden.exists() and golden.read_text() == text
    if changed:
        ctx.notes.append("Gen/FlowSelectors.lean regenerated (source differs from last run)")
    # computational core of the reaction-plane / scalar-product / event-plane estimators (Gen/FlowCore.lean)
    from translate import flowcore
    gcore = common.LEAN / "golden/Gen/FlowCore.lean"
    try:
        ctext, cregions = flowcore.render(common.read_src)
    except Exception as e:
        # the selector tables keep their tie T; for the core the committed golden definitions take over and the
        # (enlarged) correspondence run has to carry them
        if not gcore.exists():
            raise
        common.write_if_changed(common.LEAN / "SparkxVerif/Gen/FlowCore.lean", gcore.read_text())
        ctx.fallback = True
        ctx.cov["tie"] = ("selector tables: translated; computational core: correspondence-only (translator could not "
                          "re-derive: %s: %s)" % (type(e).__name__, str(e)[:300]))
        ctx.cov["golden_restored"] = ["FlowCore.lean"]
        ctx.notes.append("flowcore translator could not parse the source; golden Gen/FlowCore.lean used")
        ctx.cov["gen_equals_golden"] = same
        return regions
    if common.write_if_changed(common.LEAN / "SparkxVerif/Gen/FlowCore.lean", ctext):
        ctx.notes.append("Gen/FlowCore.lean regenerated (source differs from last run)")
    ctx.cov["gen_equals_golden"] = same and gcore.exists() and gcore.read_text() == ctext
    ctx.cov["gen_core_equals_golden"] = gcore.exists() and gcore.read_text() == ctext
    return regions + cregions


# ------------------------------------------------------------------ real code access
def cls_of(name):
    import importlib
    return getattr(importlib.import_module("sparkx.flow." + name), name)


# ------------------------------------------------------------------ call forms
# Documented parameter order of the public API at HEAD (signatures / docstrings); REQ = no default.
REQ = object()
_EPSP_INIT = [("n", 2), ("weight", "pT2"), ("pseudorapidity_gap", 0.0)]
_EPSP_INT = [("particle_data", REQ), ("particle_data_event_plane", REQ), ("self_corr", True)]
_EPSP_DIFF = [("particle_data", REQ), ("bins", REQ), ("flow_as_function_of", REQ), ("particle_data_event_plane", REQ),
              ("self_corr", True)]
SIG = {
    ("ReactionPlaneFlow", "__init__"): [("n", 2)],
    ("ReactionPlaneFlow", "integrated_flow"): [("particle_data", REQ)],
    ("ReactionPlaneFlow", "differential_flow"): [("particle_data", REQ), ("bins", REQ), ("flow_as_function_of", REQ)],
    ("ScalarProductFlow", "__init__"): _EPSP_INIT, ("EventPlaneFlow", "__init__"): _EPSP_INIT,
    ("ScalarProductFlow", "integrated_flow"): _EPSP_INT, ("EventPlaneFlow", "integrated_flow"): _EPSP_INT,
    ("ScalarProductFlow", "differential_flow"): _EPSP_DIFF, ("EventPlaneFlow", "differential_flow"): _EPSP_DIFF,
    ("QCumulantFlow", "__init__"): [("n", 2), ("k", 2), ("imaginary", "zero")],
    ("QCumulantFlow", "integrated_flow"): [("particle_data", REQ)],
    ("QCumulantFlow", "differential_flow"): [("particle_data", REQ), ("bins", REQ), ("flow_as_function_of", REQ), ("poi_pdg", None)],
    ("LeeYangZeroFlow", "__init__"): [("vmin", REQ), ("vmax", REQ), ("vstep", REQ), ("n", 2)],
    ("LeeYangZeroFlow", "differential_flow"): [("particle_data", REQ), ("bins", REQ), ("flow_as_function_of", REQ), ("poi_pdg", None)],
    ("PCAFlow", "__init__"): [("n", 2), ("alpha", 2), ("number_subcalc", 4)],
    ("PCAFlow", "differential_flow"): [("particle_data", REQ), ("bins", REQ), ("flow_as_function_of", REQ)],
}
FORM_COUNT = {}


def bind(cls, method, vals, form):
    """vals: values in documented order (may be shorter than the signature: the rest keep their defaults).
    form = (npos, omit): the first npos arguments positional, the rest by keyword; omit = leave out arguments
    whose value equals the documented default.  Returns (args, kwargs)."""
    sig = SIG[(cls, method)]
    npos, omit = form
    args, kwargs = [], {}
    positional = True
    for i, (pname, default) in enumerate(sig):
        if i >= len(vals):
            break
        v = vals[i]
        is_default = default is not REQ and type(v) is type(default) and v == default
        if default is None and v is None:
            is_default = True
        if omit and is_default:
            positional = False  # everything after an omitted argument has to go by keyword
            continue
        if positional and i < npos:
            args.append(v)
        else:
            positional = False
            kwargs[pname] = v
    return args, kwargs


def form_for(*key):
    """deterministic pseudo-random call form for a call (same call -> same form, so replays reproduce)"""
    import zlib
    h = zlib.crc32(repr(key).encode())
    return (h % 7, bool((h >> 8) & 1))


def api(obj, cls, method, vals, form=None):
    """issue obj.method(...) in the given equivalent call form"""
    form = form or form_for(cls, method, [v if isinstance(v, (int, float, str, bool, type(None))) else len(v) for v in vals])
    args, kwargs = bind(cls, method, list(vals), form)
    tag = ("pos" if not kwargs else "kw" if not args else "mixed") + ("/defaults-omitted" if form[1] else "")
    FORM_COUNT[tag] = FORM_COUNT.get(tag, 0) + 1
    return getattr(obj, method)(*args, **kwargs)


def construct(cls, vals, form=None):
    form = form or form_for(cls, "__init__", list(vals))
    args, kwargs = bind(cls, "__init__", list(vals), form)
    return cls_of(cls)(*args, **kwargs)


POOL = {"on": False, "objs": {}, "history": []}


def pool_start():
    """from now on `new` hands out ONE long-lived object per (class, constructor arguments)"""
    POOL.update(on=True, objs={}, history=[])


def pool_stop():
    POOL.update(on=False, objs={}, history=[])


def new(name, *a, **k):
    if POOL["on"]:
        key = (name, a, tuple(sorted(k.items())))
        if key not in POOL["objs"]:
            POOL["objs"][key] = _new(name, *a, **k)
        return POOL["objs"][key]
    return _new(name, *a, **k)


def _new(name, *a, **k):
    if name == "LeeYangZeroFlow" and not a and not any(x in k for x in ("vmin", "vmax", "vstep")):
        return construct(name, (0.01, 0.3, 0.01)) if not k else cls_of(name)(0.01, 0.3, 0.01, **k)  # no defaults for these
    if (name, "__init__") in SIG and not k:
        return construct(name, a)
    return cls_of(name)(*a, **k)


def P(t):
    """t = (px, py, pz, weight|None)"""
    from sparkx.Particle import Particle
    px, py, pz, w = t
    p = Particle()
    p.px, p.py, p.pz = px, py, pz
    p.E = math.sqrt(px * px + py * py + pz * pz + MASS * MASS)
    p.pdg = 211
    if w is not None:
        p.weight = w
    return p


def mk(evs):
    return [[P(t) for t in ev] for ev in evs]


def cart(pt, phi, eta, w):
    return (pt * math.cos(phi), pt * math.sin(phi), pt * math.sinh(eta), w)


def rot_ev(ev, a):
    c, s = math.cos(a), math.sin(a)
    return [(c * px - s * py, s * px + c * py, pz, w) for px, py, pz, w in ev]


def flat(x):
    if x is None:
        return [float("nan")]
    if isinstance(x, (tuple, list, np.ndarray)):
        r = []
        for y in x:
            r += flat(y)
        return r
    if isinstance(x, (complex, np.complexfloating)):
        return [float(x.real), float(x.imag)]
    return [float(x)]


# ------------------------------------------------------------------ encoding for the driver
def enc_part(p, n):
    u = np.exp(1.0j * float(n) * p.phi())  # exactly the expression the estimators evaluate
    w = p.weight
    return ",".join([f2h(u.real), f2h(u.imag), f2h(p.pT_abs()), f2h(p.rapidity()), f2h(p.pseudorapidity()),
                     "-" if np.isnan(w) else f2h(w)])


def enc_sample(parts, n):
    if not parts:
        return "!"
    return "|".join(("." if not ev else ";".join(enc_part(p, n) for p in ev)) for ev in parts)


def parse_pairs(s):
    if not s:
        return []
    return [tuple(h2f(t) for t in x.split(",")) for x in s.split(";")]


# ------------------------------------------------------------------ generators
def gen_ev(rng, lo, hi, wmode, split=False, mod=None, midrap=0.0):
    """mod = (harmonic, v): azimuths follow 1 + 2 v cos(n (phi - psi)) around a random event plane;
    midrap = probability of pz = 0 exactly (rapidity = pseudorapidity = 0.0)"""
    m = rng.randint(lo, hi)
    ev = []
    psi = rng.uniform(-math.pi, math.pi)
    for i in range(m):
        pt = rng.uniform(0.2, 3.0)
        phi = rng.uniform(-math.pi, math.pi)
        if mod:
            while rng.uniform(0.0, 1.0 + 2.0 * mod[1]) > 1.0 + 2.0 * mod[1] * math.cos(mod[0] * (phi - psi)):
                phi = rng.uniform(-math.pi, math.pi)
        eta = rng.uniform(-2.0, 2.0)
        if split and i < 2:  # one particle safely in each sub-event
            eta = (1 if i == 0 else -1) * rng.uniform(0.7, 2.0)
        elif rng.random() < midrap:
            eta = 0.0
        if wmode == "unset" or (wmode == "mixed" and rng.random() < 0.5):
            w = None
        else:
            w = rng.choice([0.25, 0.5, 1.0, 2.0, 3.0])
        ev.append(cart(pt, phi, eta, w))
    return ev


def gen_case(rng, regular=False, lo=0, hi=10, params=None, holes=False):
    nev = rng.randint(1, 5)
    wmode = rng.choice(["unset", "set", "mixed"])
    lo_ = max(lo, 3) if regular else lo
    p = params or dict(n=rng.randint(1, 4),
                       weight=rng.choice(WEIGHTS if not regular else ["pT", "pT2", "pTn"] * 3 + WEIGHTS),
                       gap=rng.choice([0.0, 0.0, 0.1, 0.5]))
    mod = (p["n"], 0.25) if regular and rng.random() < 0.6 else None
    midrap = 0.15 if regular and rng.random() < 0.4 else 0.0
    flow = [gen_ev(rng, lo_, hi, wmode, split=regular, mod=mod, midrap=midrap) for _ in range(nev)]
    same = rng.random() < 0.5
    ref = flow if same else [gen_ev(rng, lo_, hi, wmode, split=regular, mod=mod, midrap=midrap) for _ in range(nev)]
    case = dict(n=p["n"], weight=p["weight"], gap=p["gap"], self_corr=rng.random() < 0.5, flow=flow, ref=ref,
                same=same, sel=rng.choice(DOCUMENTED), wmode=wmode, holes=[])
    if holes:
        add_holes(rng, case)
    return case


def add_holes(rng, case):
    """events without particles and events whose particles all have weight 0, at the first / a middle / the last
    position (the estimators must not care where such an event sits)"""
    for _ in range(rng.randint(1, 3)):
        nev = len(case["flow"])
        pos = rng.choice([0, nev, rng.randint(1, max(1, nev - 1))])  # first / last / a middle position
        kind = rng.choice(["empty", "empty", "zero-weight", "empty-flow"])
        if kind == "empty":
            f, r = [], []
        elif kind == "zero-weight":
            f = [(px, py, pz, 0.0) for px, py, pz, _ in gen_ev(rng, 2, 5, "unset", split=True)]
            r = f if case["same"] else gen_ev(rng, 3, 6, "unset", split=True)
        else:
            f = []
            r = [] if case["same"] else gen_ev(rng, 3, 6, "unset", split=True)
        case["flow"] = case["flow"][:pos] + [f] + case["flow"][pos:]
        case["ref"] = case["flow"] if case["same"] else case["ref"][:pos] + [r] + case["ref"][pos:]
        case["holes"].append((kind, "first" if pos == 0 else "last" if pos == nev else "middle"))


def sel_val(p, sel):
    return p.pT_abs() if sel == "pT" else p.rapidity() if sel == "rapidity" else p.pseudorapidity()


def gen_edges(rng, parts, sel, exact_prob=0.3):
    """bin edges: random, sometimes bit-equal to a particle's value (tests `>= lo and < hi`)"""
    vals = sorted(sel_val(p, sel) for ev in parts for p in ev)
    lo, hi = (0.0, 3.2) if sel == "pT" else (-2.2, 2.2)
    k = rng.randint(1, 3)
    cuts = []
    for _ in range(k - 1):
        if vals and rng.random() < exact_prob:
            cuts.append(rng.choice(vals))
        else:
            cuts.append(rng.uniform(lo, hi))
    if sel != "pT" and any(v == 0.0 for v in vals) and rng.random() < 0.7:
        cuts = cuts[:max(0, len(cuts) - 1)] + [0.0]  # an inner edge exactly at y = eta = 0.0
    mode = rng.random()
    if mode < 0.5:
        edges = [lo] + sorted(cuts) + [hi]
    else:  # bins that do not cover everything
        edges = sorted(cuts + [rng.uniform(lo, hi), rng.uniform(lo, hi)])
    return [float(e) for e in edges]


# ------------------------------------------------------------------ numeric comparison helpers
def vclose(a, b, rel):
    if not math.isfinite(a) and not math.isfinite(b):
        return True
    if not math.isfinite(a) or not math.isfinite(b):
        return False
    return abs(a - b) <= rel * max(abs(a), abs(b), 1e-12) or abs(a - b) <= 1e-13


def sigma_close(sa, sb, s2_scale, tol):
    """sigma = sqrt(vn^2 - <v^2>)/sqrt(N): the radicand is a difference of two terms of size ~s2_scale*N
    whose sign is not fixed; compare sigma^2 on that scale, reading NaN (negative radicand) as 0"""
    if not math.isfinite(sa) and not math.isfinite(sb):
        return True
    qa = sa * sa if math.isfinite(sa) else 0.0
    qb = sb * sb if math.isfinite(sb) else 0.0
    if math.isinf(sa) or math.isinf(sb):
        return False
    return abs(qa - qb) <= tol * max(s2_scale, 1e-300) or vclose(sa, sb, tol)


def ep_res_fn(Rn):
    """the resolution correction of EventPlaneFlow.__compute_event_plane_resolution as a function of Rn
    (scipy brentq + Bessel; the external parameter `res` of the model)"""
    from scipy import optimize, special

    def resolution(x):
        return (np.sqrt(np.pi) / 2.0) * x * np.exp(-0.5 * x * x) * (special.i0(0.5 * x * x) + special.i1(0.5 * x * x))
    try:
        xi = optimize.root_scalar(lambda x: resolution(x) - Rn, bracket=[0, 20], method="brentq").root
    except BaseException:
        return float(Rn)
    return float(resolution(np.sqrt(2) * xi))


SKIPS = {"n": 0}


def private_resolution(name, f, parts_ref):
    """the resolution the real object computes (name-mangled `__calculate_reference`), or None when that private
    entry point does not exist / has another signature / returns something else.  Optional extra check only:
    everything that gates is compared through the public integrated_flow / differential_flow."""
    try:
        r = getattr(f, "_" + name + "__calculate_reference")(parts_ref)
        return float(r[0])
    except Exception:
        SKIPS["n"] += 1
        return None


def reference_info(name, f, parts_ref, case):
    """computed by the harness from the particles (public kinematics only): an estimate of the resolution, the
    condition number of the resolution sum (scales the tolerances), the per-event reference weights and the
    per-event terms of the resolution sum; plus the real object's own resolution when it can be reached"""
    n, gap, kind = case["n"], case["gap"], case["weight"]

    def wq(p):
        pt = p.pT_abs()
        return pt if kind == "pT" else pt ** 2.0 if kind == "pT2" else pt ** n if kind == "pTn" else \
            p.rapidity() if kind == "rapidity" else p.pseudorapidity()
    w, terms = [], []
    for ev in parts_ref:
        ws = [float(wq(p)) for p in ev]
        w.append(ws)
        QA = sum((x * cmath.exp(1j * n * p.phi()) for x, p in zip(ws, ev) if p.pseudorapidity() >= gap), 0j)
        QB = sum((x * cmath.exp(1j * n * p.phi()) for x, p in zip(ws, ev) if p.pseudorapidity() < -gap), 0j)
        if name == "ScalarProductFlow":
            terms.append((QA.conjugate() * QB).real)
        else:
            terms.append(math.cos(cmath.phase(QA) - cmath.phase(QB)))  # phase(0) = 0 = arctan2(0, 0)
    tot = sum(terms)
    cond = (sum(abs(t) for t in terms) / abs(tot)) if tot != 0 else float("inf")
    mean = tot / len(terms) if terms else float("nan")
    if not (mean >= 0):
        est = float("nan")
    elif name == "ScalarProductFlow":
        est = 2.0 * math.sqrt(mean)
    else:
        est = ep_res_fn(math.sqrt(mean))
    return est, cond, None, w, terms, private_resolution(name, f, parts_ref)


def s2_scale(name, parts_flow, Q, wref, res):
    """scale of sigma^2: (vn^2 + <v^2>)/N bounded from the inputs"""
    N = sum((1.0 if np.isnan(p.weight) else p.weight) for ev in parts_flow for p in ev)
    W2 = sum((1.0 if np.isnan(p.weight) else p.weight) ** 2 for ev in parts_flow for p in ev)
    if N == 0 or not math.isfinite(res) or res == 0:
        return 0.0
    if name == "ScalarProductFlow":
        vmax = max([sum(abs(x) for x in w) for w in wref] + [0.0]) * 2.0 / abs(res)
    else:
        vmax = 1.0 / abs(res)
    return (vmax ** 2) * (1.0 + W2 / N ** 2) / N


# ------------------------------------------------------------------ the caller's data must not be modified
class InputModified(Exception):
    def __init__(self, key, what):
        super().__init__(what)
        self.key, self.what = key, what


def snapshot(samples):
    """identity and content of the argument objects before a call: {label: nested list}"""
    snap = {}
    for label, outer in samples.items():
        if any(outer is s_[0] for s_ in snap.values()):
            continue
        snap[label] = (outer, [(ev, list(ev), [q.data_.copy() for q in ev]) for ev in outer])
    return snap


def modified(snap):
    """None or (what, description): how the argument objects differ from the snapshot"""
    for label, (outer, evs) in snap.items():
        if len(outer) != len(evs):
            return "outer-length", f"{label}: number of events {len(evs)} -> {len(outer)}"
        for i, (ev, parts, datas) in enumerate(evs):
            if outer[i] is not ev:
                return "inner-identity", f"{label}: event {i} was replaced by another list object"
            if len(ev) != len(parts):
                return "inner-length", f"{label}: event {i} had {len(parts)} particles, now {len(ev)}"
            for j, (q, d) in enumerate(zip(parts, datas)):
                if ev[j] is not q:
                    return "element-identity", f"{label}: event {i} position {j} holds another particle object"
                if not np.array_equal(q.data_, d, equal_nan=True):
                    return "particle-data", f"{label}: event {i} particle {j} data_ changed"
    return None


def verify_unmodified(snap, name, method):
    m = modified(snap)
    if m:
        raise InputModified(f"input-modified:{name}:{method}:{m[0]}",
                            f"{name}.{method} modified the caller's particle lists: {m[1]}")


def rp_i(f, evs):
    parts = mk(evs)
    snap = snapshot(dict(flow=parts))
    r = api(f, "ReactionPlaneFlow", "integrated_flow", [parts])
    verify_unmodified(snap, "ReactionPlaneFlow", "integrated_flow")
    return r


def rp_d(f, evs, edges, sel):
    parts = mk(evs)
    snap = snapshot(dict(flow=parts))
    r = api(f, "ReactionPlaneFlow", "differential_flow", [parts, edges, sel])
    verify_unmodified(snap, "ReactionPlaneFlow", "differential_flow")
    return r


def run_real(name, case, flow, ref, diff_edges=None):
    """returns (value, sigma) or list of them; exceptions propagate"""
    f = new(name, case["n"], case["weight"], case["gap"])
    pf = mk(flow)
    pr = pf if case["same"] and flow is ref else mk(ref)
    snap = snapshot(dict(flow=pf, reference=pr))
    with np.errstate(all="ignore"):
        if diff_edges is None:
            r = api(f, name, "integrated_flow", [pf, pr, case["self_corr"]])
            verify_unmodified(snap, name, "integrated_flow")
            return (float(r[0]), float(r[1]))
        r = api(f, name, "differential_flow", [pf, diff_edges, case["sel"], pr, case["self_corr"]])
        verify_unmodified(snap, name, "differential_flow")
        return [(float(t[0]), float(t[1])) for t in r]


# ------------------------------------------------------------------ correspondence (tie C)
def correspond(ctx):
    rng = ctx.rng
    ctx.rule = ("random samples (1-5 events, 0-10 particles/event incl. empty events and empty sub-events, weights "
                "unset/set/mixed, harmonics 1-4, all five weight names, gaps {0,0.1,0.5} or bit-equal to a particle's eta, "
                "bin edges random or bit-equal to a particle's value, self_corr on/off, flow sample = or != reference sample); "
                "non-trivial = >=2 events, both sub-events populated in some event and (differential) at least one "
                "particle inside and one outside some bin; distinct by canonical input")
    _correspond_tables(ctx)
    ncases = ctx.n(90, 2500)
    lines, meta, glines, glines2 = [], [], [], []
    gstat = dict(same=0, judged=0)
    # ---- phase 1: everything except the event-plane ops that need the scipy value
    for i in range(ncases):
        case = gen_case(rng)
        if rng.random() < 0.25:
            etas = [abs(P(t).pseudorapidity()) for ev in case["ref"] for t in ev]
            if etas:
                case["gap"] = float(rng.choice(etas))  # boundary: eta == +-gap exactly
        n = case["n"]
        pf = mk(case["flow"])
        pr = pf if case["same"] else mk(case["ref"])
        edges = gen_edges(rng, pf, case["sel"])
        case["edges"] = edges
        sf, sr = enc_sample(pf, n), enc_sample(pr, n)
        head = f"{n}\t{case['weight']}\t{f2h(case['gap'])}\t{1 if case['self_corr'] else 0}"
        for op, args in (("rp", sf), ("rpd", f"{case['sel']}\t{common.fl(edges)}\t{sf}"), ("sp", f"{head}\t{sf}\t{sr}"),
                         ("spd", f"{head}\t{case['sel']}\t{common.fl(edges)}\t{sf}\t{sr}"),
                         ("eprn", f"{n}\t{case['weight']}\t{f2h(case['gap'])}\t{sr}")):
            lines.append(f"{op}\t{args}")
            meta.append((op, case, pf, pr))
            glines.append(f"g{op}\t{args}")     # the same op on the functions generated from the current source
    allouts = common.run_driver("C12", lines + glines)
    outs, gouts = allouts[:len(lines)], allouts[len(lines):]
    lines2, meta2 = [], []
    for (op, case, pf, pr), out, gout in zip(meta, outs, gouts):
        n = case["n"]
        _judge_generated(ctx, gstat, _compare_phase1, op, case, pf, pr, out, gout)
        canon = (op, n, case["weight"], case["gap"], case["self_corr"], case["sel"], tuple(case.get("edges", ())),
                 tuple(tuple(e) for e in case["flow"]), tuple(tuple(e) for e in case["ref"]))
        nontriv = _nontrivial(case, pf, pr, op)
        ctx.count(f"{op}/events={len(pf)}/w={case['wmode']}")
        sample = dict(op=op, n=n, weight=case["weight"], gap=case["gap"], self_corr=case["self_corr"],
                      flow=case["flow"][:2], model=out[:120])
        ctx.case(canon, nontriv, sample=sample if op in ("sp", "rpd") else None)
        try:
            bad = _compare_phase1(op, case, pf, pr, out)
        except Exception as e:  # the real code raised where the model answered
            bad = f"real code raised {type(e).__name__}: {e}"
        if bad:
            ctx.brk("correspondence-broken", f"{op}: {bad}", case=_case_json(case, op))
        if op == "eprn" and out.startswith("ok "):
            rn = h2f(out.split()[1])
            resval = ep_res_fn(rn)
            case["resval"] = resval
            sf, sr = enc_sample(pf, n), enc_sample(pr, n)
            head = f"{n}\t{case['weight']}\t{f2h(case['gap'])}\t{1 if case['self_corr'] else 0}\t{f2h(resval)}"
            for op2, args in (("ep", f"{head}\t{sf}\t{sr}"),
                              ("epd", f"{head}\t{case['sel']}\t{common.fl(case['edges'])}\t{sf}\t{sr}")):
                lines2.append(f"{op2}\t{args}")
                meta2.append((op2, case, pf, pr))
                glines2.append(f"g{op2}\t{args}")
    # ---- phase 2: event plane with the scipy value of the resolution correction
    allouts2 = common.run_driver("C12", lines2 + glines2) if lines2 else []
    outs2, gouts2 = allouts2[:len(lines2)], allouts2[len(lines2):]
    for (op, case, pf, pr), out, gout in zip(meta2, outs2, gouts2):
        _judge_generated(ctx, gstat, _compare_ep, op, case, pf, pr, out, gout)
        canon = (op, case["n"], case["weight"], case["gap"], case["self_corr"], case["sel"], tuple(case["edges"]),
                 tuple(tuple(e) for e in case["flow"]), tuple(tuple(e) for e in case["ref"]))
        ctx.count(f"{op}/events={len(pf)}/w={case['wmode']}")
        ctx.case(canon, _nontrivial(case, pf, pr, op),
                 sample=dict(op=op, n=case["n"], weight=case["weight"], gap=case["gap"], res=case["resval"],
                             model=out[:120]))
        try:
            bad = _compare_ep(op, case, pf, pr, out)
        except Exception as e:
            bad = f"real code raised {type(e).__name__}: {e}"
        if bad:
            ctx.brk("correspondence-broken", f"{op}: {bad}", case=_case_json(case, op))
    ctx.cov["generated_core_ops"] = dict(bitwise_equal_to_model=gstat["same"], judged_against_real_code=gstat["judged"])
    if SKIPS["n"]:
        ctx.count("skipped-no-private-access", SKIPS["n"])
        ctx.notes.append("the optional cross-check of the resolution against the object's private __calculate_reference was "
                         "skipped (entry point absent or changed); all gating comparisons use the public API")
        SKIPS["n"] = 0
    ctx.assumptions.append("input domain: samples are sequences of sequences of Particle (the docs say list; tuples and numpy object "
                           "arrays are accepted at HEAD and must give the list's result). One-shot iterators are outside the documented "
                           "domain: as the OUTER container they are rejected (TypeError from len()) and the oracle asserts 'raise or the "
                           "list's result'; EVENTS given as one-shot iterators are silently consumed once by ReactionPlaneFlow / "
                           "QCumulantFlow.differential_flow (later bins empty) -- observed at HEAD, not covered by the property "
                           "statement (List[List[Particle]]), not judged")
    ctx.assumptions.append("environment: QCumulantFlow / LeeYangZeroFlow / PCAFlow draw their random reaction planes from the global "
                           "`random` module by design, so the `random` state is exempt for them; the flow API takes no file names, so "
                           "the cwd / relative-name device only checks that results and cwd are unaffected")
    ctx.assumptions.append("event-plane resolution correction (scipy brentq + Bessel) is an opaque parameter `res` of the "
                           "model; its value at the model's Rn is computed by the harness and checked against the real code's resolution")
    ctx.assumptions.append("phi -> u = exp(i n phi) is evaluated by the harness on the real Particle objects; particles with "
                           "|px|,|py| < 1e-6 (phi() defined as 0) are outside the generated domain")


def _judge_generated(ctx, gstat, compare, op, case, pf, pr, out, gout):
    """tie C on top of tie T: the functions generated from the current source (driver ops `g<op>`) against the real code.
    When the generated function printed exactly what the model printed its verdict is the model's (judged just after);
    otherwise it is compared with the real code on its own."""
    if gout == out:
        gstat["same"] += 1
        return
    gstat["judged"] += 1
    try:
        bad = compare(op, case, pf, pr, gout)
    except Exception as e:
        bad = f"real code raised {type(e).__name__}: {e}"
    if bad:
        ctx.brk("correspondence-broken", f"g{op} (generated from the current source): {bad}", case=_case_json(case, "g" + op))


def _case_json(case, op):
    d = {k: case[k] for k in ("n", "weight", "gap", "self_corr", "sel", "flow", "ref", "same") if k in case}
    d["edges"] = case.get("edges")
    d["op"] = op
    return d


def _nontrivial(case, pf, pr, op):
    if len(pf) < 2:
        return False
    both = any(any(p.pseudorapidity() >= case["gap"] for p in ev) and any(p.pseudorapidity() < -case["gap"] for p in ev)
               for ev in pr)
    if op in ("rp",):
        return sum(len(e) for e in pf) >= 3
    if op in ("rpd", "spd", "epd"):
        e = case["edges"]
        vals = [sel_val(p, case["sel"]) for ev in pf for p in ev]
        ins = [any(e[i] <= v < e[i + 1] for i in range(len(e) - 1)) for v in vals]
        split = any(ins) and (not all(ins) or len(e) > 2)
        return split and (op == "rpd" or both)
    return both


def _compare_phase1(op, case, pf, pr, out):
    n = case["n"]
    if op == "rp":
        f = new("ReactionPlaneFlow", n)
        try:
            with np.errstate(all="ignore"):
                r = complex(api(f, "ReactionPlaneFlow", "integrated_flow", [pf]))
            real = "err" if not (math.isfinite(r.real) and math.isfinite(r.imag)) else r
        except ZeroDivisionError:
            real = "err"
        if real == "err":
            return None if out == "err value" else f"code: division by zero particle count, model {out}"
        if not out.startswith("ok "):
            return f"code {real}, model {out}"
        a, b = (h2f(t) for t in out.split()[1:3])
        return None if abs(complex(a, b) - real) <= 1e-12 else f"code {real}, model {complex(a, b)}"
    if op == "rpd":
        f = new("ReactionPlaneFlow", n)
        r = api(f, "ReactionPlaneFlow", "differential_flow", [pf, case["edges"], case["sel"]])
        if not out.startswith("ok"):
            return f"code {r}, model {out}"
        m = parse_pairs(out[3:])
        if len(m) != len(r):
            return f"{len(r)} bins vs {len(m)}"
        for x, (a, b) in zip(r, m):
            if abs(complex(x) - complex(a, b)) > 1e-12:
                return f"code {r}, model {m}"
        return None
    name = "ScalarProductFlow" if op.startswith("sp") else "EventPlaneFlow"
    f = new(name, n, case["weight"], case["gap"])
    res, cond, Q, wref, terms, res_priv = reference_info(name, f, pr, case)
    if op == "eprn":
        if not out.startswith("ok "):
            return f"model {out}"
        rn = h2f(out.split()[1])
        tot = sum(terms)
        rn_code = math.sqrt(tot / len(terms)) if terms and tot >= 0 else float("nan")
        tol = 1e-10 * (1 + min(cond, 1e8))
        if not vclose(rn, rn_code, tol) and not (abs(tot) < 1e-12 * max(1.0, sum(abs(t) for t in terms))):
            return f"Rn: code {rn_code!r}, model {rn!r} (terms {terms})"
        # contract of the external parameter: harness copy of the scipy part reproduces the real resolution
        if res_priv is not None and not vclose(ep_res_fn(rn_code), res_priv, 1e-9 * (1 + min(cond, 1e8))):
            return f"resolution correction: harness scipy copy {ep_res_fn(rn_code)!r} vs real code {res_priv!r}"
        return None
    tol = 1e-10 * (1 + min(cond, 1e8))
    scale = s2_scale(name, pf, Q, wref, res)
    with np.errstate(all="ignore"):
        if op == "sp":
            r = api(f, name, "integrated_flow", [pf, pr, case["self_corr"]])
            real = [(float(r[0]), float(r[1]))]
            if not out.startswith("ok "):
                return f"code {real}, model {out}"
            t = [h2f(x) for x in out.split()[1:4]]
            model = [(t[0], t[1])]
            if res_priv is not None and not vclose(t[2], res_priv, tol):
                return f"resolution: code {res_priv!r}, model {t[2]!r}"
        else:
            r = api(f, name, "differential_flow", [pf, case["edges"], case["sel"], pr, case["self_corr"]])
            real = [(float(x[0]), float(x[1])) for x in r]
            if not out.startswith("ok"):
                return f"code {real}, model {out}"
            model = parse_pairs(out[3:])
    return _cmp_pairs(real, model, tol, scale, cond)


def _cmp_pairs(real, model, tol, scale, cond):
    if cond > 1e8:
        return None  # resolution sum cancels to rounding noise: both sides are noise (counted as trivial)
    if len(real) != len(model):
        return f"{len(real)} bins vs {len(model)}"
    for (v, s), (mv, ms) in zip(real, model):
        if not vclose(v, mv, tol):
            return f"value: code {real}, model {model}"
        if not sigma_close(s, ms, scale, max(tol, 1e-9) * 100):
            return f"sigma: code {real}, model {model}"
    return None


def _compare_ep(op, case, pf, pr, out):
    f = new("EventPlaneFlow", case["n"], case["weight"], case["gap"])
    res, cond, Q, wref, terms, res_priv = reference_info("EventPlaneFlow", f, pr, case)
    tol = 1e-9 * (1 + min(cond, 1e8))
    scale = s2_scale("EventPlaneFlow", pf, Q, wref, res)
    with np.errstate(all="ignore"):
        if op == "ep":
            r = api(f, "EventPlaneFlow", "integrated_flow", [pf, pr, case["self_corr"]])
            real = [(float(r[0]), float(r[1]))]
            if not out.startswith("ok "):
                return f"code {real}, model {out}"
            model = [tuple(h2f(x) for x in out.split()[1:3])]
        else:
            r = api(f, "EventPlaneFlow", "differential_flow", [pf, case["edges"], case["sel"], pr, case["self_corr"]])
            real = [(float(x[0]), float(x[1])) for x in r]
            if not out.startswith("ok"):
                return f"code {real}, model {out}"
            model = parse_pairs(out[3:])
    if res_priv is not None and (math.isfinite(res_priv) or math.isfinite(case["resval"])) and cond <= 1e8 \
            and not vclose(case["resval"], res_priv, 1e-7 * (1 + cond)):
        return f"resolution: code {res_priv!r}, harness res(Rn_model) {case['resval']!r}"
    return _cmp_pairs(real, model, tol, scale, cond)


def _correspond_tables(ctx):
    """generated tables (through the driver) against the behaviour of the real classes"""
    probes = DOCUMENTED + ["pt", "PT", "y", "eta", "", "pT ", "Rapidity", "pT2", "pTn", "pt2", "phi"] + TEXT_VARIANTS
    lines, meta = [], []
    for c in CLASSES:
        lines.append(f"dflt\t{c}")
        meta.append(("dflt", c, None, None))
        for s in probes:
            lines.append(f"selok\t{c}\tflow_as_function_of\t{common.hexs(s)}")
            meta.append(("selok", c, "flow_as_function_of", s))
        if c in ("EventPlaneFlow", "ScalarProductFlow"):
            for s in probes:
                lines.append(f"selok\t{c}\tweight\t{common.hexs(s)}")
                meta.append(("selok", c, "weight", s))
    outs = common.run_driver("C12", lines)
    data = _table_sample()
    for (op, c, what, s), out in zip(meta, outs):
        ctx.count(f"table/{op}")
        if op == "dflt":
            ok_model = out.startswith("ok ") and all(x.endswith("=1") for x in out[3:].split(";") if x.startswith("__init__"))
            try:
                new(c)
                ok_real = True
            except Exception:
                ok_real = False
            ctx.case(("dflt", c), True, sample=dict(op="dflt", cls=c, model=out))
            if ok_model != ok_real:
                ctx.brk("correspondence-broken", f"defaults of {c}: constructor with defaults "
                        f"{'succeeds' if ok_real else 'raises'}, generated table says {out}", case=dict(op="dflt", cls=c))
            continue
        acc_real = _real_accepts(c, what, s, data)
        acc_model = out.split()[1] == "1" if out.startswith("ok ") else None
        ctx.case(("selok", c, what, s), s in DOCUMENTED or s in WEIGHTS)
        if acc_model is None or acc_model != acc_real:
            ctx.brk("correspondence-broken", f"{c}.{what} = {s!r}: real code {'accepts' if acc_real else 'rejects'}, "
                    f"generated table: {out}", case=dict(op="selok", cls=c, what=what, value=s))


_TABLE = None


def _table_sample():
    global _TABLE
    if _TABLE is None:
        import random
        r = random.Random(12345)
        _TABLE = [gen_ev(r, 9, 12, "unset", split=True) for _ in range(4)]
    return _TABLE


def _real_accepts(c, what, s, data):
    """does the argument validation accept the string (ValueError from the validation = rejected)"""
    try:
        if what == "weight":
            new(c, 2, s, 0.0)
            return True
        f = new(c)
        parts = mk(data)
        with np.errstate(all="ignore"):
            if c in ("EventPlaneFlow", "ScalarProductFlow"):
                api(f, c, "differential_flow", [parts, [0.0, 1.0, 4.0], s, parts])
            else:
                api(f, c, "differential_flow", [parts, [0.0, 1.0, 4.0], s])
        return True
    except ValueError as e:
        if "flow_as_function_of must be" in str(e) or "Invalid weight" in str(e):
            return False
        return True
    except Exception:
        return True  # it got past the validation (what happens afterwards is the oracle's business)


# ------------------------------------------------------------------ oracle on the real code
# strings that look like documented names: CRLF / LF / blanks / tab around them, non-ASCII look-alikes
TEXT_VARIANTS = ["pT\r\n", "pT\n", " pT", "pT\t", "rapidity\r", "pseudorapidity ", "p\u0422", "\uff50\uff34", "pT\u00a0"]


def oracle_text():
    """a selector / weight string that only resembles a documented name must be rejected (ValueError) or be treated
    exactly like the name it resembles -- never accepted and then binned / weighted as something else"""
    out = []
    data = _table_sample()
    import unicodedata

    def resembles(sv):
        t = unicodedata.normalize("NFKC", sv).strip().replace("\u0422", "T")
        return t
    for c in ("ReactionPlaneFlow", "ScalarProductFlow", "EventPlaneFlow"):
        def diff(sel, weight=None):
            parts = mk(data)
            f = _new(c) if weight is None or c == "ReactionPlaneFlow" else _new(c, 2, weight, 0.1)
            with np.errstate(all="ignore"):
                if c == "ReactionPlaneFlow":
                    return flat(api(f, c, "differential_flow", [parts, [0.0, 1.0, 4.0], sel]))
                return flat([(t[0], t[1]) for t in api(f, c, "differential_flow", [parts, [0.0, 1.0, 4.0], sel, parts])])
        for sv in TEXT_VARIANTS:
            FORM_COUNT["text/selector"] = FORM_COUNT.get("text/selector", 0) + 1
            try:
                got = diff(sv)
            except Exception:
                continue
            want = diff(resembles(sv)) if resembles(sv) in DOCUMENTED else None
            if want is None or not _same_result(got, want) if c != "ReactionPlaneFlow" else (want is None or got != want):
                out.append((f"text-selector:{c}:{sv!r}", f"{c}.differential_flow accepts flow_as_function_of={sv!r} and gives "
                            f"{got}; the documented name it resembles gives {want}", dict(cls=c, selector=sv)))
        if c != "ReactionPlaneFlow":
            for sv in ["pT2 ", "pT2\r\n", " pTn", "p\u04222", "pT\n"]:
                FORM_COUNT["text/weight"] = FORM_COUNT.get("text/weight", 0) + 1
                try:
                    got = diff("pT", weight=sv)
                except Exception:
                    continue
                want = diff("pT", weight=resembles(sv)) if resembles(sv) in WEIGHTS else None
                if want is None or not _same_result(got, want):
                    out.append((f"text-weight:{c}:{sv!r}", f"{c}(weight={sv!r}) is accepted and gives {got}; the documented name it "
                                f"resembles gives {want}", dict(cls=c, weight=sv)))
    return out


def oracle_tables():
    """defaults and documented selectors are accepted by every estimator (real calls)"""
    out = []
    data = _table_sample()
    for c in CLASSES:
        try:
            new(c)
        except Exception as e:
            out.append((f"default-{c}-constructor", f"{c}() with its documented defaults raises {type(e).__name__}: {e}",
                        dict(cls=c, call="constructor with defaults")))
            continue
        for s in DOCUMENTED:
            try:
                f = new(c)
                parts = mk(data)
                with np.errstate(all="ignore"):
                    if c in ("EventPlaneFlow", "ScalarProductFlow"):
                        api(f, c, "differential_flow", [parts, [0.0, 1.0, 4.0], s, parts])
                    else:
                        api(f, c, "differential_flow", [parts, [0.0, 1.0, 4.0], s])
            except Exception as e:
                out.append((f"selector-{c}-{s}", f"{c}().differential_flow(..., flow_as_function_of={s!r}) raises "
                            f"{type(e).__name__}: {str(e)[:120]}", dict(cls=c, selector=s, events=data, bins=[0.0, 1.0, 4.0])))
    for c in ("EventPlaneFlow", "ScalarProductFlow"):
        for w in ["pT", "pT2", "pTn"]:
            try:
                new(c, 2, w, 0.0)
            except Exception as e:
                out.append((f"weight-{c}-{w}", f"{c}(weight={w!r}) raises {type(e).__name__}: {e}", dict(cls=c, weight=w)))
    return out


def ep_regular(name, case, flow, ref, margin=1e-6):
    """no (nearly) vanishing Q-vector in the event-plane computation"""
    if name != "EventPlaneFlow":
        return True
    n, gap = case["n"], case["gap"]

    def wq(p):
        k = case["weight"]
        pt = p.pT_abs()
        return pt if k == "pT" else pt ** 2 if k == "pT2" else pt ** n if k == "pTn" else \
            p.rapidity() if k == "rapidity" else p.pseudorapidity()
    for evf, evr in zip(mk(flow), mk(ref)):
        sc = sum(abs(wq(p)) for p in evr) + 1e-300
        QA = sum(wq(p) * cmath.exp(1j * n * p.phi()) for p in evr if p.pseudorapidity() >= gap)
        QB = sum(wq(p) * cmath.exp(1j * n * p.phi()) for p in evr if p.pseudorapidity() < -gap)
        if not (QA == 0 and QB == 0) and (abs(QA) < margin * sc or abs(QB) < margin * sc):
            return False
        Q = sum(wq(p) * cmath.exp(1j * n * p.phi()) for p in evr)
        for p in evf:
            Qp = Q - abs(wq(p)) * cmath.exp(1j * n * p.phi()) if case["self_corr"] else Q
            if abs(Qp) < margin * sc:
                return False
    return True


def away_from_edges(case, flow, ref, edges, margin=1e-7):
    """rotating (px,py) perturbs pT and eta in the last bits: keep particles off gap and bin boundaries"""
    for t in [t for ev in ref for t in ev]:
        e = P(t).pseudorapidity()
        if abs(abs(e) - case["gap"]) < margin:
            return False
    for t in [t for ev in flow for t in ev]:
        v = sel_val(P(t), case["sel"])
        if any(abs(v - x) < margin for x in edges):
            return False
    return True


RELATIONS = ["rotate", "perm-particles", "perm-events", "single-bin", "bins", "copies", "containers", "environment"]
DEVICE_RELATIONS = ("copies", "containers", "environment")


def transformed(rel, case, flow, ref, aux):
    same = case["same"]
    if rel == "rotate":
        f2 = [rot_ev(e, a) for e, a in zip(flow, aux["angles"])]
        r2 = f2 if same else [rot_ev(e, a) for e, a in zip(ref, aux["angles"])]
    elif rel == "perm-particles":
        f2 = [[e[i] for i in p] for e, p in zip(flow, aux["pf"])]
        r2 = f2 if same else [[e[i] for i in p] for e, p in zip(ref, aux["pr"])]
    elif rel == "perm-events":
        f2 = [flow[i] for i in aux["pe"]]
        r2 = f2 if same else [ref[i] for i in aux["pe"]]
    else:
        f2, r2 = flow, ref
    return f2, r2


def pweight(t):
    return 1.0 if t[3] is None else t[3]


def restrict_flow(flow, sel, lo, hi):
    """[lo, hi) on the value the Particle class reports for the documented selector"""
    return [[t for t in ev if lo <= sel_val(P(t), sel) < hi] for ev in flow]


def tight_bin(flow, sel):
    """one bin whose lower edge is bit-equal to the smallest selector value of the sample"""
    vals = [sel_val(P(t), sel) for ev in flow for t in ev]
    return [float(min(vals)), float(max(vals)) + 1.0] if vals else [0.0, 1.0]


# ------------------------------------------------------------------ copies / containers / environment
def _objarr(x):
    a = np.empty(len(x), dtype=object)
    for i, v in enumerate(x):
        a[i] = v
    return a


CONTAINERS = {  # accepted by the code at HEAD although the docs only say "list": results must not depend on them
    "tuple-of-tuples": lambda parts: tuple(tuple(e) for e in parts),
    "tuple-of-lists": lambda parts: tuple(parts),
    "objarray-of-lists": lambda parts: _objarr(parts),
    "objarray-of-objarrays": lambda parts: _objarr([_objarr(e) for e in parts]),
}
ONE_SHOT = {    # rejected at HEAD (len() of an iterator): must raise or give the list's result, never something else
    "iter": lambda parts: iter(parts),
    "generator": lambda parts: (e for e in parts),
    "map": lambda parts: map(list, parts),
}
COPIES = {
    "copy.copy": lambda o: __import__("copy").copy(o),
    "copy.deepcopy": lambda o: __import__("copy").deepcopy(o),
    "pickle": lambda o: __import__("pickle").loads(__import__("pickle").dumps(o)),
}


def _est_ctor(name, case, aux):
    if name == "ReactionPlaneFlow":
        return (case["n"],)
    if name == "QCumulantFlow":
        return (case["n"], aux["k"], aux.get("imaginary") or "zero")
    return (case["n"], case["weight"], case["gap"])


def _est_call(name, obj, case, aux, method, pf, pr, edges):
    """one public call, raw result"""
    if name in ("ReactionPlaneFlow", "QCumulantFlow"):
        vals = [pf] if method == "integrated_flow" else [pf, edges, case["sel"]]
    else:
        vals = [pf, pr, case["self_corr"]] if method == "integrated_flow" else [pf, edges, case["sel"], pr, case["self_corr"]]
    with np.errstate(all="ignore"):
        return api(obj, name, method, vals)


def _est_same(name, a, b):
    if name == "QCumulantFlow":
        try:
            return _qc_close(a, b, 1e-6) or all(_qc_unstable(x) for x in flat(a)[::2])
        except Exception:
            return flat(a) == flat(b)
    fa, fb = flat(a), flat(b)
    if name == "ReactionPlaneFlow":
        return len(fa) == len(fb) and all(vclose(x, y, 1e-9) for x, y in zip(fa, fb))
    fa = [v for t in (a if isinstance(a, list) else [a]) for v in (float(t[0]), float(t[1]))]
    fb = [v for t in (b if isinstance(b, list) else [b]) for v in (float(t[0]), float(t[1]))]
    return _same_result(fa, fb)


class perturbed_env:
    """cwd in a fresh temporary directory, non-default numpy print options and error state, advanced global
    `random` / `np.random` states; everything restored on exit"""
    def __enter__(self):
        import os
        import random
        import tempfile
        self.saved = (os.getcwd(), np.get_printoptions(), np.geterr(), random.getstate(), np.random.get_state())
        self.tmp = tempfile.TemporaryDirectory()
        os.chdir(self.tmp.name)
        np.set_printoptions(precision=2, threshold=3, linewidth=20, suppress=True)
        np.seterr(all="warn")
        random.seed(987654321)
        [random.random() for _ in range(17)]
        np.random.seed(1234567)
        np.random.random(13)
        return self

    def __exit__(self, *a):
        import os
        import random
        os.chdir(self.saved[0])
        np.set_printoptions(**self.saved[1])
        np.seterr(**self.saved[2])
        random.setstate(self.saved[3])
        np.random.set_state(self.saved[4])
        self.tmp.cleanup()


def _env_state():
    import os
    import random
    st = np.random.get_state()
    return dict(cwd=os.getcwd(), geterr=dict(np.geterr()), printoptions=repr(sorted(np.get_printoptions().items(), key=str)),
                random=hash(random.getstate()), np_random=(st[0], hash(st[1].tobytes()), st[2:]))


def _check_devices(name, rel, case, aux):
    """round-4 devices on the real estimator: the result of a public call must not depend on (copies) whether the
    estimator / the particle lists are copies, (containers) the container types of the sample, (environment) cwd,
    numpy print options / error state and the global random states -- and the call must leave those as it found them"""
    flow = case["flow"]
    ref = flow if case["same"] else case["ref"]
    ctor = _est_ctor(name, case, aux)
    edges = aux["edges"]
    methods = ["integrated_flow", "differential_flow"]
    if name == "QCumulantFlow" and aux["k"] == 6:
        methods = ["integrated_flow"]

    def parts():
        pf = mk(flow)
        return pf, (pf if case["same"] else mk(ref))
    for method in methods:
        pf, pr = parts()
        try:
            base = _est_call(name, _new(name, *ctor), case, aux, method, pf, pr, edges)
        except (ZeroDivisionError, IndexError):
            continue
        tag = f"{name}.{method}"
        if rel == "copies":
            for how, fn in COPIES.items():
                obj = _new(name, *ctor)
                obj2 = fn(obj)
                if observe(obj2) != observe(obj):
                    return (f"copy:{tag}:{how}:observable-differs", f"{how} of a {name}{ctor} differs from the original: "
                            f"{_first_diff(observe(obj), observe(obj2))}", dict())
                pf, pr = parts()
                if how != "copy.copy":
                    pf2 = fn(pf)
                    pr2 = pf2 if pr is pf else fn(pr)
                else:
                    pf2 = [fn(e) for e in fn(pf)]
                    pr2 = pf2 if pr is pf else [fn(e) for e in fn(pr)]
                got = _est_call(name, obj2, case, aux, method, pf2, pr2, edges)
                if not _est_same(name, base, got):
                    return (f"copy:{tag}:{how}", f"{tag} on a {how} of the estimator and of the particle lists gives {flat(got)}, "
                            f"on the originals {flat(base)}", dict(expected=flat(base), observed=flat(got)))
        elif rel == "containers":
            for kind, fn in CONTAINERS.items():
                pf, pr = parts()
                cf = fn(pf)
                cr = cf if pr is pf else fn(pr)
                try:
                    got = _est_call(name, _new(name, *ctor), case, aux, method, cf, cr, edges)
                except Exception as e:
                    return (f"container:{tag}:{kind}", f"{tag} with the sample given as {kind} raises {type(e).__name__}: {e} "
                            f"(a list of lists is accepted)", dict(expected=flat(base), observed="raises " + type(e).__name__))
                if not _est_same(name, base, got):
                    return (f"container:{tag}:{kind}", f"{tag} with the sample given as {kind} gives {flat(got)}, as list of "
                            f"lists {flat(base)}", dict(expected=flat(base), observed=flat(got)))
            for kind, fn in ONE_SHOT.items():
                pf, pr = parts()
                cf = fn(pf)
                cr = cf if pr is pf else fn(pr)
                try:
                    got = _est_call(name, _new(name, *ctor), case, aux, method, cf, cr, edges)
                except Exception:
                    FORM_COUNT["one-shot/" + kind + "/rejected"] = FORM_COUNT.get("one-shot/" + kind + "/rejected", 0) + 1
                    continue
                if not _est_same(name, base, got):
                    return (f"iterator:{tag}:{kind}:silently-wrong", f"{tag} with the events given as a one-shot {kind} neither "
                            f"raises nor gives the list's result: {flat(got)} vs {flat(base)}",
                            dict(expected=flat(base), observed=flat(got)))
            if method == "differential_flow":  # documented: bins may be a list or an np.ndarray
                pf, pr = parts()
                got = _est_call(name, _new(name, *ctor), case, aux, method, pf, pr, np.asarray(edges, dtype=float))
                if not _est_same(name, base, got):
                    return (f"container:{tag}:bins-ndarray", f"{tag} with bins as np.ndarray gives {flat(got)}, as list {flat(base)}",
                            dict(expected=flat(base), observed=flat(got)))
        elif rel == "environment":
            pf, pr = parts()
            obj = _new(name, *ctor)
            with perturbed_env():
                before = _env_state()
                got = _est_call(name, obj, case, aux, method, pf, pr, edges)
                after = _env_state()
            if name == "QCumulantFlow":  # draws its random reaction planes from the global `random` by design
                before.pop("random"), after.pop("random")
            changed = [k for k in before if before[k] != after[k]]
            if changed:
                return (f"environment:{tag}:changes-{changed[0]}", f"{tag} changed the caller's {changed}: "
                        f"{ {k: (before[k], after[k]) for k in changed if k in ('cwd', 'geterr')} }", dict())
            if not _est_same(name, base, got):
                return (f"environment:{tag}:result-depends", f"{tag} in another working directory, with other numpy print / error "
                        f"settings and advanced global random states gives {flat(got)}, normally {flat(base)}",
                        dict(expected=flat(base), observed=flat(got)))
    return None


def check_relation(name, rel, case, aux):
    if POOL["on"]:
        POOL["history"].append(dict(estimator=name, relation=rel, case=_case_json(case, "oracle"), aux=aux))
    try:
        return _check_relation(name, rel, case, aux)
    except InputModified as e:
        return (e.key, e.what, dict())


def _check_relation(name, rel, case, aux):
    """None or (key, what, detail): the REAL estimator `name` violates relation `rel` on this input"""
    if rel in DEVICE_RELATIONS and name != "QCumulantFlow":
        return _check_devices(name, rel, case, aux)
    flow, ref = case["flow"], case["ref"] if not case["same"] else case["flow"]
    edges = aux["edges"]
    n = case["n"]
    if name == "ReactionPlaneFlow":
        f = new(name, n)
        with np.errstate(all="ignore"):
            base = complex(rp_i(f, flow))
            dbase = [complex(z) for z in rp_d(f, flow, edges, case["sel"])]
            if rel == "bins":
                for b, (lo, hi) in enumerate(zip(edges[:-1], edges[1:])):
                    sub = restrict_flow(flow, case["sel"], lo, hi)
                    W = sum(pweight(t) for ev in sub for t in ev)
                    exp = complex(rp_i(f, sub)) if W != 0 else 0j
                    if abs(exp - dbase[b]) > 1e-11:
                        return (f"{name}-bin-vs-restricted", f"bin [{lo!r}, {hi!r}) of the differential flow as function of "
                                f"{case['sel']} is {dbase[b]}, the integrated flow of the particles with lo <= x < hi is {exp}",
                                dict(expected=flat(exp), observed=flat(dbase[b]), bin=b))
                return None
            if rel == "single-bin":
                for bins1 in (aux["allbin"], tight_bin(flow, case["sel"])):
                    one = rp_d(f, flow, bins1, case["sel"])
                    if len(one) != 1 or abs(complex(one[0]) - base) > 1e-11:
                        return (f"{name}-single-bin", f"differential flow over the single bin {bins1} containing every "
                                f"particle {one} != integrated {base}", dict(expected=flat(base), observed=flat(one), bins=bins1))
                # the reaction-plane value is the weighted mean of exp(i n phi) (independent reference)
                ps = [p for ev in mk(flow) for p in ev]
                W = sum((1.0 if np.isnan(p.weight) else p.weight) for p in ps)
                S = sum((1.0 if np.isnan(p.weight) else p.weight) * cmath.exp(1j * n * math.atan2(p.py, p.px)) for p in ps)
                if W != 0 and abs(S / W - base) > 1e-11:
                    return (f"{name}-weighted-mean", f"integrated flow {base} != weighted mean of exp(i n phi) {S / W}",
                            dict(expected=flat(S / W), observed=flat(base)))
                # each bin of the differential flow is the weighted mean over the particles the documented
                # selector puts into [lo, hi) (independent binning: pT, rapidity, pseudorapidity from the momenta)
                ref_d = []
                for lo, hi in zip(edges[:-1], edges[1:]):
                    sel = []
                    for p in ps:
                        pt = math.hypot(p.px, p.py)
                        pa = math.sqrt(p.px ** 2 + p.py ** 2 + p.pz ** 2)
                        v = pt if case["sel"] == "pT" else 0.5 * math.log((p.E + p.pz) / (p.E - p.pz)) \
                            if case["sel"] == "rapidity" else 0.5 * math.log((pa + p.pz) / (pa - p.pz))
                        if lo <= v < hi and min(abs(v - lo), abs(v - hi)) > 1e-9:
                            sel.append(p)
                        elif min(abs(v - lo), abs(v - hi)) <= 1e-9:
                            sel = None
                            break
                    if sel is None:
                        ref_d = None
                        break
                    Wb = sum((1.0 if np.isnan(p.weight) else p.weight) for p in sel)
                    Sb = sum((1.0 if np.isnan(p.weight) else p.weight) * cmath.exp(1j * n * math.atan2(p.py, p.px)) for p in sel)
                    ref_d.append(Sb / Wb if Wb != 0 else 0j)
                if ref_d is not None and (len(ref_d) != len(dbase) or any(abs(x - y) > 1e-11 for x, y in zip(ref_d, dbase))):
                    return (f"{name}-binning-{case['sel']}", f"differential flow as function of {case['sel']} {dbase} != "
                            f"weighted means over the particles in each bin {ref_d}", dict(expected=flat(ref_d), observed=flat(dbase)))
                return None
            if rel == "rotate":
                a = aux["angles"][0]
                f2 = [rot_ev(e, a) for e in flow]
                ph = cmath.exp(1j * n * a)
                exp_i, exp_d = base * ph, [z * ph for z in dbase]
            else:
                f2, _ = transformed(rel, dict(case, same=True), flow, flow, aux)
                exp_i, exp_d = base, dbase
            got_i = complex(rp_i(f, f2))
            got_d = [complex(z) for z in rp_d(f, f2, edges, case["sel"])]
        if abs(got_i - exp_i) > 1e-10:
            return (f"{name}-{rel}-integrated", f"integrated flow {got_i} after `{rel}`, expected {exp_i}",
                    dict(expected=flat(exp_i), observed=flat(got_i)))
        if len(got_d) != len(exp_d) or any(abs(x - y) > 1e-10 for x, y in zip(got_d, exp_d)):
            return (f"{name}-{rel}-differential", f"differential flow {got_d} after `{rel}`, expected {exp_d}",
                    dict(expected=flat(exp_d), observed=flat(got_d)))
        return None
    if name == "QCumulantFlow":
        return _check_qc(rel, case, aux)
    # scalar product / event plane
    f = new(name, n, case["weight"], case["gap"])
    res, cond, Q, wref, _, _ = reference_info(name, f, mk(ref), case)
    if cond > 1e4 or not math.isfinite(res) or res == 0:
        return None  # ill-conditioned resolution: nothing can be concluded from floating point
    tol = 1e-9 * (1 + cond)
    scale = s2_scale(name, mk(flow), Q, wref, res)
    base = run_real(name, case, flow, ref)
    if rel == "single-bin":
        for bins1 in (aux["allbin"], tight_bin(flow, case["sel"])):
            one = run_real(name, case, flow, ref, diff_edges=bins1)
            bad = _cmp_pairs([base], one, tol, scale, cond)
            if bad:
                return (f"{name}-single-bin", f"differential flow over the single bin {bins1} containing every particle "
                        f"{one} != integrated {base}", dict(expected=flat(base), observed=flat(one), bins=bins1))
        return None
    dbase = run_real(name, case, flow, ref, diff_edges=edges)
    if rel == "bins":
        if case["same"]:
            ref = [list(e) for e in ref]  # the reference sample stays the full one
        case_b = dict(case, same=False)
        for b, (lo, hi) in enumerate(zip(edges[:-1], edges[1:])):
            sub = restrict_flow(flow, case["sel"], lo, hi)
            exp = run_real(name, case_b, sub, ref)
            if _cmp_pairs([exp], [dbase[b]], tol, s2_scale(name, mk(sub), Q, wref, res), cond):
                return (f"{name}-bin-vs-restricted", f"bin [{lo!r}, {hi!r}) of the differential flow as function of "
                        f"{case['sel']} is {dbase[b]}, the integrated flow of the particles with lo <= x < hi "
                        f"(same reference sample) is {exp}", dict(expected=flat(exp), observed=flat(dbase[b]), bin=b))
        return None
    f2, r2 = transformed(rel, case, flow, ref, aux)
    case2 = dict(case)
    got = run_real(name, case2, f2, r2)
    dgot = run_real(name, case2, f2, r2, diff_edges=edges)
    if _cmp_pairs([base], [got], tol, scale, cond):
        return (f"{name}-{rel}-integrated", f"integrated (value, error) {got} after `{rel}`, before {base}",
                dict(expected=flat(base), observed=flat(got)))
    if _cmp_pairs(dbase, dgot, tol, scale, cond):
        return (f"{name}-{rel}-differential", f"differential (value, error) {dgot} after `{rel}`, before {dbase}",
                dict(expected=flat(dbase), observed=flat(dgot)))
    return None


def _qc_close(a, b, rel=1e-6):
    """(value, error) pairs or lists of them.  The error estimates are square roots of differences of nearly
    equal terms: when they are negligible against the value (<= 1e-6 |v|) they are rounding noise and only
    their smallness is compared."""
    def pairs(x):
        if isinstance(x, (list, tuple, np.ndarray)) and len(x) == 2 and not isinstance(x[0], (list, tuple, np.ndarray)):
            return [(float(x[0]), float(x[1]))]
        out = []
        for y in x:
            out += pairs(y) if len(y) else [None]
        return out
    pa, pb = pairs(a), pairs(b)
    if len(pa) != len(pb):
        return False
    for x, y in zip(pa, pb):
        if x is None or y is None:
            if x is not y:
                return False
            continue
        if not vclose(x[0], y[0], rel):
            return False
        if vclose(x[1], y[1], 100 * rel):
            continue
        small = 1e-6 * max(abs(x[0]), abs(y[0]))
        if math.isfinite(x[1]) and math.isfinite(y[1]) and abs(x[1]) <= small and abs(y[1]) <= small:
            continue
        return False
    return True


QC_MODES = ["zero", "negative", "nan"]


def _qc_unstable(v):
    """a flow value so close to the branch point of the k-th root that rounding decides it"""
    v = float(v)
    return math.isfinite(v) and 0.0 < abs(v) < 1e-3


def _check_qc(rel, case, aux):
    """Q-cumulant estimator (its algebra belongs to C11): metamorphic relations only, for every order k, every
    `imaginary` mode and both signs of the cumulant (the unphysical sign gives 0 / a negative value / nan by the
    documented mode; the relations hold there just the same).  The estimator adds its own random per-event
    rotation on every call, so equality is up to rounding."""
    flow = case["flow"]
    n, k, imag = case["n"], aux["k"], aux.get("imaginary") or "zero"
    if min([len(e) for e in flow if e] + [99]) < k + 2:
        return None
    if rel in ("containers", "environment", "copies"):
        return _check_devices("QCumulantFlow", rel, case, aux)
    f = new("QCumulantFlow", n, k, imag)
    with np.errstate(all="ignore"):
        base = api(f, "QCumulantFlow", "integrated_flow", [mk(flow)])
        if _qc_unstable(base[0]):
            return None
        if rel == "bins":
            return None  # a bin of the differential Q-cumulant flow is not the integrated flow of a sub-sample
        if rel == "single-bin":
            if k == 6:
                return None
            for bins1 in (aux["allbin"], tight_bin(flow, case["sel"])):
                one = api(new("QCumulantFlow", n, k, imag), "QCumulantFlow", "differential_flow", [mk(flow), bins1, case["sel"]])
                if len(one) != 1 or len(one[0]) < 1 or not vclose(float(one[0][0]), float(base[0]), 1e-6):
                    return ("QCumulantFlow-single-bin", f"k={k}, imaginary={imag!r}: differential flow over the single bin "
                            f"{bins1} containing every particle {one} != integrated {base}",
                            dict(expected=flat(base[0]), observed=flat(one), bins=bins1))
            return None
        f2, _ = transformed(rel, dict(case, same=True), flow, flow, aux)
        got = api(new("QCumulantFlow", n, k, imag), "QCumulantFlow", "integrated_flow", [mk(f2)])
        if not _qc_close(base, got):
            return (f"QCumulantFlow-{rel}-integrated", f"k={k}, imaginary={imag!r}: integrated (value, error) {got} after "
                    f"`{rel}`, before {base}", dict(expected=flat(base), observed=flat(got)))
        if k < 6:
            d0 = api(new("QCumulantFlow", n, k, imag), "QCumulantFlow", "differential_flow", [mk(flow), aux["edges"], case["sel"]])
            d1 = api(new("QCumulantFlow", n, k, imag), "QCumulantFlow", "differential_flow", [mk(f2), aux["edges"], case["sel"]])
            stable = all(len(b_) == 0 or (math.isfinite(float(b_[0])) and abs(float(b_[0])) > 1e-3) for b_ in d0)
            if stable and not _qc_close(d0, d1, 1e-5):
                return (f"QCumulantFlow-{rel}-differential", f"k={k}, imaginary={imag!r}: differential flow {d1} after `{rel}`, "
                        f"before {d0}", dict(expected=flat(d0), observed=flat(d1)))
    return None


def qc_sign(flow, n, k):
    """+1 physical / -1 unphysical sign of the order-k cumulant of the sample (read off the public result in
    'negative' mode), 0 when too close to zero"""
    with np.errstate(all="ignore"):
        v = float(api(_new("QCumulantFlow", n, k, "negative"), "QCumulantFlow", "integrated_flow", [mk(flow)])[0])
    return 0 if not math.isfinite(v) or abs(v) < 1e-3 else (1 if v > 0 else -1)


def qc_battery():
    """single bin containing every particle = integrated flow, for k in {2,4} x imaginary mode x sign of the
    cumulant x documented selector; fixed samples (independent of VERIF_SEED)"""
    import random
    rng = random.Random("C12-qc-battery")
    out = []
    for k in (2, 4):
        want = {1: None, -1: None}
        for _ in range(200):
            if all(v is not None for v in want.values()):
                break
            n = rng.randint(1, 3)
            mod = (n, 0.3) if rng.random() < 0.5 else None
            flow = [gen_ev(rng, 8, 12, "unset", mod=mod) for _ in range(rng.randint(2, 4))]
            sg = qc_sign(flow, n, k)
            if sg and want[sg] is None:
                want[sg] = (n, flow)
        for sg, item in want.items():
            if item is None:
                continue
            n, flow = item
            for imag in QC_MODES:
                for sel in DOCUMENTED:
                    case = dict(n=n, weight="pT", gap=0.0, self_corr=False, flow=flow, ref=flow, same=True, sel=sel)
                    aux = dict(k=k, imaginary=imag, allbin=[-1000.0, 1000.0], edges=[-1000.0, 1000.0], angles=[0.0] * len(flow),
                               pf=[list(range(len(e))) for e in flow], pr=[list(range(len(e))) for e in flow],
                               pe=list(range(len(flow))))
                    FORM_COUNT[f"qc-battery/k={k}/{imag}/sign={sg:+d}"] = FORM_COUNT.get(f"qc-battery/k={k}/{imag}/sign={sg:+d}", 0) + 1
                    try:
                        r = check_relation("QCumulantFlow", "single-bin", case, aux)
                    except Exception as e:
                        r = ("QCumulantFlow-raises", f"estimator raised {type(e).__name__}: {e}", dict())
                    if r:
                        out.append((case, aux, ("QCumulantFlow", "single-bin", r)))
                        break
                else:
                    continue
                break
    return out


def gen_aux(rng, case, qc=False):
    flow = case["flow"]
    ref = case["ref"]
    nev = len(flow)
    special = [0.0, math.pi, -math.pi, math.pi / 2, 2 * math.pi, math.pi / case["n"], 1e-3]
    angles = [rng.choice(special) if rng.random() < 0.3 else rng.uniform(-10, 10) for _ in range(nev)]

    def perm(k):
        p = list(range(k))
        rng.shuffle(p)
        return p
    pe = perm(nev)
    pf = mk(flow)
    edges = gen_edges(rng, pf, case["sel"], exact_prob=0.5 if rng.random() < 0.5 else 0.0)
    return dict(angles=angles, pf=[perm(len(e)) for e in flow], pr=[perm(len(e)) for e in ref], pe=pe,
                edges=edges, allbin=[-1000.0, 1000.0], k=rng.choice([2, 4, 6]) if qc else None,
                imaginary=rng.choice(QC_MODES) if qc else None, extra=rng.random() < 0.4)


def check_all(case, aux, names=("ReactionPlaneFlow", "ScalarProductFlow", "EventPlaneFlow", "QCumulantFlow")):
    for name in names:
        for rel in RELATIONS:
            if rel == "rotate":
                if not away_from_edges(case, case["flow"], case["ref"], aux["edges"]):
                    continue
                if not ep_regular(name, case, case["flow"], case["ref"] if not case["same"] else case["flow"]):
                    continue
            if rel in DEVICE_RELATIONS and not aux.get("extra"):
                continue
            r = check_relation(name, rel, case, aux)
            if r:
                return name, rel, r
    return None


def ep_degenerate_probe():
    """monitor of the known limitation: a vanishing Q-vector has the fixed direction 0 (arctan2(0,0))"""
    case = dict(n=1, weight="pT", gap=0.0, self_corr=True, same=True, sel="pT",
                flow=[[cart(1.0, 0.3, 1.0, None)], [cart(1.0, 0.5, 1.0, None), cart(2.0, 2.0, -1.0, None)]])
    case["ref"] = case["flow"]
    a = run_real("EventPlaneFlow", case, case["flow"], case["flow"])
    f2 = [rot_ev(e, 2.0) for e in case["flow"]]
    b = run_real("EventPlaneFlow", case, f2, f2)
    if not vclose(a[0], b[0], 1e-9):
        return (KEY_EP_DEGENERATE,
                "EventPlaneFlow: flow value changes under a rotation when a Q-vector vanishes (one-particle event with "
                f"self-correlation removal / empty sub-event): {a} -> {b}",
                dict(input=dict(case=case, rotation=2.0), expected=flat(a), observed=flat(b)))
    return None


# ------------------------------------------------------------------ call histories on long-lived objects
# A history is a JSON list of steps executed in order on a workspace of named samples (Python list objects
# that stay THE SAME objects for the whole history) and on one long-lived estimator object per
# (class, constructor arguments):
#   build / refill        create a sample / replace the content of the same list object (other size, other flow)
#   reverse, perm-events, perm-particles, rotate (through the px/py setters), replace-event, weights
#                         in-place mutations of the sample between calls
#   call                  integrated_flow / differential_flow of a long-lived object on workspace samples
# After every call the result is compared with a FRESH object on a deep copy of the current content.  Same
# content, same code: any difference is state carried by the object (or by the argument objects).
STATEFUL = ["ReactionPlaneFlow", "ScalarProductFlow", "EventPlaneFlow"]
SAMPLE_KINDS = {           # (events, particles per event, flow strength v)
    "small": ((2, 5), (3, 9), (0.0, 0.3)),
    "dilute-weak": ((12, 25), (10, 20), (0.1, 0.2)),
    "medium": ((6, 12), (30, 60), (0.15, 0.3)),
    "dense-strong": ((3, 5), (100, 190), (0.28, 0.4)),
}


def gen_sample(rng, kind, n, nev=None, weights=False):
    (e0, e1), (m0, m1), (v0, v1) = SAMPLE_KINDS[kind]
    v = rng.uniform(v0, v1)
    nev = nev or rng.randint(e0, e1)
    return [gen_ev(rng, m0, m1, "mixed" if weights else "unset", split=True, mod=(n, v)) for _ in range(nev)]


def _rec(t):
    """generator spec (px, py, pz, w) -> full record (px, py, pz, E, w) of the mirror"""
    q = P(tuple(t))
    return (float(q.px), float(q.py), float(q.pz), float(q.E), t[3])


def _from_rec(r):
    from sparkx.Particle import Particle
    q = Particle()
    q.px, q.py, q.pz, q.E = r[0], r[1], r[2], r[3]
    q.pdg = 211
    if r[4] is not None:
        q.weight = r[4]
    return q


def _rebuild(mirror_events):
    return [[_from_rec(r) for r in ev] for ev in mirror_events]


def run_history(steps, stop_at_first=True):
    """execute a history.  The harness keeps a pristine MIRROR of every sample (records built from the
    generator's spec, changed only by the harness's own mutation steps).  After every call
      (1) the live argument objects must be unmodified (list identities, lengths, element identities,
          particle data_) and equal to the mirror            -> key input-modified:<Estimator>:<method>:<what>
      (2) the result must equal that of a FRESH estimator on a sample REBUILT from the mirror
                                                             -> key instance-reuse-<Estimator>-<method>_flow
    returns None or (key, what, detail) for the first failing call."""
    ws, mirror, objs, failed = {}, {}, {}, set()
    for i, st in enumerate(steps):
        op = st["op"]
        if op == "build":
            mirror[st["slot"]] = [[_rec(t) for t in ev] for ev in st["events"]]
            ws[st["slot"]] = _rebuild(mirror[st["slot"]])
        elif op == "refill":
            mirror[st["slot"]] = [[_rec(t) for t in ev] for ev in st["events"]]
            ws[st["slot"]][:] = _rebuild(mirror[st["slot"]])
        elif op == "reverse":
            ws[st["slot"]].reverse()
            mirror[st["slot"]].reverse()
        elif op == "perm-events":
            for x in (ws[st["slot"]], mirror[st["slot"]]):
                x[:] = [x[j] for j in st["perm"]]
        elif op == "perm-particles":
            for x in (ws[st["slot"]], mirror[st["slot"]]):
                ev = x[st["event"]]
                ev[:] = [ev[j] for j in st["perm"]]
        elif op == "rotate":
            for k, a_ in enumerate(st["angles"][:len(ws[st["slot"]])]):
                c, sn = math.cos(a_), math.sin(a_)
                for q in ws[st["slot"]][k]:
                    q.px, q.py = c * q.px - sn * q.py, sn * q.px + c * q.py
                mirror[st["slot"]][k] = [(c * r[0] - sn * r[1], sn * r[0] + c * r[1], r[2], r[3], r[4])
                                         for r in mirror[st["slot"]][k]]
        elif op == "replace-event":
            recs = [_rec(t) for t in st["particles"]]
            new_ev = [_from_rec(r) for r in recs]
            if st.get("in_place"):
                ws[st["slot"]][st["event"]][:] = new_ev
            else:
                ws[st["slot"]][st["event"]] = new_ev
            mirror[st["slot"]][st["event"]] = recs
        elif op == "weights":
            ev = ws[st["slot"]][st["event"]]
            for q, w in zip(ev, st["weights"]):
                q.weight = w
            mirror[st["slot"]][st["event"]] = [
                (r[0], r[1], r[2], r[3], (st["weights"][j] if j < len(st["weights"]) else r[4]))
                for j, r in enumerate(mirror[st["slot"]][st["event"]])]
        elif op == "copy-sample":
            # the caller hands over a copy of its data: new list (and, unless shallow, particle) objects, same content
            if st["how"] == "copy.copy":
                ws[st["slot"]] = [list(e) for e in ws[st["slot"]]]
            else:
                ws[st["slot"]] = COPIES[st["how"]](ws[st["slot"]])
        elif op == "copy-object":
            name, ctor = st["est"], tuple(st["ctor"])
            key = (name, ctor)
            if key not in objs:
                objs[key] = construct(name, ctor, None)
            o2 = COPIES[st["how"]](objs[key])
            if observe(o2) != observe(objs[key]):
                return (f"copy:{name}:{st['how']}:observable-differs",
                        f"step {i}: {st['how']} of the long-lived {name}{ctor} differs from the original: "
                        f"{_first_diff(observe(objs[key]), observe(o2))}", dict(step=i))
            objs[key] = o2
        elif op in ("call", "bad-call"):
            name, ctor = st["est"], tuple(st["ctor"])
            key = (name, ctor)
            cform = tuple(st["ctor_form"]) if st.get("ctor_form") else None
            if key not in objs:
                objs[key] = construct(name, ctor, cform)
            fs, rs = st["flow"], st.get("ref") or st["flow"]
            flow, ref = ws[fs], ws[rs]
            cf = _rebuild(mirror[fs])
            cr = cf if rs == fs else _rebuild(mirror[rs])
            method = st["method"] + "_flow"
            fault = st.get("fault")
            form = tuple(st["form"]) if st.get("form") else None

            def do(obj, a, b, form=form):
                a, b, bins, sel, sc = _apply_fault(fault, a, b, st.get("bins"), st.get("sel"), st.get("self_corr"))
                if name == "ReactionPlaneFlow":
                    vals = [a] if st["method"] == "integrated" else [a, bins, sel]
                else:
                    vals = [a, b, sc] if st["method"] == "integrated" else [a, bins, sel, b, sc]
                strict = bool(fault) and fault["kind"] == "warnings"
                try:
                    with warnings.catch_warnings(), np.errstate(**({} if strict else dict(all="ignore"))):
                        warnings.simplefilter("error" if strict else "ignore")
                        r = api(obj, name, method, vals, form)
                    if name == "ReactionPlaneFlow":
                        return flat(complex(r)) if st["method"] == "integrated" else flat([complex(z) for z in r])
                    if st["method"] == "integrated":
                        return [float(r[0]), float(r[1])]
                    return flat([(t[0], t[1]) for t in r])
                except Exception as e:
                    return "raises " + type(e).__name__
            hist = [x["op"] if "method" not in x else x["est"][:2] + ":" + x["method"][:4] +
                    ("!" + x["fault"]["kind"] if x.get("fault") else "") for x in steps[:i + 1]]
            snap = snapshot({f"sample {k}": v for k, v in ws.items()})
            before = observe(objs[key])
            got = do(objs[key], flow, ref)
            after = observe(objs[key])
            m = modified(snap)
            if not m:
                # the live content must also still be what the harness put there
                for k in ws:
                    live, mir = ws[k], mirror[k]
                    if len(live) != len(mir) or any(len(a) != len(b) for a, b in zip(live, mir)):
                        m = ("outer-length", f"sample {k}: shape differs from the harness's mirror")
                        break
            if m:
                return (f"input-modified:{name}:{method}:{m[0]}",
                        f"step {i}: {name}{ctor}.{method} modified the caller's particle lists: {m[1]} (history {hist})",
                        dict(expected="arguments unchanged", observed=m[1], step=i))
            if isinstance(got, str) and before != after:
                return (f"error-path:object-changed-by-failed-call:{name}.{method}",
                        f"step {i}: {name}{ctor}.{method} failed ({got}, fault {fault}) and left the object changed: "
                        f"{_first_diff(before, after)} (history {hist})",
                        dict(expected=before[:400], observed=after[:400], step=i))
            # the reference call is written with every argument as a keyword, the judged call in the step's form
            exp = do(construct(name, ctor, (0, False)), cf, cr, form=(0, False))
            if not _same_result(got, exp) and (form != (0, False) or cform != (0, False)):
                same_form = do(construct(name, ctor, cform), _rebuild(mirror[fs]) if rs != fs else cf, cr, form=form)
                if _same_result(got, same_form) and rs == fs:
                    args, kwargs = bind(name, method, [None] * len(SIG[(name, method)]), form or (0, False))
                    return (f"call-form:{name}.{method}",
                            f"step {i}: {name}{ctor}.{method} called with {len(args)} positional argument(s) in the documented "
                            f"order{' and defaults omitted' if form and form[1] else ''} (constructor form {cform}) gives {got}, "
                            f"the same call with every argument passed by keyword gives {exp} (history {hist})",
                            dict(expected=exp, observed=got, step=i))
            if not _same_result(got, exp):
                after_error = any(x for x in failed if x[0] == name)
                k_ = f"instance-reuse-after-error-{name}-{method}" if after_error else f"instance-reuse-{name}-{method}"
                return (k_,
                        f"step {i}: {name}{ctor}.{method}{' (fault ' + str(fault) + ')' if fault else ''} on the long-lived "
                        f"object and the live lists gives {got}, a fresh object on a sample rebuilt from the harness's mirror "
                        f"of the same content gives {exp} (history of {i + 1} steps: {hist})",
                        dict(expected=exp, observed=got, step=i))
            if isinstance(got, str):
                failed.add(key)
            if fault:
                o = f"{fault['kind']}->{got if isinstance(got, str) else 'returned'}"
                OUTCOMES[o] = OUTCOMES.get(o, 0) + 1
        else:
            raise ValueError("unknown step " + op)
    return None


OUTCOMES = {}


class _Junk:
    """an element of the wrong type"""


def _pos(n, where):
    return 0 if where == "first" or n <= 1 else n - 1 if where == "last" else n // 2


def _apply_fault(fault, a, b, bins, sel, sc):
    """the arguments of a call that is meant to fail; the caller's lists are never touched (copies are damaged)"""
    if not fault or fault["kind"] == "warnings":
        return a, b, bins, sel, sc
    k = fault["kind"]
    if k == "arg":
        w = fault["which"]
        if w == "bins-not-list":
            bins = "not_a_list"
        elif w == "sel-not-str":
            sel = 123
        elif w == "sel-invalid":
            sel = "invalid_value"
        elif w == "self_corr-not-bool":
            sc = "not_a_bool"
        return a, b, bins, sel, sc
    target = b if fault.get("target") == "ref" and b is not None else a
    same = a is b
    bad = list(target)
    if bad:
        i = _pos(len(bad), fault["event"])
        if k == "event-type":
            bad[i] = None
        else:  # wrong element inside an event
            ev = list(bad[i])
            junk = {"str": "particle", "none": None, "int": 7, "object": _Junk()}[fault["what"]]
            if ev:
                ev[_pos(len(ev), fault["particle"])] = junk
            else:
                ev = [junk]
            bad[i] = ev
    else:
        bad = [None]
    if same:
        return bad, bad, bins, sel, sc
    return (a, bad, bins, sel, sc) if target is b else (bad, b, bins, sel, sc)


def observe(obj, depth=0):
    """everything observable of an estimator object: instance attributes and non-callable class attributes"""
    def canon(x, d):
        if d > 4:
            return "..."
        if isinstance(x, (bool, int, str, type(None))):
            return repr(x)
        if isinstance(x, float):
            return repr(x)
        if isinstance(x, complex):
            return repr(x)
        if isinstance(x, np.ndarray):
            return "nd" + repr(x.shape) + repr(x.tolist())[:2000]
        if isinstance(x, np.generic):
            return repr(x.item())
        if isinstance(x, dict):
            return "{" + ",".join(f"{canon(k, d + 1)}:{canon(v, d + 1)}" for k, v in sorted(x.items(), key=lambda kv: repr(kv[0]))) + "}"
        if isinstance(x, (list, tuple)):
            return "[" + ",".join(canon(v, d + 1) for v in x[:400]) + (f",..{len(x)}" if len(x) > 400 else "") + "]"
        if hasattr(x, "data_") and isinstance(getattr(x, "data_"), np.ndarray):
            return "P" + repr(x.data_.tolist())
        if hasattr(x, "__dict__"):
            return type(x).__name__ + canon(vars(x), d + 1)
        return type(x).__name__
    inst = canon(vars(obj), 0)
    cls = {k: v for k, v in vars(type(obj)).items()
           if not k.startswith("__") and not callable(v) and not isinstance(v, (staticmethod, classmethod, property))}
    return inst + "|" + canon(cls, 0)


def _first_diff(a, b):
    j = next((k for k, (x, y) in enumerate(zip(a, b)) if x != y), min(len(a), len(b)))
    return f"before ...{a[max(0, j - 60):j + 60]}... after ...{b[max(0, j - 60):j + 60]}..."


def _same_result(a, b):
    if isinstance(a, str) or isinstance(b, str):
        return a == b
    if len(a) != len(b):
        return False
    for i, (x, y) in enumerate(zip(a, b)):
        if vclose(x, y, 1e-9):
            continue
        # an error estimate sqrt(v^2 - <v^2>) whose radicand is rounding noise
        if i % 2 == 1 and abs((x * x if math.isfinite(x) else 0.0) - (y * y if math.isfinite(y) else 0.0)) \
                <= 1e-9 * max(a[i - 1] ** 2 if math.isfinite(a[i - 1]) else 0.0, 1e-300) and not (math.isinf(x) or math.isinf(y)):
            continue
        return False
    return True


def gen_history(rng, scripted=None):
    """a call history.  scripted = estimator name: the fixed battery (every mutation kind once, then samples of
    strongly different size / flow in the same list object); otherwise a random walk over the same moves."""
    n = rng.randint(1, 4) if scripted is None else 2
    ests = [scripted] if scripted else [rng.choice(STATEFUL) for _ in range(rng.randint(1, 2))]
    ctors = {}
    for e in set(ests):
        if e == "ReactionPlaneFlow":
            ctors[e] = [[n]]
        else:
            ws_ = [rng.choice(["pT", "pT2", "pTn"]), rng.choice(WEIGHTS)]
            ctors[e] = [[n, ws_[0], 0.1 if scripted else rng.choice([0.0, 0.1])],
                        [n, ws_[1], 0.5 if scripted else rng.choice([0.0, 0.5])]]
    steps = []
    kinds = list(SAMPLE_KINDS)
    cur = {"kind": rng.choice(["small", "dilute-weak"]) if scripted is None else "dilute-weak"}
    content = gen_sample(rng, cur["kind"], n, weights=rng.random() < 0.5)
    steps.append(dict(op="build", slot="A", events=content, kind=cur["kind"]))
    state = {"A": [list(e) for e in content]}

    def call(toggle):
        e = rng.choice(ests)
        ctor = ctors[e][(toggle // 2) % len(ctors[e])] if scripted else rng.choice(ctors[e])
        method = ("integrated", "differential")[toggle % 2] if scripted else rng.choice(["integrated", "differential"])
        sel = rng.choice(DOCUMENTED)
        lo, hi = (0.0, 3.2) if sel == "pT" else (-2.2, 2.2)
        bins = [lo] + sorted(rng.uniform(lo, hi) for _ in range(rng.randint(0, 2))) + [hi]
        if rng.random() < 0.25:
            bins = [-1000.0, 1000.0]
        steps.append(dict(op="call", est=e, ctor=ctor, method=method, flow="A", ref="A",
                          self_corr=(toggle // 4) % 2 == 0 if scripted else rng.random() < 0.5, bins=bins, sel=sel,
                          form=[rng.randint(0, 6), rng.random() < 0.5], ctor_form=[rng.randint(0, 3), rng.random() < 0.5]))

    FAULTS = [dict(kind="arg", which="bins-not-list"), dict(kind="arg", which="sel-not-str"),
              dict(kind="arg", which="sel-invalid"), dict(kind="arg", which="self_corr-not-bool"),
              dict(kind="element", target="flow", event="first", particle="first", what="str"),
              dict(kind="element", target="flow", event="middle", particle="middle", what="none"),
              dict(kind="element", target="flow", event="last", particle="last", what="object"),
              dict(kind="element", target="ref", event="last", particle="middle", what="int"),
              dict(kind="element", target="ref", event="first", particle="last", what="object"),
              dict(kind="event-type", target="flow", event="middle"), dict(kind="event-type", target="ref", event="last"),
              dict(kind="warnings")]

    def bad(toggle, fi=None):
        """a call that is meant to fail: up front (invalid argument), at the first / a middle / the last element of
        the data (wrong type), or where the code warns (warnings as errors)"""
        call(toggle)
        st = steps[-1]
        f = dict(FAULTS[(toggle if fi is None else fi) % len(FAULTS)] if scripted else rng.choice(FAULTS))
        if f["kind"] == "arg":
            if st["est"] == "ReactionPlaneFlow" and f["which"] == "self_corr-not-bool":
                f["which"] = "sel-invalid"
            if f["which"] != "self_corr-not-bool":
                st["method"] = "differential"
        if f["kind"] == "element" and not scripted:
            f.update(event=rng.choice(["first", "middle", "last"]), particle=rng.choice(["first", "middle", "last"]),
                     what=rng.choice(["str", "none", "int", "object"]))
        st["op"], st["fault"] = "bad-call", f

    def mutate(kind):
        evs = state["A"]
        nev = len(evs)
        if kind == "reverse":
            steps.append(dict(op="reverse", slot="A"))
            evs.reverse()
        elif kind == "perm-events":
            perm = list(range(nev))
            rng.shuffle(perm)
            steps.append(dict(op="perm-events", slot="A", perm=perm))
            evs[:] = [evs[j] for j in perm]
        elif kind == "perm-particles":
            i = rng.randrange(nev)
            perm = list(range(len(evs[i])))
            rng.shuffle(perm)
            steps.append(dict(op="perm-particles", slot="A", event=i, perm=perm))
            evs[i] = [evs[i][j] for j in perm]
        elif kind == "rotate":
            steps.append(dict(op="rotate", slot="A", angles=[rng.uniform(-3, 3) for _ in range(nev)]))
        elif kind == "replace-event":
            i = rng.randrange(nev)
            newp = gen_ev(rng, 3, 12, "unset", split=True, mod=(n, 0.3))
            steps.append(dict(op="replace-event", slot="A", event=i, particles=newp, in_place=rng.random() < 0.5))
            evs[i] = list(newp)
        elif kind == "weights":
            i = rng.randrange(nev)
            steps.append(dict(op="weights", slot="A", event=i, weights=[rng.choice([0.5, 1.0, 2.0, 4.0]) for _ in evs[i]]))
        elif kind == "copy-sample":
            steps.append(dict(op="copy-sample", slot="A", how=rng.choice(list(COPIES))))
        elif kind == "copy-object":
            e = rng.choice(ests)
            steps.append(dict(op="copy-object", est=e, ctor=rng.choice(ctors[e]), how=rng.choice(list(COPIES))))
        elif kind in ("refill", "build"):
            k2 = rng.choice([k for k in kinds if k != cur["kind"]]) if scripted is None else \
                ("dense-strong" if cur["kind"] != "dense-strong" else "dilute-weak")
            cur["kind"] = k2
            content2 = gen_sample(rng, k2, n, weights=rng.random() < 0.3)
            steps.append(dict(op=kind, slot="A", events=content2, kind=k2))
            state["A"] = [list(e) for e in content2]
    if scripted:
        t = 0
        for j, m in enumerate(["reverse", "rotate", "perm-particles", "perm-events", "weights", "replace-event",
                               "copy-object", "copy-sample", "copy-object", "copy-sample", "copy-object",
                               "refill", "refill", "build", "refill", "refill", "reverse"]):
            # every fault kind with integrated and differential flow, on both long-lived objects in turn
            bad(t, j)
            bad(t + 1, j)
            call(t); t += 1
            call(t); t += 1
            mutate(m)
        bad(t, 11)
        call(t)
        call(t + 1)
        call(t + 2)
        call(t + 3)
    else:
        moves = ["reverse", "perm-events", "perm-particles", "rotate", "replace-event", "weights", "refill", "refill", "build",
                 "copy-object", "copy-sample"]
        for t in range(rng.randint(4, 9)):
            if rng.random() < 0.35:
                bad(t)
            call(t)
            if rng.random() < 0.5:
                call(t + 1)
            mutate(rng.choice(moves))
        if rng.random() < 0.5:
            bad(1)
        call(0)
    return steps


def shrink_history(steps, key):
    """drop steps, then events of the samples, while a failure with the same key remains"""
    def fails(h):
        try:
            r = run_history(h)
        except Exception:
            return None
        # a failure that survives without the failed call is a plain instance-reuse failure: let the shrink drop it
        return r if r and r[0].replace("-after-error-", "-") == key.replace("-after-error-", "-") else None
    r = fails(steps)
    if not r:
        return steps, r
    cur = steps[:r[2]["step"] + 1]
    changed = True
    while changed:
        changed = False
        for i in range(len(cur) - 2, -1, -1):
            cand = cur[:i] + cur[i + 1:]
            rr = fails(cand)
            if rr:
                cur = cand[:rr[2]["step"] + 1]
                r = rr
                changed = True
                break
    # smaller samples (only when nothing indexes into them any more)
    if not any(st["op"] in ("perm-events", "perm-particles", "replace-event", "weights") for st in cur):
        for i, st in enumerate(cur):
            if st["op"] in ("build", "refill"):
                while len(st["events"]) > 1:
                    cand = [dict(x) for x in cur]
                    cand[i]["events"] = st["events"][:len(st["events"]) // 2]
                    rr = fails(cand)
                    if not rr:
                        break
                    cur, r, st = cand, rr, cand[i]
    return cur, fails(cur) or r


def _flush_counts(ctx):
    for k, v in FORM_COUNT.items():
        ctx.count(("oracle/" if k.startswith(("one-shot", "qc-battery", "text")) else "call-form/") + k, v)
    FORM_COUNT.clear()


def search_histories(ctx, budget_s):
    import random
    t0 = time.time()
    found = set()
    nh = 0

    def one(steps, tag):
        nonlocal nh
        nh += 1
        ctx.count("oracle/history/" + tag)
        ctx.count("oracle/history/calls", sum(1 for x in steps if x["op"] in ("call", "bad-call")))
        for x in steps:
            if x["op"] == "bad-call":
                f = x["fault"]
                ctx.count("oracle/history/error-path/" + f["kind"] + ("/" + f.get("which", f.get("event", "")) if f["kind"] != "warnings" else ""))
            elif x["op"] != "call":
                ctx.count("oracle/history/move/" + x["op"] + ("/" + x["kind"] if "kind" in x else ""))
        ctx.case(("history", tag, nh, len(steps)), True)
        try:
            r = run_history(steps)
        except Exception as e:
            r = ("history-raises", f"executing a call history raised {type(e).__name__}: {e}", dict(step=len(steps) - 1))
        if r and r[0] not in found:
            found.add(r[0])
            if r[0] != "history-raises":
                steps, r2 = shrink_history(steps, r[0])
                r = r2 or r
            ctx.violation(r[0], r[1], dict(input=dict(steps=steps), expected=r[2].get("expected"),
                                           observed=r[2].get("observed"),
                                           how_to_replay="./check C12 --replay <this file>  (re-executes the call history in a new process)"))
    # the fixed battery does not depend on VERIF_SEED: every estimator sees every move once
    for e in STATEFUL:
        one(gen_history(random.Random("C12-battery-" + e), scripted=e), "battery/" + e)
    t0 = time.time()  # the random histories get their own slice after the fixed battery
    while time.time() - t0 < budget_s and len(found) < 4:
        one(gen_history(ctx.rng), "random")
    ctx.cov["oracle_histories"] = nh
    _flush_counts(ctx)
    for k, v in OUTCOMES.items():
        ctx.count("oracle/history/error-path-outcome/" + k, v)
    OUTCOMES.clear()


def search(ctx, budget_s):
    rng = ctx.rng
    t0 = time.time()
    n = 0
    for key, what, detail in oracle_tables():
        ctx.violation(key, what, dict(input=detail, how_to_replay="./check C12 --replay <this file>"))
    try:
        r = ep_degenerate_probe()
    except InputModified:
        r = None  # reported, with a replayable input, by the call histories / relations below
    if r:
        ctx.violation(r[0], r[1], dict(**r[2], how_to_replay="./check C12 --replay <this file>"))
    for c in corpus():
        res = check_all(c["case"], c["aux"], names=(c["estimator"],))
        n += 1
        if res:
            _report(ctx, c["case"], c["aux"], res)
    for key, what, detail in oracle_reuse_tables() + oracle_text():
        ctx.violation(key, what, dict(input=detail, how_to_replay="./check C12 --replay <this file>"))
    search_histories(ctx, 90 if ctx.thorough else 6)
    for case_, aux_, res_ in qc_battery():
        _report(ctx, case_, aux_, res_)
    t0 = time.time()
    found = set()
    limit = 4000 if ctx.thorough else 250
    session = 0
    while time.time() - t0 < budget_s and n < limit and len(found) < 5:
        # one session = three samples analysed with the same constructor arguments; every second session
        # re-uses ONE long-lived estimator object per class for all calls of the session
        session += 1
        pooled = session % 2 == 0
        params = dict(n=rng.randint(1, 4), weight=rng.choice(["pT", "pT2", "pTn"] * 3 + WEIGHTS),
                      gap=rng.choice([0.0, 0.0, 0.1, 0.5]))
        qc = rng.random() < 0.35
        kq = rng.choice([2, 4, 6])
        imq = rng.choice(QC_MODES)
        if pooled:
            pool_start()
        try:
            for _ in range(3):
                holes = rng.random() < 0.5
                case = gen_case(rng, regular=True, lo=3, hi=9, params=params, holes=holes)
                names = ["ReactionPlaneFlow", "ScalarProductFlow", "EventPlaneFlow"]
                if qc:
                    case["flow"] = [gen_ev(rng, 8, 12, "unset", mod=(case["n"], 0.3) if rng.random() < 0.5 else None, midrap=0.1)
                                    for _ in range(rng.randint(2, 5))]
                    case["ref"], case["same"], case["holes"] = case["flow"], True, []
                    if holes:
                        add_holes(rng, case)
                    names = ["QCumulantFlow"]
                aux = gen_aux(rng, case, qc=qc)
                if qc:
                    aux["k"], aux["imaginary"] = kq, imq
                    ctx.count(f"oracle/qc/k={kq}/{imq}/sign={qc_sign(case['flow'], case['n'], kq):+d}")
                n += 1
                ctx.case(("oracle", json.dumps(_case_json(case, "oracle"), sort_keys=True, default=str)), True)
                ctx.count("oracle/" + ("qc" if qc else "rp-sp-ep") + ("/reused-objects" if pooled else "/fresh-objects")
                          + ("/holes" if case["holes"] else ""))
                for h in case["holes"]:
                    ctx.count(f"oracle/hole/{h[0]}/{h[1]}")
                try:
                    res = check_all(case, aux, names=names)
                except Exception as e:
                    who = names[0]
                    for nm in names:  # which estimator raised?
                        try:
                            check_all(case, aux, names=(nm,))
                        except Exception:
                            who = nm
                            break
                    res = (who, "call", (f"{who}-raises", f"estimator raised {type(e).__name__}: {e}", dict()))
                if not res or res[2][0] in found:
                    continue
                history = list(POOL["history"])
                if pooled:
                    POOL["on"] = False  # does it fail with fresh objects as well?
                    try:
                        if res[1] != "call":
                            fresh = _check_relation(res[0], res[1], case, aux)
                        else:
                            fr = check_all(case, aux, names=names)
                            fresh = fr[2] if fr else None
                    except Exception:
                        fresh = res[2]
                    if not fresh:
                        key = f"instance-reuse-{res[0]}-{res[1]}"
                        if key not in found:
                            found.add(key)
                            ctx.violation(key, "with ONE estimator object re-used for the calls of the history: " + res[2][1]
                                          + " -- the same input passes with a fresh object",
                                          dict(input=dict(history=history, constructor=dict(params, k=kq if qc else None)),
                                               expected=res[2][2].get("expected"), observed=res[2][2].get("observed"),
                                               how_to_replay="./check C12 --replay <this file>"))
                        POOL["on"] = True
                        continue
                found.add(res[2][0])
                was = POOL["on"]
                POOL["on"] = False
                if res[1] != "call":
                    case, aux, res = shrink(case, aux, res)
                _report(ctx, case, aux, res)
                POOL["on"] = pooled and was
        finally:
            pool_stop()
    ctx.cov["oracle_cases"] = n
    _flush_counts(ctx)
    if SKIPS["n"]:
        ctx.count("skipped-no-private-access", SKIPS["n"])
        SKIPS["n"] = 0


def oracle_reuse_tables():
    """the documented selectors are accepted by an estimator object that has been used before
    (fresh object for comparison): a call that raises only on the re-used object is reported"""
    out = []
    data = _table_sample()
    for c in CLASSES:
        def call(obj, s):
            parts = mk(data)
            with np.errstate(all="ignore"):
                if c in ("EventPlaneFlow", "ScalarProductFlow"):
                    return api(obj, c, "differential_flow", [parts, [0.0, 1.0, 4.0], s, parts])
                return api(obj, c, "differential_flow", [parts, [0.0, 1.0, 4.0], s])
        try:
            obj = _new(c)
        except Exception:
            continue  # reported by oracle_tables
        hist = []
        for s in DOCUMENTED + ["pT"]:
            hist.append(s)
            try:
                call(_new(c), s)
            except Exception:
                break  # a fresh object fails too: reported by oracle_tables
            try:
                call(obj, s)
            except Exception as e:
                out.append((f"instance-reuse-{c}-differential_flow",
                            f"{c}: call number {len(hist)} of differential_flow on the same object (selectors {hist}) raises "
                            f"{type(e).__name__}: {str(e)[:100]}; a fresh object accepts the same call",
                            dict(cls=c, history=[dict(method="differential_flow", selector=x, bins=[0.0, 1.0, 4.0]) for x in hist],
                                 events=data)))
                break
    return out


def _report(ctx, case, aux, res):
    name, rel, (key, what, detail) = res
    ctx.violation(key, what, dict(input=dict(estimator=name, relation=rel, case=_case_json(case, "oracle"), aux=aux),
                                  expected=detail.get("expected"), observed=detail.get("observed"),
                                  how_to_replay="./check C12 --replay <this file>"))


def shrink(case, aux, res):
    """drop events, then particles, while the same key still fails"""
    name, rel, (key, _, _) = res

    def still(c, a):
        try:
            r = _check_relation(name, rel, c, a)
        except InputModified as e:
            r = (e.key, e.what, dict())
        except Exception:
            return None
        return r if r and r[0] == key else None

    def drop_event(c, a, i):
        c2 = dict(c)
        c2["flow"] = c["flow"][:i] + c["flow"][i + 1:]
        c2["ref"] = c2["flow"] if c["same"] else c["ref"][:i] + c["ref"][i + 1:]
        a2 = dict(a)
        for k in ("angles", "pf", "pr"):
            a2[k] = a[k][:i] + a[k][i + 1:]
        a2["pe"] = [j - (1 if j > i else 0) for j in a["pe"] if j != i]
        return c2, a2

    def drop_particle(c, a, i, j, which):
        c2 = dict(c)
        a2 = dict(a)
        if which == "flow" or c["same"]:
            c2["flow"] = [list(e) for e in c["flow"]]
            del c2["flow"][i][j]
            a2["pf"] = [list(p) for p in a["pf"]]
            a2["pf"][i] = [x - (1 if x > j else 0) for x in a["pf"][i] if x != j]
            if c["same"]:
                c2["ref"] = c2["flow"]
                a2["pr"] = a2["pf"]
        else:
            c2["ref"] = [list(e) for e in c["ref"]]
            del c2["ref"][i][j]
            a2["pr"] = [list(p) for p in a["pr"]]
            a2["pr"][i] = [x - (1 if x > j else 0) for x in a["pr"][i] if x != j]
        return c2, a2
    cur = (case, aux, res[2])
    changed = True
    rounds = 0
    while changed and rounds < 40:
        changed = False
        rounds += 1
        c, a, _ = cur
        for i in range(len(c["flow"])):
            if len(c["flow"]) > 1:
                c2, a2 = drop_event(c, a, i)
                r = still(c2, a2)
                if r:
                    cur = (c2, a2, r)
                    changed = True
                    break
        if changed:
            continue
        for which in ("flow", "ref"):
            if which == "ref" and c["same"]:
                continue
            for i in range(len(c[which])):
                for j in range(len(c[which][i])):
                    c2, a2 = drop_particle(c, a, i, j, which)
                    r = still(c2, a2)
                    if r:
                        cur = (c2, a2, r)
                        changed = True
                        break
                if changed:
                    break
            if changed:
                break
    return cur[0], cur[1], (name, rel, cur[2])


def corpus():
    p = common.VERIF / "harness/corpus/C12"
    out = []
    if p.exists():
        for f in sorted(p.glob("*.json")):
            d = json.loads(f.read_text())
            d["case"]["flow"] = [[tuple(t) for t in ev] for ev in d["case"]["flow"]]
            d["case"]["ref"] = d["case"]["flow"] if d["case"]["same"] else [[tuple(t) for t in ev] for ev in d["case"]["ref"]]
            out.append(d)
    return out


def replay(ctx, path):
    d = json.loads(open(path).read())
    inp = d.get("input")
    if not inp:
        print(f"[C12] replay file names a broken obligation, not an input: {d.get('broken')}")
        return 1
    if "steps" in inp:
        r = run_history(inp["steps"])
    elif "history" in inp and d.get("key", "").startswith("instance-reuse-") and "constructor" in inp:
        pool_start()
        r = None
        try:
            for h in inp["history"]:
                c = h["case"]
                c["flow"] = [[tuple(t) for t in ev] for ev in c["flow"]]
                c["ref"] = c["flow"] if c["same"] else [[tuple(t) for t in ev] for ev in c["ref"]]
                try:
                    r = _check_relation(h["estimator"], h["relation"], c, h["aux"])
                except InputModified as e:
                    r = (e.key, e.what, dict())
                    break
        finally:
            pool_stop()
        if r:
            r = (d["key"], "re-used estimator object: " + r[1])
    elif d.get("key", "").startswith("text-"):
        rs = [x for x in oracle_text() if x[0] == d.get("key")]
        r = rs[0] if rs else None
    elif d.get("key", "").startswith("instance-reuse-"):
        rs = [x for x in oracle_reuse_tables() if x[0] == d.get("key")]
        r = rs[0] if rs else None
    elif "estimator" in inp:
        case = inp["case"]
        case["flow"] = [[tuple(t) for t in ev] for ev in case["flow"]]
        case["ref"] = case["flow"] if case["same"] else [[tuple(t) for t in ev] for ev in case["ref"]]
        try:
            if inp["relation"] == "call":
                rr = check_all(case, inp["aux"], names=(inp["estimator"],))
                r = rr[2] if rr else None
            else:
                r = check_relation(inp["estimator"], inp["relation"], case, inp["aux"])
        except Exception as e:
            r = (d.get("key"), f"estimator raised {type(e).__name__}: {e}")
    elif d.get("key") == KEY_EP_DEGENERATE:
        r = ep_degenerate_probe()
    else:
        rs = [x for x in oracle_tables() if x[0] == d.get("key")]
        r = rs[0] if rs else None
    if r:
        print(f"VIOLATION property=C12 replay={path}")
        print(r[1])
        return 1
    print("[C12] replay: property holds on this input now")
    return 0
