"""C20 — the jet output file contains exactly this call's jets with correct constituents.

Tie C only (no translator): the executable Lean model `Core/Jets.lean` (driver `drivers/C20.lean`) is run on
the same inputs as the real `JetAnalysis`; fastjet is a parameter of the model, so the harness calls fastjet
itself (same algorithm / radius, `inclusive_jets(0)`) and hands the model every clustered jet together with
the `delta_r` to every particle, computed by the formula the code uses.  The contract "what the code gets
from `inclusive_jets(ptmin)` + `SelectorEtaRange` = those of the supplied jets with `ptmin <= pt` and eta
inside the closed window" is checked on every case.

`search` checks the PROPERTY on the real code against an independent reference (own parameter
normalisation, own Delta R from eta/phi, `math.fsum` hole sums, own eta/phi of the subtracted jet), with a
tolerance and an explicit "ambiguous" zone around the two thresholds (Delta R ~ R, pT' ~ upper bound).
"""
import contextlib
import csv
import io
import json
import math
import os
import tempfile
import time
import warnings

import common
from common import f2h, h2f

warnings.filterwarnings("ignore")

INF = float("inf")
ALG_NAMES = ["antikt", "kt", "cambridge", "genkt"]
_TMP = None
_FJ_READY = False


# ------------------------------------------------------------------ plumbing around fastjet / sparkx
def _fj():
    """import fastjet and swallow its banner (written by C++ to fd 1 on first clustering)."""
    global _FJ_READY
    import fastjet as fj
    if not _FJ_READY:
        import sys
        sys.stdout.flush()
        saved = os.dup(1)
        devnull = os.open(os.devnull, os.O_WRONLY)
        try:
            os.dup2(devnull, 1)
            fj.ClusterSequence([fj.PseudoJet(1.0, 0.0, 0.0, 1.0)], fj.JetDefinition(fj.antikt_algorithm, 0.4)).inclusive_jets(0.0)
        finally:
            os.dup2(saved, 1)
            os.close(saved)
            os.close(devnull)
        _FJ_READY = True
    return fj


def _alg(name):
    fj = _fj()
    return {"antikt": fj.antikt_algorithm, "kt": fj.kt_algorithm, "cambridge": fj.cambridge_algorithm,
            "genkt": fj.genkt_algorithm}[name]


def _jetdef(name, R):
    fj = _fj()
    if name == "genkt":
        return fj.JetDefinition(fj.genkt_algorithm, R, -1.0)
    return fj.JetDefinition(_alg(name), R)


def _tmpdir():
    global _TMP
    if _TMP is None:
        _TMP = tempfile.mkdtemp(prefix="verif_C20_")
    return _TMP


def mk_particle(d):
    from sparkx.Particle import Particle
    p = Particle()
    p.px, p.py, p.pz, p.E = d["px"], d["py"], d["pz"], d["E"]
    if d.get("status") is not None:
        p.status = d["status"]
    if d.get("charge") is not None:
        p.charge = d["charge"]
    p.pdg = d["pdg"]
    return p


def mk_events(inp):
    return [[mk_particle(d) for d in ev] for ev in inp["events"]]


def real_run(inp):
    """Run the real perform_jet_finding.  Returns (outcome, rows, path): outcome 'ok'|'err value'|'err other:<T>',
    rows = csv rows (lists of str) of the output file afterwards or None when the file does not exist."""
    from sparkx.JetAnalysis import JetAnalysis
    path = os.path.join(_tmpdir(), "out.csv")
    if os.path.exists(path):
        os.remove(path)
    if inp["prior"] is not None:
        with open(path, "w", newline="") as f:
            f.write(inp["prior"])
    ja = JetAnalysis()
    outcome = "ok"
    try:
        with contextlib.redirect_stdout(io.StringIO()):
            ja.perform_jet_finding(mk_events(inp), inp["R"], tuple(inp["eta"]), tuple(inp["pt"]), path,
                                   assoc_only_charged=inp["only_charged"], jet_algorithm=_alg(inp["alg"]))
    except ValueError:
        outcome = "err value"
    except Exception as e:  # noqa: BLE001
        outcome = "err other:" + type(e).__name__
    return outcome, read_rows(path), path


def read_rows(path):
    if not os.path.exists(path):
        return None
    with open(path, "r", newline="") as f:
        return [row for row in csv.reader(f)]


def prior_rows(inp):
    if inp["prior"] is None:
        return None
    return [row for row in csv.reader(io.StringIO(inp["prior"], newline=""))]


# ------------------------------------------------------------------ what fastjet delivers (parameter of the model)
def cluster_all(ev, alg, R):
    """every inclusive jet of the event (fastjet's pT order) with delta_r to every particle, as the code computes it"""
    import numpy as np
    fj = _fj()
    pjs = [fj.PseudoJet(d["px"], d["py"], d["pz"], d["E"]) for d in ev]
    cs = fj.ClusterSequence(pjs, _jetdef(alg, R))
    jets = fj.sorted_by_pt(cs.inclusive_jets(0.0))
    out = []
    for jet in jets:
        drs = []
        for pj in pjs:
            delta_eta = pj.eta() - jet.eta()
            delta_phi = pj.delta_phi_to(jet)
            drs.append(float(np.sqrt(delta_eta ** 2.0 + delta_phi ** 2.0)))
        out.append(dict(pt=jet.perp(), eta=jet.eta(), px=jet.px(), py=jet.py(), pz=jet.pz(), E=jet.e(), dr=drs))
    return out


def contract_ok(ev, alg, R, norm, jets):
    """fastjet's own `inclusive_jets(ptmin)` + `SelectorEtaRange` = filter of the supplied jets"""
    fj = _fj()
    (elo, ehi), (plo, phi_) = norm
    pjs = [fj.PseudoJet(d["px"], d["py"], d["pz"], d["E"]) for d in ev]
    cs = fj.ClusterSequence(pjs, _jetdef(alg, R))
    got = fj.SelectorEtaRange(elo, ehi)(fj.sorted_by_pt(cs.inclusive_jets(plo)))
    mine = [j for j in jets if plo <= j["pt"] and elo <= j["eta"] <= ehi]
    return [(j.px(), j.py(), j.pz(), j.e()) for j in got] == [(j["px"], j["py"], j["pz"], j["E"]) for j in mine]


def py_normalise(eta, pt):
    """independent reading of the documentation: None = unbounded (0 for the lower pT), limits in either order"""
    e = [-INF if eta[0] is None else eta[0], INF if eta[1] is None else eta[1]]
    p = [0.0 if pt[0] is None else pt[0], INF if pt[1] is None else pt[1]]
    return (min(e), max(e)), (min(p), max(p))


# ------------------------------------------------------------------ generators
PDGS = {0: [111, 22, 2112, 130], 1: [211, 321, 2212], -1: [-211, -321, -2212]}


def _particle(rng, pt, eta, phi, status, charge):
    m = rng.choice([0.0, 0.13957, 0.938])
    px, py, pz = pt * math.cos(phi), pt * math.sin(phi), pt * math.sinh(eta)
    E = math.sqrt(px * px + py * py + pz * pz + m * m)
    pdg = rng.choice(PDGS[0 if not charge else (1 if charge > 0 else -1)])
    return dict(px=px, py=py, pz=pz, E=E, status=status, charge=charge, pdg=pdg)


def gen_event(rng, kind):
    """kind: empty | soft (no jet passes a usual lower bound) | outside (hard jet at large |eta|) | jets"""
    if kind == "empty":
        return []
    ev = []
    cores = []
    if kind == "jets":
        cores = [(rng.uniform(8, 60), rng.uniform(-2.2, 2.2), rng.uniform(0, 2 * math.pi)) for _ in range(rng.randint(1, 3))]
    elif kind == "outside":
        cores = [(rng.uniform(8, 40), rng.choice([-1, 1]) * rng.uniform(3.0, 4.0), rng.uniform(0, 2 * math.pi))]
    for (cpt, ceta, cphi) in cores:
        nfrag = rng.randint(1, 5)
        w = [rng.uniform(0.2, 1.0) for _ in range(nfrag)]
        for k in range(nfrag):
            rad = rng.uniform(0, 0.25) if k == 0 else rng.uniform(0, 0.9)
            ang = rng.uniform(0, 2 * math.pi)
            ev.append(_particle(rng, cpt * w[k] / sum(w), ceta + rad * math.cos(ang), cphi + rad * math.sin(ang),
                                rng.choice([0, 1, 11, 27]), rng.choice([0, 0, 1, -1, 1])))
        for _ in range(rng.choice([0, 0, 1, 2, 3])):  # holes near the core, charged and neutral
            rad, ang = rng.uniform(0, 0.8), rng.uniform(0, 2 * math.pi)
            ev.append(_particle(rng, rng.uniform(0.3, 4.0), ceta + rad * math.cos(ang), cphi + rad * math.sin(ang),
                                rng.choice([-1, -1, -11]), rng.choice([0, 0, 1, -1])))
    for _ in range(rng.randint(0 if cores else 1, 6)):
        ev.append(_particle(rng, rng.uniform(0.1, 1.5), rng.uniform(-3, 3), rng.uniform(0, 2 * math.pi),
                            rng.choice([0, 1, 27, -1]), rng.choice([0, 1, -1])))
    rng.shuffle(ev)
    if rng.random() < 0.04 and ev:
        ev[rng.randrange(len(ev))]["charge"] = None  # unset charge: `nan == 0` is False, counts as charged
    return ev[:40]


def gen_prior(rng, allow_call=True):
    r = rng.random()
    if r < 0.2:
        return None, "absent"
    if r < 0.35:
        return "", "empty"
    rows = []
    for _ in range(rng.randint(1, 3)):
        ev = rng.randint(0, 9)
        rows.append([0, rng.uniform(5, 50), rng.uniform(-2, 2), rng.uniform(0, 6), 10, 10, rng.uniform(5, 90), ev])
        for i in range(1, rng.randint(1, 3)):
            rows.append([i, rng.uniform(0.2, 9), rng.uniform(-2, 2), rng.uniform(0, 6), rng.choice([0, 27, 11]),
                         rng.choice([211, -211, 111]), rng.uniform(1, 20), ev])
    s = io.StringIO(newline="")
    csv.writer(s).writerows(rows)
    return s.getvalue(), "rows"


def code_like_subtracted_pt(ev, j, R, holes_charged_only=False):
    """pT of jet j after subtracting the holes the way the code accumulates them (only used to place boundary cuts)"""
    fj = _fj()
    E = px = py = pz = 0.0
    for d, dr in zip(ev, j["dr"]):
        if d["status"] is not None and d["status"] < 0 and dr < R:
            E += d["E"]; px += d["px"]; py += d["py"]; pz += d["pz"]
    return fj.PseudoJet(j["px"] - px, j["py"] - py, j["pz"] - pz, j["E"] - E).perp()


def gen_input(rng, ctx=None):
    nev = rng.choice([0, 1, 1, 2, 2, 3, 3, 4, 5])
    jetless = ["empty", "soft", "outside"]
    kinds = []
    for i in range(nev):
        if i == 0:
            kinds.append(rng.choice(jetless) if rng.random() < 0.45 else "jets")
        else:
            kinds.append(rng.choice(jetless) if rng.random() < 0.35 else "jets")
    if nev and rng.random() < 0.12:
        kinds = [rng.choice(jetless) for _ in kinds]  # a call that finds nothing
    events = [gen_event(rng, k) for k in kinds]
    R = rng.choice([0.2, 0.4, 0.4, 0.7, 1.0, rng.uniform(0.15, 1.2)])
    alg = rng.choice(["antikt", "antikt", "antikt", "kt", "cambridge", "genkt"])
    only_charged = rng.random() < 0.6
    eta = list(rng.choice([(-2.0, 2.0), (-2.0, 2.0), (None, 1.0), (-1.0, None), (None, None), (2.0, -2.0), (0.0, 1.5),
                           (2.5, None), (None, -2.5)]))
    pt = list(rng.choice([(10.0, None), (10.0, None), (None, None), (5.0, 30.0), (30.0, 5.0), (None, 25.0), (8.0, 8.0),
                          (3.0, None), (None, 6.0), (20.0, 12.0)]))
    tags = []
    if rng.random() < 0.15:
        # radius bit-equal to the delta_r of some (selected jet, relevant particle) pair: re-cluster with R := that
        # delta_r and keep it when the pair survives the re-clustering (`delta_r < R` must then be false for it)
        (elo, ehi), (plo, _) = py_normalise(eta, pt)

        def pairs(radius):
            return [dr for ev in events for j in cluster_all(ev, alg, radius)
                    if plo <= j["pt"] and elo <= j["eta"] <= ehi
                    for d, dr in zip(ev, j["dr"])
                    if 0.15 < dr < 1.2 and (d["status"] < 0 or not only_charged or d["charge"] != 0)]
        cand = pairs(R)
        for R2 in rng.sample(cand, min(6, len(cand))):
            if R2 in pairs(R2):
                R = R2
                tags.append("boundary:dr==R")
                break
    all_jets = [(i, j) for i, ev in enumerate(events) for j in cluster_all(ev, alg, R) if j["pt"] > 3.0]
    if all_jets and not tags and rng.random() < 0.35:
        i, j = rng.choice(all_jets)
        what = rng.choice(["eta-lo", "eta-hi", "pt-hi", "pt-hi", "pt-lo"])
        if what == "eta-lo":
            eta = [j["eta"], None if rng.random() < 0.5 else j["eta"] + 1.0]
        elif what == "eta-hi":
            eta = [None if rng.random() < 0.5 else j["eta"] - 1.0, j["eta"]]
        elif what == "pt-hi":
            pt = [pt[0] if (pt[0] is None or pt[0] < j["pt"]) else None, code_like_subtracted_pt(events[i], j, R)]
            if rng.random() < 0.3:
                pt.reverse()
        else:
            pt = [j["pt"], None]
        tags.append("boundary:" + what)
    prior, ptag = gen_prior(rng)
    return dict(events=events, R=R, alg=alg, eta=eta, pt=pt, only_charged=only_charged, prior=prior), \
        dict(kinds=kinds, prior=ptag, tags=tags)


# ------------------------------------------------------------------ model side
def _opt(x):
    return "-" if x is None else f2h(x)


def enc_events(inp, clusters):
    evs = []
    for ev, jets in zip(inp["events"], clusters):
        ps = ";".join("%s,%s,%s,%s,%s,%s" % ("nan" if d["status"] is None else d["status"],
                                              "t" if d["_charged"] else "f",
                                              f2h(d["px"]), f2h(d["py"]), f2h(d["pz"]), f2h(d["E"])) for d in ev) or "."
        js = ";".join(",".join([f2h(j["pt"]), f2h(j["eta"]), f2h(j["px"]), f2h(j["py"]), f2h(j["pz"]), f2h(j["E"]),
                                ":".join(f2h(x) for x in j["dr"]) or "."]) for j in jets) or "."
        evs.append(ps + "|" + js)
    return "/".join(evs) or "."


def enc_prior(inp):
    pr = prior_rows(inp)
    if pr is None:
        return "none"
    return ";".join("%d:%d" % (int(r[0]), k) for k, r in enumerate(pr)) or "."


def annotate_charged(inp):
    """`charged` as the code evaluates it: `not (hadron.charge == 0)` on the real Particle"""
    for ev in inp["events"]:
        for d in ev:
            d["_charged"] = not (mk_particle(d).charge == 0)


def run_line(inp, clusters, variant="repaired"):
    return "\t".join(["run", variant, f2h(inp["R"]), _opt(inp["eta"][0]), _opt(inp["eta"][1]), _opt(inp["pt"][0]),
                      _opt(inp["pt"][1]), "t" if inp["only_charged"] else "f", enc_prior(inp), enc_events(inp, clusters)])


def parse_rows(s):
    if s == "none":
        return None
    if s == ".":
        return []
    out = []
    for t in s.split(";"):
        f = t.split(",")
        if f[0] == "J":
            out.append(("J", int(f[1]), h2f(f[2]), h2f(f[3]), h2f(f[4]), h2f(f[5])))
        elif f[0] == "P":
            out.append(("P", int(f[1]), int(f[2]), int(f[3])))
        else:
            out.append(("O", int(f[1]), int(f[2])))
    return out


def _feq(s, x):
    """text field of the real file == float x (exactly; the writer prints shortest round-trip digits)"""
    try:
        v = float(s)
    except ValueError:
        return False
    return v == x or (v != v and x != x)


def _ieq(s, n):
    try:
        return int(s) == n
    except ValueError:
        return s == str(n)


def rows_match(real, rows, inp):
    """real csv rows (str) against abstract rows of the model / Lean spec.  Returns None or a description."""
    fj = _fj()
    if real is None or rows is None:
        return None if (real is None and rows is None) else f"file exists: real {real is not None}, model {rows is not None}"
    if len(real) != len(rows):
        return f"{len(real)} rows in the real file, {len(rows)} in the model's"
    pr = prior_rows(inp) or []
    for k, (r, m) in enumerate(zip(real, rows)):
        if m[0] == "O":
            if r != pr[m[2]]:
                return f"row {k}: real {r} is not prior row {m[2]}"
            continue
        if len(r) != 8:
            return f"row {k}: {len(r)} columns"
        if m[0] == "J":
            pj = fj.PseudoJet(m[2], m[3], m[4], m[5])
            exp_i = [0, 10, 10, m[1]]
            exp_f = [pj.perp(), pj.eta(), pj.phi(), pj.e()]
        else:
            d = inp["events"][m[3]][m[2]]
            pj = fj.PseudoJet(d["px"], d["py"], d["pz"], d["E"])
            exp_i = [m[1], d["status"], d["pdg"], m[3]]
            exp_f = [pj.perp(), pj.eta(), pj.phi(), d["E"]]
        if not (_ieq(r[0], exp_i[0]) and _ieq(r[4], exp_i[1]) and _ieq(r[5], exp_i[2]) and _ieq(r[7], exp_i[3])
                and _feq(r[1], exp_f[0]) and _feq(r[2], exp_f[1]) and _feq(r[3], exp_f[2]) and _feq(r[6], exp_f[3])):
            return f"row {k}: real {r} vs model {m} -> ints {exp_i} floats {exp_f}"
    return None


def strip(inp):
    return dict(events=[[{k: v for k, v in d.items() if not k.startswith("_")} for d in ev] for ev in inp["events"]],
                **{k: v for k, v in inp.items() if k != "events"})


def canon(inp):
    return json.dumps(strip(inp), sort_keys=True)


# ------------------------------------------------------------------ correspondence (tie C)
MAX_BRK = 5
MODELLED = ["__initialize_and_check_parameters", "fill_associated_particles", "jet_hole_subtraction", "write_jet_output",
            "perform_jet_finding", "read_jet_data", "get_jets", "get_associated_particles"]


def source_regions():
    import ast
    src = common.read_src("JetAnalysis.py")
    out = []
    for node in ast.walk(ast.parse(src)):
        if isinstance(node, ast.FunctionDef) and node.name in MODELLED:
            out.append(dict(region=f"JetAnalysis.{node.name}", lines=[node.lineno, node.end_lineno],
                            hash=common.region_hash(ast.get_source_segment(src, node))))
    return out


def _sample(ctx, kind, d):
    """at most one norm and one read sample, so that whole-call samples get into the evidence too"""
    seen = ctx.__dict__.setdefault("_c20_sampled", set())
    if kind in ("norm", "read"):
        if kind in seen:
            return None
        seen.add(kind)
    return d


def _brk(ctx, what, case):
    """record a model/code disagreement; only the first few are kept verbatim, all are counted"""
    ctx.count("correspondence-disagreements")
    if sum(1 for b in ctx.broken if b["kind"] == "correspondence-broken") < MAX_BRK:
        ctx.brk("correspondence-broken", what, case=case)


def correspond(ctx):
    rng = ctx.rng
    ctx.rule = ("random samples of 0-5 events (kinds empty/soft/outside/jets in any position, <=40 particles, statuses "
                "<0 and >=0, charged/neutral/unset charge), R, algorithm, eta/pT windows with None, swapped and "
                "bit-equal-to-a-jet limits, charged-only on/off, output file absent/empty/pre-filled; non-trivial = "
                "at least one jet row written AND (pre-filled file or jet-less first event or a hole subtracted or a jet "
                "omitted by the upper cut); plus parameter-normalisation and reader cases; distinct by canonical input")
    ctx.cov["source_sha"] = common.region_hash(common.read_src("JetAnalysis.py"))
    ctx.cov["source_regions"] = source_regions()  # information only: the tie is the correspondence, not these hashes
    ctx.assumptions.append("fastjet (clustering, inclusive_jets(ptmin) as filter pt>=ptmin, SelectorEtaRange closed window, "
                           "eta/phi/perp/delta_phi_to) is a parameter of the model; its values are taken from the real "
                           "library per case and the filter contract is checked per case")
    ctx.assumptions.append("csv writer/reader and float(str(x)) == x round trip; NaN status raises ValueError (modelled), "
                           "NaN pdg / explicit inf or NaN cut values are outside the generated inputs")
    lines, meta = [], []
    # --- parameter normalisation
    vals = [None, 0.0, 0.5, 1.0, 2.0, -1.0, -2.5, 10.0, 30.0]
    for _ in range(ctx.n(40, 400)):
        R = rng.choice([0.4, 1.0, 0.0, -0.3, rng.uniform(0.05, 2.0)])
        eta = (rng.choice(vals), rng.choice(vals))
        pt = (rng.choice(vals), rng.choice(vals))
        lines.append("\t".join(["norm", f2h(R), _opt(eta[0]), _opt(eta[1]), _opt(pt[0]), _opt(pt[1])]))
        meta.append(("norm", (R, eta, pt)))
    # --- reader
    for _ in range(ctx.n(40, 400)):
        n = rng.randint(0, 12)
        mode = rng.choice(["wf", "wf", "any"])
        idxs, i = [], 0
        for k in range(n):
            if mode == "any":
                idxs.append(rng.choice([0, 0, 1, 2, 3, 7]))
            else:
                i = 0 if (k == 0 or rng.random() < 0.4) else i + 1
                idxs.append(i)
        lines.append("read\t" + (";".join(map(str, idxs)) or "."))
        meta.append(("read", idxs))
    # --- whole calls
    nrun = ctx.n(120, 2500)
    for k in range(nrun):
        inp, info = gen_input(rng)
        if k % 25 == 7 and inp["events"] and inp["events"][-1]:
            inp["events"][-1][0]["status"] = None  # unset status: raises once a jet of that event is looked at
            info["tags"].append("nan-status")
        annotate_charged(inp)
        clusters = [cluster_all(ev, inp["alg"], inp["R"]) for ev in inp["events"]]
        norm = py_normalise(inp["eta"], inp["pt"])
        if not all(contract_ok(ev, inp["alg"], inp["R"], norm, js) for ev, js in zip(inp["events"], clusters)):
            ctx.count("fastjet-filter-contract-miss (case skipped)")
            continue
        lines.append(run_line(inp, clusters))
        meta.append(("run", (inp, info, clusters)))
    outs = common.run_driver("C20", lines)
    bad_runs = []
    for (kind, data), out in zip(meta, outs):
        if kind == "norm":
            _corr_norm(ctx, data, out)
        elif kind == "read":
            _corr_read(ctx, data, out)
        else:
            before = ctx.hist.get("correspondence-disagreements", 0)
            _corr_run(ctx, data, out)
            if ctx.hist.get("correspondence-disagreements", 0) > before:
                bad_runs.append(data)
    if bad_runs:
        _diagnose(ctx, bad_runs[:25])


def _diagnose(ctx, bad_runs):
    """which text of the code do the disagreeing cases match? (diagnostic note only)"""
    names = {"asfound": "the text as found (no truncation before the loop, holes looked up with assoc_only_charged)",
             "ft": "no truncation before the loop, holes looked up with only_charged=False (only repair 2 applied)",
             "tt": "file emptied before the loop, holes looked up with assoc_only_charged (only repair 1 applied)"}
    for v, descr in names.items():
        outs = common.run_driver("C20", [run_line(inp, cl, v) for inp, _, cl in bad_runs])
        ok = True
        for (inp, _, _), out in zip(bad_runs, outs):
            outcome, real, _p = real_run(inp)
            if out.startswith("ok "):
                ok = ok and outcome == "ok" and rows_match(real, parse_rows(out.split()[1]), inp) is None
            else:
                ok = ok and outcome == out
        if ok:
            ctx.notes.append(f"all {len(bad_runs)} re-examined disagreeing cases agree with the model variant '{v}': {descr}")
            ctx.cov["code_matches_variant"] = v
            return
    ctx.notes.append("the disagreeing cases match none of the modelled texts (repaired / as found / one repair only)")


def _ext(s):
    return -INF if s == "-inf" else INF if s == "+inf" else h2f(s)


def _corr_norm(ctx, data, out):
    from sparkx.JetAnalysis import JetAnalysis
    R, eta, pt = data
    ja = JetAnalysis()
    try:
        ja._JetAnalysis__initialize_and_check_parameters([], R, eta, pt)
        real = "ok %r %r %r" % (ja.jet_R_, tuple(map(float, ja.jet_eta_range_)), tuple(map(float, ja.jet_pT_range_)))
    except ValueError:
        real = "err value"
    if out.startswith("ok "):
        f = out.split()
        mod = "ok %r %r %r" % (h2f(f[1]), (_ext(f[2]), _ext(f[3])), (_ext(f[4]), _ext(f[5])))
    else:
        mod = out
    swapped = (eta[0] is not None and eta[1] is not None and eta[0] > eta[1]) or \
              (pt[0] is not None and pt[1] is not None and pt[0] > pt[1])
    ctx.case(("norm", R, eta, pt), swapped or None in eta or None in pt,
             sample=_sample(ctx, "norm", dict(op="norm", R=R, eta=eta, pt=pt, code=real, model=mod)))
    ctx.count("norm/" + ("err" if real.startswith("err") else "swapped" if swapped else "plain"))
    if real != mod:
        _brk(ctx, f"parameter normalisation R={R} eta={eta} pt={pt}: code {real} vs model {mod}",
             dict(op="norm", R=R, eta=eta, pt=pt))


def _corr_read(ctx, idxs, out):
    from sparkx.JetAnalysis import JetAnalysis
    path = os.path.join(_tmpdir(), "read.csv")
    rows = [[i, 1.0 + k, 0.5, 0.25, 10 if i == 0 else 27, 10 if i == 0 else 211, 2.0 + k, 3] for k, i in enumerate(idxs)]
    with open(path, "w", newline="") as f:
        csv.writer(f).writerows(rows)
    ja = JetAnalysis()
    ja.read_jet_data(path)
    real_groups = ja.jet_data_
    real = "ok " + (";".join(str(len(g)) for g in real_groups) or ".")
    flat = [r for g in real_groups for r in g]
    ctx.case(("read", tuple(idxs)), len(real_groups) >= 2,
             sample=_sample(ctx, "read", dict(op="read", first_column=idxs, code=real, model=out)))
    ctx.count("read/groups=%d" % min(len(real_groups), 4))
    if real != out or flat != rows:
        _brk(ctx, f"read_jet_data on first column {idxs}: code {real} vs model {out}", dict(op="read", first_column=idxs))


def classify(inp, info, clusters, model_rows):
    pr = prior_rows(inp)
    written = [r for r in (model_rows or []) if r[0] == "J"]
    t = []
    t.append("prior=" + info["prior"])
    t.append("events=%d" % len(inp["events"]))
    norm = py_normalise(inp["eta"], inp["pt"])
    sel = [[j for j in js if norm[1][0] <= j["pt"] and norm[0][0] <= j["eta"] <= norm[0][1]] for js in clusters]
    nsel = sum(len(s) for s in sel)
    if sel and not sel[0] and nsel:
        t.append("first-event-jetless")
    if not nsel:
        t.append("no-selected-jets")
    if nsel > len(written):
        t.append("upper-cut-omits")
    holes = neutral_holes = False
    for ev, s in zip(inp["events"], sel):
        for j in s:
            for d, dr in zip(ev, j["dr"]):
                if d["status"] is not None and d["status"] < 0 and dr < inp["R"]:
                    holes = True
                    if not d["_charged"]:
                        neutral_holes = True
    if holes:
        t.append("holes")
    if neutral_holes and inp["only_charged"]:
        t.append("neutral-hole+charged-only")
    t.extend(info["tags"])
    nontrivial = bool(written) and (bool(pr) or "first-event-jetless" in t or holes or "upper-cut-omits" in t)
    return t, nontrivial


def _corr_run(ctx, data, out):
    inp, info, clusters = data
    outcome, real, _ = real_run(inp)
    if out.startswith("ok "):
        f = out.split()
        model_rows, spec_rows = parse_rows(f[1]), parse_rows(f[2])
    else:
        model_rows = spec_rows = None
    tags, nontrivial = classify(inp, info, clusters, model_rows)
    for t in tags:
        ctx.count("run/" + t)
    ctx.count("run/alg=" + inp["alg"])
    ctx.count("run/outcome=" + outcome)
    small = len(json.dumps(strip(inp))) < 2500
    ctx.case(canon(inp), nontrivial and outcome == "ok",
             sample=dict(op="run", input=strip(inp), tags=tags, code_rows=real, model=out) if (small and nontrivial) else None)
    if outcome != "ok" or not out.startswith("ok "):
        if not (outcome == out):
            _brk(ctx, f"outcome: code '{outcome}' vs model '{out[:60]}' (tags {tags})", dict(op="run", input=strip(inp)))
        return
    d = rows_match(real, model_rows, inp)
    if d:
        _brk(ctx, f"output file, code vs model ({tags}): {d}", dict(op="run", input=strip(inp)))
        return
    d = rows_match(real, spec_rows, inp)
    if d:
        _brk(ctx, f"output file, code vs executable Lean specification ({tags}): {d}", dict(op="run", input=strip(inp)))


# ------------------------------------------------------------------ oracle on the real code (independent reference)
AMBIG = 1e-9


def _eta_phi(px, py, pz):
    pt = math.hypot(px, py)
    phi = math.atan2(py, px)
    if phi < 0:
        phi += 2 * math.pi
    return pt, (math.asinh(pz / pt) if pt > 0 else (1e5 if pz >= 0 else -1e5)), phi


def ref_groups(inp, holes_charged_only=False):
    """groups of rows the property demands, or ('ambiguous', why).  Uses fastjet only for the clustering itself."""
    fj = _fj()
    (elo, ehi), (plo, phi_hi) = py_normalise(inp["eta"], inp["pt"])
    R = inp["R"]
    groups = []
    for iev, ev in enumerate(inp["events"]):
        if any(d["status"] is None for d in ev):
            return ("ambiguous", "unset status (documented precondition)")
        pjs = [fj.PseudoJet(d["px"], d["py"], d["pz"], d["E"]) for d in ev]
        cs = fj.ClusterSequence(pjs, _jetdef(inp["alg"], R))
        for jet in fj.sorted_by_pt(cs.inclusive_jets(plo)):
            jeta, jphi = jet.eta(), jet.phi()
            if not (elo <= jeta <= ehi):
                continue
            holes, assoc = [], []
            for d in ev:
                ppt, peta, pphi = _eta_phi(d["px"], d["py"], d["pz"])
                dphi = (pphi - jphi + math.pi) % (2 * math.pi) - math.pi
                dr = math.hypot(peta - jeta, dphi)
                if abs(dr - R) < AMBIG:
                    return ("ambiguous", "Delta R within 1e-9 of R")
                if dr < R:
                    charged = not (d["charge"] == 0)
                    if d["status"] < 0:
                        if charged or not holes_charged_only:
                            holes.append(d)
                    elif charged or not inp["only_charged"]:
                        assoc.append((ppt, peta, pphi, d))
            px = jet.px() - math.fsum(h["px"] for h in holes)
            py = jet.py() - math.fsum(h["py"] for h in holes)
            pz = jet.pz() - math.fsum(h["pz"] for h in holes)
            E = jet.e() - math.fsum(h["E"] for h in holes)
            pt, eta, phi = _eta_phi(px, py, pz)
            if holes and pt < 1e-6 * jet.perp():
                return ("ambiguous", "jet consists of holes only: the subtracted momentum is rounding noise")
            if len(holes) <= 1:
                # at most one hole: `0.0 + h` and `jet - h` are exact replays of the only possible operation order,
                # so the comparison with the upper bound is decided on fastjet's own perp() without a grey zone
                if fj.PseudoJet(px, py, pz, E).perp() >= phi_hi:
                    continue
            else:
                if phi_hi != INF and abs(pt - phi_hi) <= AMBIG * max(1.0, phi_hi):
                    return ("ambiguous", "subtracted pT within 1e-9 of the upper bound")
                if pt >= phi_hi:
                    continue
            g = [[0, pt, eta, phi, 10, 10, E, iev]]
            for i, (ppt, peta, pphi, d) in enumerate(assoc, start=1):
                g.append([i, ppt, peta, pphi, d["status"], d["pdg"], d["E"], iev])
            groups.append(g)
    return groups


def _row_close(r, e):
    """real csv row (str) vs expected values"""
    if len(r) != 8:
        return False
    try:
        ints = [int(r[0]), int(r[4]), int(r[5]), int(r[7])]
        fl = [float(r[1]), float(r[2]), float(r[3]), float(r[6])]
    except ValueError:
        return False
    if ints != [e[0], e[4], e[5], e[7]]:
        return False
    for a, b, kind in zip(fl, [e[1], e[2], e[3], e[6]], "pepE"):
        if kind == "p" and abs(a - b) > 1e-7 * max(1.0, abs(b)):
            return False
        if kind == "e" and abs(a - b) > 1e-7 * max(1.0, abs(b)) and abs(b) < 1e4:
            return False
        if kind == "E" and abs(a - b) > 1e-7 * max(1.0, abs(b)):
            return False
    # azimuth compared modulo 2 pi
    dphi = abs(fl[2] - e[3]) % (2 * math.pi)
    return min(dphi, 2 * math.pi - dphi) < 1e-6


def _rows_close(real, exp):
    return len(real) == len(exp) and all(_row_close(r, e) for r, e in zip(real, exp))


def oracle_check(inp):
    """None, ('ambiguous', why) or (key, what, detail): the property checked on the real code."""
    ref = ref_groups(inp)
    if isinstance(ref, tuple):
        return ref
    outcome, real, path = real_run(inp)
    if outcome != "ok":
        return ("call-raises", f"perform_jet_finding raised ({outcome}) on valid input", dict(outcome=outcome))
    exp = [r for g in ref for r in g]
    pr = prior_rows(inp)
    has_jetless_first = bool(inp["events"]) and bool(exp) and exp[0][7] != 0
    if real is None:
        return ("no-output-file/no-jets", "the call found no jets and left no output file at all (read_jet_data raises "
                "FileNotFoundError); expected an empty file", dict(expected_rows=0, observed="file absent"))
    if not _rows_close(real, exp):
        if pr and real[:len(pr)] == pr and _rows_close(real[len(pr):], exp):
            if not exp:
                return ("stale-file/no-jets", f"the call found no jets and left the {len(pr)} rows of the previous content in the "
                        "output file; expected an empty file", dict(expected_rows=0, observed_rows=len(real)))
            return ("stale-file/jetless-first-event" if has_jetless_first else "stale-file/other",
                    f"the output file still starts with the {len(pr)} rows it held before the call, followed by this "
                    f"call's {len(exp)} rows (first event without jets: new_file is only honoured for event 0)",
                    dict(expected_rows=len(exp), observed_rows=len(real), first_observed=real[0]))
        alt = ref_groups(inp, holes_charged_only=True)
        if inp["only_charged"] and not isinstance(alt, tuple):
            altrows = [r for g in alt for r in g]
            tail = real[len(pr):] if (pr and real[:len(pr)] == pr) else real
            if _rows_close(tail, altrows) or _rows_close(real, altrows):
                k = next((i for i, (r, e) in enumerate(zip(tail if len(tail) == len(exp) else real, exp)) if not _row_close(r, e)), None)
                return ("holes/neutral-not-subtracted-charged-only",
                        "with assoc_only_charged=True the neutral negative-status particles inside the cone are not subtracted "
                        "from the jet momentum", dict(row=k, expected=exp[k] if k is not None and k < len(exp) else None,
                                                      observed=(tail if len(tail) == len(exp) else real)[k] if k is not None else None))
        k = next((i for i, (r, e) in enumerate(zip(real, exp)) if not _row_close(r, e)), min(len(real), len(exp)))
        return ("rows-mismatch", f"output file differs from the jets of this call at row {k} "
                f"({len(real)} rows written, {len(exp)} expected)",
                dict(row=k, expected=exp[k] if k < len(exp) else None, observed=real[k] if k < len(real) else None))
    # reader: what was written, grouped jet by jet
    from sparkx.JetAnalysis import JetAnalysis
    ja = JetAnalysis()
    try:
        ja.read_jet_data(path)
    except Exception as e:  # noqa: BLE001
        return ("reader-raises", f"read_jet_data raised {type(e).__name__} on the file just written", dict(error=str(e)))
    want, k = [], 0
    for g in ref:
        want.append([[int(r[0]), float(r[1]), float(r[2]), float(r[3]), int(r[4]), int(r[5]), float(r[6]), int(r[7])]
                     for r in real[k:k + len(g)]])
        k += len(g)
    if ja.jet_data_ != want or ja.get_jets() != [g[0] for g in want] or ja.get_associated_particles() != [g[1:] for g in want]:
        return ("reader-grouping", "read_jet_data / get_jets / get_associated_particles do not return the written rows grouped jet by jet",
                dict(expected_group_sizes=[len(g) for g in want], observed_group_sizes=[len(g) for g in ja.jet_data_]))
    return None


def is_violation(r):
    return r is not None and r[0] != "ambiguous"


def shrink(inp, key):
    cur = strip(inp)

    def still(c):
        r = oracle_check(c)
        return is_violation(r) and r[0] == key

    changed = True
    while changed:
        changed = False
        for i in range(len(cur["events"])):
            # empty an event (keeps positions) or drop it
            for cand_events in (cur["events"][:i] + cur["events"][i + 1:],
                                cur["events"][:i] + [[]] + cur["events"][i + 1:] if cur["events"][i] else None):
                if cand_events is None:
                    continue
                c = dict(cur, events=cand_events)
                if still(c):
                    cur, changed = c, True
                    break
            if changed:
                break
        if changed:
            continue
        for i in range(len(cur["events"])):
            for j in range(len(cur["events"][i])):
                ev = cur["events"][i]
                c = dict(cur, events=cur["events"][:i] + [ev[:j] + ev[j + 1:]] + cur["events"][i + 1:])
                if still(c):
                    cur, changed = c, True
                    break
            if changed:
                break
        if not changed and cur["prior"] is not None:
            lines = cur["prior"].splitlines(keepends=True)
            for cand in ([None, ""] if cur["prior"] != "" else [None]) + ([lines[0]] if len(lines) > 1 else []):
                c = dict(cur, prior=cand)
                if still(c):
                    cur, changed = c, True
                    break
    return cur


def corpus():
    p = common.VERIF / "harness/corpus/C20"
    return [json.loads(f.read_text()) for f in sorted(p.glob("*.json"))] if p.exists() else []


def _report(ctx, inp, r):
    ctx.violation(r[0], r[1], dict(input=strip(inp), detail=r[2], how_to_replay="./check C20 --replay <this file>"))


def search(ctx, budget_s):
    rng = ctx.rng
    t0 = time.time()
    n = amb = 0
    seen = set()
    for case in corpus():
        r = oracle_check(case["input"])
        n += 1
        if is_violation(r) and r[0] not in seen:
            seen.add(r[0])
            _report(ctx, case["input"], r)
    limit = 3000 if ctx.thorough else 300
    while time.time() - t0 < budget_s and n < limit:
        inp, info = gen_input(rng)
        r = oracle_check(inp)
        n += 1
        if r is not None and r[0] == "ambiguous":
            amb += 1
            ctx.count("oracle/ambiguous: " + r[1])
            continue
        ref = ref_groups(inp)
        ctx.case(("oracle", canon(inp)), bool(ref) and (bool(prior_rows(inp)) or ref[0][0][7] != 0))
        if is_violation(r) and r[0] not in seen:
            seen.add(r[0])
            small = shrink(inp, r[0])
            r2 = oracle_check(small)
            if not (is_violation(r2) and r2[0] == r[0]):
                small, r2 = strip(inp), r
            _report(ctx, small, r2)
            if len(seen) >= 4:
                break
    ctx.cov["oracle_cases"] = n
    ctx.cov["oracle_ambiguous_skipped"] = amb
    ctx.count("oracle", n)


def replay(ctx, path):
    d = json.loads(open(path).read())
    inp = d.get("input")
    if not inp:
        print(f"[C20] replay file names a broken obligation, not an input: {d.get('broken')}")
        return 1
    if "events" not in inp:
        print(f"[C20] replay input is a correspondence case without events: {inp}")
        return 1
    r = oracle_check(inp)
    if is_violation(r):
        print(f"VIOLATION property=C20 replay={path}")
        print(r[1], json.dumps(r[2], default=str))
        return 1
    print("[C20] replay: property holds on this input now" + (f" ({r[1]})" if r else ""))
    return 0
