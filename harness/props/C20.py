"""C20 — the jet output file contains exactly this call's jets with correct constituents.

Tie T: harness/translate/jets.py regenerates Gen/Jets.lean (`genNormalise`, `genPseudoJets`, `genDeltaR`, `genFill`,
`genSubtract`, `genWriteJetOutput` + row layout, `genPerform`, `genRead` + column conversions) from the current source
of JetAnalysis.py; Lemmas/JetsGen.lean proves them equal to the hand-written model, Props/C20/Gen.lean restates the
property theorems about them.  A method outside the translated fragment falls back to the committed golden text of
its region (tie C only for it, enlarged correspondence).
Tie C: the executable Lean model `Core/Jets.lean` AND the generated functions (driver ops `g…`) are run on
the same inputs as the real `JetAnalysis`; fastjet is a parameter of the model, so the harness calls fastjet
itself (same algorithm / radius, `inclusive_jets(0)`) and hands the model every clustered jet together with
the `delta_r` to every particle, computed by the formula the code uses.  The contract "what the code gets
from `inclusive_jets(ptmin)` + `SelectorEtaRange` = those of the supplied jets with `ptmin <= pt` and eta
inside the closed window" is checked on every case.

`search` checks the PROPERTY on the real code against an independent reference (own parameter
normalisation, own Delta R from eta/phi, `math.fsum` hole sums, own eta/phi of the subtracted jet), with a
tolerance and an explicit "ambiguous" zone around the two thresholds (Delta R ~ R, pT' ~ upper bound).
"""
import contextlib
import copy
import csv
import io
import json
import math
import os
import tempfile
import time
import warnings

import common
from common import f2h, h2f

warnings.filterwarnings("ignore")

INF = float("inf")
ALG_NAMES = ["antikt", "kt", "cambridge", "genkt"]
_TMP = None
_FJ_READY = False


# ------------------------------------------------------------------ tie T
def translate(ctx):
    """Gen/Jets.lean from the current source of JetAnalysis.py; region-wise golden fallback (DESIGN 2.1 (i))."""
    from translate import jets
    src = common.read_src("JetAnalysis.py")
    golden = common.LEAN / "golden/Gen/Jets.lean"
    gtext = golden.read_text() if golden.exists() else None
    text, regions = jets.render(src, golden=gtext)
    common.write_if_changed(common.LEAN / "SparkxVerif/Gen/Jets.lean", text)
    ctx.cov["gen_equals_golden"] = gtext is not None and gtext == text
    bad = [r for r in regions if not r["tie"].startswith("T")]
    good = [r["region"] for r in regions if r["tie"].startswith("T")]
    if not bad:
        ctx.cov["tie"] = ("T + C: parameter validation, PseudoJet creation, delta_r expression, cone association, hole "
                          "subtraction, write_jet_output (upper cut, row layout, file mode), the event / jet loops of "
                          "perform_jet_finding and read_jet_data regenerated and proved equal to the model; fastjet "
                          "(clustering, eta/phi/perp/delta_phi_to) and csv by correspondence")
    else:
        # the golden text of these regions takes over; the correspondence carries their tie and runs enlarged
        ctx.fallback = True
        ctx.cov["golden_restored"] = ["Jets.lean: region " + r["gen_region"] for r in bad]
        ctx.cov["tie"] = ("T + C for " + (", ".join(good) or "no method") + "; correspondence-only (translator could not "
                          "re-derive) for " + ", ".join(r["region"] for r in bad))
        for r in bad:
            ctx.notes.append(f"{r['region']} is outside the translated fragment: {r['tie']}")
    return regions


# ------------------------------------------------------------------ plumbing around fastjet / sparkx
def _fj():
    """import fastjet and swallow its banner (written by C++ to fd 1 on first clustering)."""
    global _FJ_READY
    import fastjet as fj
    if not _FJ_READY:
        import sys
        sys.stdout.flush()
        saved = os.dup(1)
        devnull = os.open(os.devnull, os.O_WRONLY)
        try:
            os.dup2(devnull, 1)
            fj.ClusterSequence([fj.PseudoJet(1.0, 0.0, 0.0, 1.0)], fj.JetDefinition(fj.antikt_algorithm, 0.4)).inclusive_jets(0.0)
        finally:
            os.dup2(saved, 1)
            os.close(saved)
            os.close(devnull)
        _FJ_READY = True
    return fj


def _alg(name):
    fj = _fj()
    return {"antikt": fj.antikt_algorithm, "kt": fj.kt_algorithm, "cambridge": fj.cambridge_algorithm,
            "genkt": fj.genkt_algorithm}[name]


def _jetdef(name, R):
    fj = _fj()
    if name == "genkt":
        return fj.JetDefinition(fj.genkt_algorithm, R, -1.0)
    return fj.JetDefinition(_alg(name), R)


def _tmpdir():
    global _TMP
    if _TMP is None:
        import atexit
        import shutil
        _TMP = tempfile.mkdtemp(prefix="verif_C20_")
        atexit.register(shutil.rmtree, _TMP, True)
    return _TMP


def mk_particle(d):
    from sparkx.Particle import Particle
    p = Particle()
    p.px, p.py, p.pz, p.E = d["px"], d["py"], d["pz"], d["E"]
    if d.get("status") is not None:
        p.status = d["status"]
    if d.get("charge") is not None:
        p.charge = d["charge"]
    p.pdg = d["pdg"]
    return p


def mk_events(inp):
    return [[mk_particle(d) for d in ev] for ev in inp["events"]]


# ---- round-4 devices: how the SAME call is presented to the code (the reference and the model do not see this) ----
# variant = None or a dict with some of
#   ja      : "copy" | "deepcopy" | "pickle"   the JetAnalysis object is replaced by its copy before the call
#   ja_used : True                              ... after it has served another call and read_jet_data (warm-up sample)
#   data    : "tuple-outer" | "tuple-inner" | "tuple-both" | "objarr" | "copy" | "deepcopy" | "pickle"
#             container / copy of the hadron data (tuples and numpy object arrays behave as sequences; the docs say
#             "list", the clean code accepts them - probed)
#   path    : "relative" | "pathlib" | "nonascii" | "relative-nonascii"   (bare file name after os.chdir into a fresh
#             directory; pathlib.Path; file name with blanks and non-ASCII characters)
#   env     : "numpy" | "random" | "both"       np.seterr(all="warn") + print options / advanced random + np.random state
#   text    : "lf" | "blanks" | "lf+blanks"     read_jet_data must read the same groups from the file with LF line ends
#             (the writer produces CRLF) / blanks around the fields (the clean reader accepts both - probed)
COPIERS = {"copy": copy.copy, "deepcopy": copy.deepcopy, "pickle": lambda o: __import__("pickle").loads(__import__("pickle").dumps(o))}
WARM = [[dict(px=30.0, py=1.0, pz=2.0, E=31.0, status=0, charge=1, pdg=211), dict(px=29.0, py=-1.0, pz=2.5, E=30.0, status=0, charge=-1, pdg=-211),
         dict(px=1.0, py=0.1, pz=0.1, E=1.1, status=-1, charge=0, pdg=111)]]


def gen_variant(rng):
    if rng.random() < 0.55:
        return None
    v = {}
    if rng.random() < 0.4:
        v["ja"] = rng.choice(["copy", "deepcopy", "pickle"])
    if rng.random() < 0.3:
        v["ja_used"] = True
    if rng.random() < 0.45:
        v["data"] = rng.choice(["tuple-outer", "tuple-inner", "tuple-both", "objarr", "copy", "deepcopy", "pickle"])
    if rng.random() < 0.4:
        v["path"] = rng.choice(["relative", "pathlib", "nonascii", "relative-nonascii"])
    if rng.random() < 0.3:
        v["env"] = rng.choice(["numpy", "random", "both"])
    if rng.random() < 0.3:
        v["text"] = rng.choice(["lf", "blanks", "lf+blanks"])
    return v or None


def present_data(events, how):
    """the hadron data in another container / as a copy; same content"""
    import numpy as np
    if how in (None, "list"):
        return events
    if how == "tuple-outer":
        return tuple(events)
    if how == "tuple-inner":
        return [tuple(e) for e in events]
    if how == "tuple-both":
        return tuple(tuple(e) for e in events)
    if how == "objarr":
        a = np.empty(len(events), dtype=object)
        for i, e in enumerate(events):
            a[i] = e
        return a
    return COPIERS[how](events)


def global_state():
    import random as _r
    import numpy as np
    st = np.random.get_state()
    return dict(cwd=os.getcwd(), random=_r.getstate(), nprandom=(st[0], st[1].tobytes(), st[2], st[3], st[4]), seterr=np.geterr(),
                printoptions=repr(sorted(np.get_printoptions().items(), key=lambda kv: kv[0])))


def real_run(inp):
    """Run the real perform_jet_finding.  Returns (outcome, rows, path): outcome 'ok'|'err value'|'err other:<T>',
    rows = csv rows (lists of str) of the output file afterwards or None when the file does not exist.
    `inp["variant"]` (optional) says how the call is presented; `real_run.leaks` lists the pieces of global state
    (cwd, random, np.random, np.seterr, print options) the call did not leave as it found them."""
    import random as _r
    import numpy as np
    from sparkx.JetAnalysis import JetAnalysis
    v = inp.get("variant") or {}
    real_run.leaks = []
    pv = v.get("path")
    name = "jets \u00e9\u00fc \u96f6 out.csv" if pv in ("nonascii", "relative-nonascii") else "out.csv"
    if pv in ("relative", "relative-nonascii"):
        wd = tempfile.mkdtemp(prefix="cwd_", dir=_tmpdir())
    else:
        wd = _tmpdir()
    path = os.path.join(wd, name)
    if os.path.exists(path):
        os.remove(path)
    if inp["prior"] is not None:
        with open(path, "w", newline="") as f:
            f.write(inp["prior"])
    ja = JetAnalysis()
    if v.get("ja_used"):
        wp = os.path.join(_tmpdir(), "warm.csv")
        with contextlib.redirect_stdout(io.StringIO()):
            ja.perform_jet_finding([[mk_particle(d) for d in ev] for ev in WARM], 0.4, (None, None), (None, None), wp)
        ja.read_jet_data(wp)
    if v.get("ja"):
        ja = COPIERS[v["ja"]](ja)
    events = present_data(mk_events(inp), v.get("data"))
    arg = path
    if pv == "pathlib":
        import pathlib
        arg = pathlib.Path(path)
    saved_cwd, saved_err, saved_po = os.getcwd(), np.geterr(), np.get_printoptions()
    saved_r, saved_np = _r.getstate(), np.random.get_state()
    outcome = "ok"
    try:
        if pv in ("relative", "relative-nonascii"):
            os.chdir(wd)
            arg = name
        if v.get("env") in ("numpy", "both"):
            np.seterr(all="warn")
            np.set_printoptions(precision=2, suppress=True, threshold=3)
        if v.get("env") in ("random", "both"):
            _r.seed(12345)
            _r.random()
            np.random.seed(54321)
            np.random.random(7)
        before = global_state()
        try:
            with contextlib.redirect_stdout(io.StringIO()):
                ja.perform_jet_finding(events, inp["R"], tuple(inp["eta"]), tuple(inp["pt"]), arg,
                                       assoc_only_charged=inp["only_charged"], jet_algorithm=_alg(inp["alg"]))
        except ValueError:
            outcome = "err value"
        except Exception as e:  # noqa: BLE001
            outcome = "err other:" + type(e).__name__
        after = global_state()
        real_run.leaks = [k for k in before if before[k] != after[k]]
    finally:
        os.chdir(saved_cwd)
        np.seterr(**saved_err)
        np.set_printoptions(**saved_po)
        _r.setstate(saved_r)
        np.random.set_state(saved_np)
    return outcome, read_rows(path), path


real_run.leaks = []


def read_rows(path):
    if not os.path.exists(path):
        return None
    with open(path, "r", newline="") as f:
        return [row for row in csv.reader(f)]


def prior_rows(inp):
    if inp["prior"] is None:
        return None
    return [row for row in csv.reader(io.StringIO(inp["prior"], newline=""))]


# ------------------------------------------------------------------ what fastjet delivers (parameter of the model)
def cluster_all(ev, alg, R):
    """every inclusive jet of the event (fastjet's pT order) with delta_r to every particle, as the code computes it"""
    import numpy as np
    fj = _fj()
    pjs = [fj.PseudoJet(d["px"], d["py"], d["pz"], d["E"]) for d in ev]
    cs = fj.ClusterSequence(pjs, _jetdef(alg, R))
    jets = fj.sorted_by_pt(cs.inclusive_jets(0.0))
    out = []
    for jet in jets:
        drs = []
        for pj in pjs:
            delta_eta = pj.eta() - jet.eta()
            delta_phi = pj.delta_phi_to(jet)
            drs.append(float(np.sqrt(delta_eta ** 2.0 + delta_phi ** 2.0)))
        out.append(dict(pt=jet.perp(), eta=jet.eta(), px=jet.px(), py=jet.py(), pz=jet.pz(), E=jet.e(), dr=drs))
    return out


def contract_ok(ev, alg, R, norm, jets):
    """fastjet's own `inclusive_jets(ptmin)` + `SelectorEtaRange` = filter of the supplied jets"""
    fj = _fj()
    (elo, ehi), (plo, phi_) = norm
    pjs = [fj.PseudoJet(d["px"], d["py"], d["pz"], d["E"]) for d in ev]
    cs = fj.ClusterSequence(pjs, _jetdef(alg, R))
    got = fj.SelectorEtaRange(elo, ehi)(fj.sorted_by_pt(cs.inclusive_jets(plo)))
    mine = [j for j in jets if plo <= j["pt"] and elo <= j["eta"] <= ehi]
    return [(j.px(), j.py(), j.pz(), j.e()) for j in got] == [(j["px"], j["py"], j["pz"], j["E"]) for j in mine]


def py_normalise(eta, pt):
    """independent reading of the documentation: None = unbounded (0 for the lower pT), limits in either order"""
    e = [-INF if eta[0] is None else eta[0], INF if eta[1] is None else eta[1]]
    p = [0.0 if pt[0] is None else pt[0], INF if pt[1] is None else pt[1]]
    return (min(e), max(e)), (min(p), max(p))


# ------------------------------------------------------------------ generators
PDGS = {0: [111, 22, 2112, 130], 1: [211, 321, 2212], -1: [-211, -321, -2212]}


def _particle(rng, pt, eta, phi, status, charge):
    m = rng.choice([0.0, 0.13957, 0.938])
    px, py, pz = pt * math.cos(phi), pt * math.sin(phi), pt * math.sinh(eta)
    E = math.sqrt(px * px + py * py + pz * pz + m * m)
    pdg = rng.choice(PDGS[0 if not charge else (1 if charge > 0 else -1)])
    return dict(px=px, py=py, pz=pz, E=E, status=status, charge=charge, pdg=pdg)


def gen_event(rng, kind):
    """kind: empty | soft (no jet passes a usual lower bound) | outside (hard jet at large |eta|) | jets"""
    if kind == "empty":
        return []
    ev = []
    cores = []
    if kind == "jets":
        cores = [(rng.uniform(8, 60), rng.uniform(-2.2, 2.2), rng.uniform(0, 2 * math.pi)) for _ in range(rng.randint(1, 3))]
    elif kind == "outside":
        cores = [(rng.uniform(8, 40), rng.choice([-1, 1]) * rng.uniform(3.0, 4.0), rng.uniform(0, 2 * math.pi))]
    for (cpt, ceta, cphi) in cores:
        nfrag = rng.randint(1, 5)
        w = [rng.uniform(0.2, 1.0) for _ in range(nfrag)]
        for k in range(nfrag):
            rad = rng.uniform(0, 0.25) if k == 0 else rng.uniform(0, 0.9)
            ang = rng.uniform(0, 2 * math.pi)
            ev.append(_particle(rng, cpt * w[k] / sum(w), ceta + rad * math.cos(ang), cphi + rad * math.sin(ang),
                                rng.choice([0, 1, 11, 27]), rng.choice([0, 0, 1, -1, 1])))
        for _ in range(rng.choice([0, 0, 1, 2, 3])):  # holes near the core, charged and neutral
            rad, ang = rng.uniform(0, 0.8), rng.uniform(0, 2 * math.pi)
            ev.append(_particle(rng, rng.uniform(0.3, 4.0), ceta + rad * math.cos(ang), cphi + rad * math.sin(ang),
                                rng.choice([-1, -1, -11]), rng.choice([0, 0, 1, -1])))
    for _ in range(rng.randint(0 if cores else 1, 6)):
        ev.append(_particle(rng, rng.uniform(0.1, 1.5), rng.uniform(-3, 3), rng.uniform(0, 2 * math.pi),
                            rng.choice([0, 1, 27, -1]), rng.choice([0, 1, -1])))
    rng.shuffle(ev)
    if rng.random() < 0.04 and ev:
        ev[rng.randrange(len(ev))]["charge"] = None  # unset charge: `nan == 0` is False, counts as charged
    return ev[:40]


def gen_prior(rng, allow_call=True):
    r = rng.random()
    if r < 0.2:
        return None, "absent"
    if r < 0.35:
        return "", "empty"
    rows = []
    for _ in range(rng.randint(1, 3)):
        ev = rng.randint(0, 9)
        rows.append([0, rng.uniform(5, 50), rng.uniform(-2, 2), rng.uniform(0, 6), 10, 10, rng.uniform(5, 90), ev])
        for i in range(1, rng.randint(1, 3)):
            rows.append([i, rng.uniform(0.2, 9), rng.uniform(-2, 2), rng.uniform(0, 6), rng.choice([0, 27, 11]),
                         rng.choice([211, -211, 111]), rng.uniform(1, 20), ev])
    s = io.StringIO(newline="")
    csv.writer(s).writerows(rows)
    return s.getvalue(), "rows"


def code_like_subtracted_pt(ev, j, R, holes_charged_only=False):
    """pT of jet j after subtracting the holes the way the code accumulates them (only used to place boundary cuts)"""
    fj = _fj()
    E = px = py = pz = 0.0
    for d, dr in zip(ev, j["dr"]):
        if d["status"] is not None and d["status"] < 0 and dr < R:
            E += d["E"]; px += d["px"]; py += d["py"]; pz += d["pz"]
    return fj.PseudoJet(j["px"] - px, j["py"] - py, j["pz"] - pz, j["E"] - E).perp()


ETA_CHOICES = [(-2.0, 2.0), (-2.0, 2.0), (None, 1.0), (-1.0, None), (None, None), (2.0, -2.0), (0.0, 1.5), (2.5, None),
               (None, -2.5)]
PT_CHOICES = [(10.0, None), (10.0, None), (None, None), (5.0, 30.0), (30.0, 5.0), (None, 25.0), (8.0, 8.0), (3.0, None),
              (None, 6.0), (20.0, 12.0), (0.0, None), (0, 30.0)]


def gen_exact_boundary(rng):
    """An event in which a particle B sits at Delta R == R EXACTLY from a jet that consists of the single particle A:
    same azimuth bit for bit (B's transverse momentum is A's scaled by a power of two, so delta_phi_to is exactly 0),
    A massive and B massless at larger pseudorapidity (so the rapidity distance the clustering uses exceeds R and the two
    are not merged), R := the delta_r the code computes = |eta_B - eta_A| exactly.  `delta_r < R` must then be false for
    B, and the oracle can say so without a grey zone.  Returns (inp, info) or None when fastjet does not play along."""
    fj = _fj()
    pt, eta_a, phi = rng.uniform(10, 40), rng.uniform(0.2, 1.0), rng.uniform(0, 2 * math.pi)
    m = 0.938
    ax, ay, az = pt * math.cos(phi), pt * math.sin(phi), pt * math.sinh(eta_a)
    A = dict(px=ax, py=ay, pz=az, E=math.sqrt(ax * ax + ay * ay + az * az + m * m), status=rng.choice([0, 1, 27]),
             charge=rng.choice([1, -1]), pdg=2212)
    sc = 2.0 ** -rng.randint(1, 4)
    bx, by = ax * sc, ay * sc
    bz = math.hypot(bx, by) * math.sinh(eta_a + rng.uniform(0.2, 0.9))
    ch = rng.choice([0, 1, -1])
    B = dict(px=bx, py=by, pz=bz, E=math.sqrt(bx * bx + by * by + bz * bz), status=rng.choice([-1, -11, 0, 27, 1]),
             charge=ch, pdg=rng.choice(PDGS[0 if not ch else (1 if ch > 0 else -1)]))
    ev = [A, B]
    for _ in range(rng.randint(0, 2)):  # bystanders on the other side
        ev.append(_particle(rng, rng.uniform(0.2, 2.0), rng.uniform(-2.5, -1.0), phi + math.pi + rng.uniform(-0.5, 0.5),
                            rng.choice([0, 1, -1]), rng.choice([0, 1, -1])))
    order = list(range(len(ev)))
    rng.shuffle(order)
    ev = [ev[k] for k in order]
    alg = rng.choice(["antikt", "antikt", "kt", "cambridge"])
    pa, pb = (fj.PseudoJet(d["px"], d["py"], d["pz"], d["E"]) for d in (A, B))
    if pb.delta_phi_to(pa) != 0.0:
        return None
    R = abs(pb.eta() - pa.eta())
    ok = False
    for j in cluster_all(ev, alg, R):
        if (j["px"], j["py"], j["pz"], j["E"]) == (A["px"], A["py"], A["pz"], A["E"]):
            dr = j["dr"][ev.index(B)]
            ok = dr == R
    if not ok:
        return None
    events = [ev]
    kinds = ["jets"]
    if rng.random() < 0.5:
        events.insert(0, gen_event(rng, rng.choice(["empty", "soft"])))
        kinds.insert(0, "soft")
    prior, ptag = gen_prior(rng)
    # the lower pT bound keeps the soft jets (B alone, bystanders: possibly holes only) out of the selection
    return dict(events=events, R=R, alg=alg, eta=[None, None], pt=[rng.choice([0.6, 0.75]) * pt, rng.choice([None, None, 2.0 * pt])],
                only_charged=rng.random() < 0.5, prior=prior, variant=gen_variant(rng)), \
        dict(kinds=kinds, prior=ptag, tags=["boundary:dr==R exactly"])


def gen_input(rng, ctx=None):
    if rng.random() < 0.07:
        r = gen_exact_boundary(rng)
        if r is not None:
            return r
    nev = rng.choice([0, 1, 1, 2, 2, 3, 3, 4, 5])
    jetless = ["empty", "soft", "outside"]
    kinds = []
    for i in range(nev):
        if i == 0:
            kinds.append(rng.choice(jetless) if rng.random() < 0.45 else "jets")
        else:
            kinds.append(rng.choice(jetless) if rng.random() < 0.35 else "jets")
    if nev and rng.random() < 0.12:
        kinds = [rng.choice(jetless) for _ in kinds]  # a call that finds nothing
    events = [gen_event(rng, k) for k in kinds]
    R = rng.choice([0.2, 0.4, 0.4, 0.7, 1.0, rng.uniform(0.15, 1.2)])
    alg = rng.choice(["antikt", "antikt", "antikt", "kt", "cambridge", "genkt"])
    only_charged = rng.random() < 0.6
    eta = list(rng.choice(ETA_CHOICES))
    pt = list(rng.choice(PT_CHOICES))
    tags = []
    if rng.random() < 0.15:
        # radius bit-equal to the delta_r of some (selected jet, relevant particle) pair: re-cluster with R := that
        # delta_r and keep it when the pair survives the re-clustering (`delta_r < R` must then be false for it)
        (elo, ehi), (plo, _) = py_normalise(eta, pt)

        def pairs(radius):
            return [dr for ev in events for j in cluster_all(ev, alg, radius)
                    if plo <= j["pt"] and elo <= j["eta"] <= ehi
                    for d, dr in zip(ev, j["dr"])
                    if 0.15 < dr < 1.2 and (d["status"] < 0 or not only_charged or d["charge"] != 0)]
        cand = pairs(R)
        for R2 in rng.sample(cand, min(6, len(cand))):
            if R2 in pairs(R2):
                R = R2
                tags.append("boundary:dr==R")
                break
    all_jets = [(i, j) for i, ev in enumerate(events) for j in cluster_all(ev, alg, R) if j["pt"] > 3.0]
    if all_jets and not tags and rng.random() < 0.35:
        i, j = rng.choice(all_jets)
        what = rng.choice(["eta-lo", "eta-hi", "pt-hi", "pt-hi", "pt-lo"])
        if what == "eta-lo":
            eta = [j["eta"], None if rng.random() < 0.5 else j["eta"] + 1.0]
        elif what == "eta-hi":
            eta = [None if rng.random() < 0.5 else j["eta"] - 1.0, j["eta"]]
        elif what == "pt-hi":
            pt = [pt[0] if (pt[0] is None or pt[0] < j["pt"]) else None, code_like_subtracted_pt(events[i], j, R)]
            if rng.random() < 0.3:
                pt.reverse()
        else:
            pt = [j["pt"], None]
        tags.append("boundary:" + what)
    prior, ptag = gen_prior(rng)
    variant = gen_variant(rng)
    for k_, x_ in sorted((variant or {}).items()):
        tags.append("presented:%s=%s" % (k_, x_))
    return dict(events=events, R=R, alg=alg, eta=eta, pt=pt, only_charged=only_charged, prior=prior, variant=variant), \
        dict(kinds=kinds, prior=ptag, tags=tags)


# ------------------------------------------------------------------ model side
def _opt(x):
    return "-" if x is None else f2h(x)


def enc_events(inp, clusters):
    evs = []
    for ev, jets in zip(inp["events"], clusters):
        ps = ";".join("%s,%s,%s,%s,%s,%s" % ("nan" if d["status"] is None else d["status"],
                                              "t" if d["_charged"] else "f",
                                              f2h(d["px"]), f2h(d["py"]), f2h(d["pz"]), f2h(d["E"])) for d in ev) or "."
        js = ";".join(",".join([f2h(j["pt"]), f2h(j["eta"]), f2h(j["px"]), f2h(j["py"]), f2h(j["pz"]), f2h(j["E"]),
                                ":".join(f2h(x) for x in j["dr"]) or "."]) for j in jets) or "."
        evs.append(ps + "|" + js)
    return "/".join(evs) or "."


def enc_prior(inp):
    pr = prior_rows(inp)
    if pr is None:
        return "none"
    return ";".join("%d:%d" % (int(r[0]), k) for k, r in enumerate(pr)) or "."


def annotate_charged(inp):
    """`charged` as the code evaluates it: `not (hadron.charge == 0)` on the real Particle"""
    for ev in inp["events"]:
        for d in ev:
            d["_charged"] = not (mk_particle(d).charge == 0)


def run_line(inp, clusters, variant="repaired"):
    return "\t".join(["run", variant, f2h(inp["R"]), _opt(inp["eta"][0]), _opt(inp["eta"][1]), _opt(inp["pt"][0]),
                      _opt(inp["pt"][1]), "t" if inp["only_charged"] else "f", enc_prior(inp), enc_events(inp, clusters)])


def grun_line(inp, clusters):
    return "\t".join(["grun", f2h(inp["R"]), _opt(inp["eta"][0]), _opt(inp["eta"][1]), _opt(inp["pt"][0]),
                      _opt(inp["pt"][1]), "t" if inp["only_charged"] else "f", enc_prior(inp), enc_events(inp, clusters)])


def parse_rows(s):
    if s == "none":
        return None
    if s == ".":
        return []
    out = []
    for t in s.split(";"):
        f = t.split(",")
        if f[0] == "J":
            out.append(("J", int(f[1]), h2f(f[2]), h2f(f[3]), h2f(f[4]), h2f(f[5])))
        elif f[0] == "P":
            out.append(("P", int(f[1]), int(f[2]), int(f[3])))
        else:
            out.append(("O", int(f[1]), int(f[2])))
    return out


def _feq(s, x):
    """text field of the real file == float x (exactly; the writer prints shortest round-trip digits)"""
    try:
        v = float(s)
    except ValueError:
        return False
    return v == x or (v != v and x != x)


def _ieq(s, n):
    try:
        return int(s) == n
    except ValueError:
        return s == str(n)


def rows_match(real, rows, inp):
    """real csv rows (str) against abstract rows of the model / Lean spec.  Returns None or a description."""
    fj = _fj()
    if real is None or rows is None:
        return None if (real is None and rows is None) else f"file exists: real {real is not None}, model {rows is not None}"
    if len(real) != len(rows):
        return f"{len(real)} rows in the real file, {len(rows)} in the model's"
    pr = prior_rows(inp) or []
    for k, (r, m) in enumerate(zip(real, rows)):
        if m[0] == "O":
            if r != pr[m[2]]:
                return f"row {k}: real {r} is not prior row {m[2]}"
            continue
        if len(r) != 8:
            return f"row {k}: {len(r)} columns"
        if m[0] == "J":
            pj = fj.PseudoJet(m[2], m[3], m[4], m[5])
            exp_i = [0, 10, 10, m[1]]
            exp_f = [pj.perp(), pj.eta(), pj.phi(), pj.e()]
        else:
            d = inp["events"][m[3]][m[2]]
            pj = fj.PseudoJet(d["px"], d["py"], d["pz"], d["E"])
            exp_i = [m[1], d["status"], d["pdg"], m[3]]
            exp_f = [pj.perp(), pj.eta(), pj.phi(), d["E"]]
        if not (_ieq(r[0], exp_i[0]) and _ieq(r[4], exp_i[1]) and _ieq(r[5], exp_i[2]) and _ieq(r[7], exp_i[3])
                and _feq(r[1], exp_f[0]) and _feq(r[2], exp_f[1]) and _feq(r[3], exp_f[2]) and _feq(r[6], exp_f[3])):
            return f"row {k}: real {r} vs model {m} -> ints {exp_i} floats {exp_f}"
    return None


def strip(inp):
    return dict(events=[[{k: v for k, v in d.items() if not k.startswith("_")} for d in ev] for ev in inp["events"]],
                **{k: v for k, v in inp.items() if k != "events"})


def canon(inp):
    return json.dumps(strip(inp), sort_keys=True)


# ------------------------------------------------------------------ correspondence (tie C)
MAX_BRK = 5
MODELLED = ["__initialize_and_check_parameters", "fill_associated_particles", "jet_hole_subtraction", "write_jet_output",
            "perform_jet_finding", "read_jet_data", "get_jets", "get_associated_particles"]


def source_regions():
    import ast
    src = common.read_src("JetAnalysis.py")
    out = []
    for node in ast.walk(ast.parse(src)):
        if isinstance(node, ast.FunctionDef) and node.name in MODELLED:
            out.append(dict(region=f"JetAnalysis.{node.name}", lines=[node.lineno, node.end_lineno],
                            hash=common.region_hash(ast.get_source_segment(src, node))))
    return out


def _sample(ctx, kind, d):
    """at most one norm and one read sample, so that whole-call samples get into the evidence too"""
    seen = ctx.__dict__.setdefault("_c20_sampled", set())
    if kind in ("norm", "read"):
        if kind in seen:
            return None
        seen.add(kind)
    return d


def _brk(ctx, what, case):
    """record a model/code disagreement; only the first few are kept verbatim, all are counted"""
    ctx.count("correspondence-disagreements")
    if sum(1 for b in ctx.broken if b["kind"] == "correspondence-broken") < MAX_BRK:
        ctx.brk("correspondence-broken", what, case=case)


def correspond(ctx):
    rng = ctx.rng
    ctx.assumptions.append("documented input is `hadron_data: list` of lists of Particle: tuples and numpy object arrays (outer and inner) "
                           "behave as sequences and are generated; ONE-SHOT ITERATORS are outside the documented input: an iterator "
                           "as outer container is rejected (TypeError, probed each run: rejected-or-correct), an iterator as an EVENT "
                           "is consumed by the clustering and the cone search then sees an empty event (jets without constituents, "
                           "silently) - read as outside the property's 'event samples', not flagged")
    ctx.rule = ("random samples of 0-5 events (kinds empty/soft/outside/jets in any position, <=40 particles, statuses "
                "<0 and >=0, charged/neutral/unset charge), R, algorithm, eta/pT windows with None, swapped and "
                "bit-equal-to-a-jet limits, charged-only on/off, output file absent/empty/pre-filled; non-trivial = "
                "at least one jet row written AND (pre-filled file or jet-less first event or a hole subtracted or a jet "
                "omitted by the upper cut); plus parameter-normalisation and reader cases; plus call histories on ONE "
                "long-lived JetAnalysis object (same list changed in place between calls: events replaced/added/removed/"
                "reordered, particles added/removed, momentum/status/charge changed through the setters; new lists; new outer "
                "list over the same event lists; other parameters; output path re-used, rewritten or deleted; read_jet_data "
                "in between), every call compared with the model on the current content (non-trivial = 2nd or later call "
                "that writes a jet); distinct by canonical input; round-4 presentation variants of the same call (JetAnalysis object "
                "copied / deep-copied / pickled, fresh or after serving another call, also between the calls of a history; hadron "
                "data as tuples / numpy object array / copy / deep copy / pickle round trip; output file by bare relative name "
                "after chdir, as pathlib.Path, with blanks and non-ASCII characters in its name; np.seterr(all='warn') + print "
                "options, advanced random / np.random state, all required to be left as found; read_jet_data on the same rows "
                "with LF line ends / blanks around the fields / through a copied reader / by relative name)")
    ctx.cov["source_sha"] = common.region_hash(common.read_src("JetAnalysis.py"))
    ctx.cov["source_regions"] = source_regions()  # information only: the tie is the correspondence, not these hashes
    ctx.assumptions.append("fastjet (clustering, inclusive_jets(ptmin) as filter pt>=ptmin, SelectorEtaRange closed window, "
                           "eta/phi/perp/delta_phi_to) is a parameter of the model; its values are taken from the real "
                           "library per case and the filter contract is checked per case")
    ctx.assumptions.append("csv writer/reader and float(str(x)) == x round trip; NaN status raises ValueError (modelled), "
                           "NaN pdg / explicit inf or NaN cut values are outside the generated inputs")
    lines, meta = [], []
    # --- parameter normalisation
    vals = [None, 0.0, 0.5, 1.0, 2.0, -1.0, -2.5, 10.0, 30.0]
    for _ in range(ctx.n(40, 400)):
        R = rng.choice([0.4, 1.0, 0.0, -0.3, rng.uniform(0.05, 2.0)])
        eta = (rng.choice(vals), rng.choice(vals))
        pt = (rng.choice(vals), rng.choice(vals))
        for op in ("norm", "gnorm"):
            lines.append("\t".join([op, f2h(R), _opt(eta[0]), _opt(eta[1]), _opt(pt[0]), _opt(pt[1])]))
            meta.append((op, (R, eta, pt)))
    # --- reader
    for _ in range(ctx.n(40, 400)):
        n = rng.randint(0, 12)
        mode = rng.choice(["wf", "wf", "any"])
        idxs, i = [], 0
        for k in range(n):
            if mode == "any":
                idxs.append(rng.choice([0, 0, 1, 2, 3, 7]))
            else:
                i = 0 if (k == 0 or rng.random() < 0.4) else i + 1
                idxs.append(i)
        for op in ("read", "gread"):
            lines.append(op + "\t" + (";".join(map(str, idxs)) or "."))
            meta.append((op, idxs))
    # --- whole calls
    nrun = ctx.n(120, 2500)
    for k in range(nrun):
        inp, info = gen_input(rng)
        if k % 25 == 7 and inp["events"] and inp["events"][-1]:
            inp["events"][-1][0]["status"] = None  # unset status: raises once a jet of that event is looked at
            info["tags"].append("nan-status")
        annotate_charged(inp)
        clusters = [cluster_all(ev, inp["alg"], inp["R"]) for ev in inp["events"]]
        norm = py_normalise(inp["eta"], inp["pt"])
        if not all(contract_ok(ev, inp["alg"], inp["R"], norm, js) for ev, js in zip(inp["events"], clusters)):
            ctx.count("fastjet-filter-contract-miss (case skipped)")
            continue
        lines.append(run_line(inp, clusters))
        meta.append(("run", (inp, info, clusters)))
        lines.append(grun_line(inp, clusters))
        meta.append(("grun", (inp, info, clusters)))
        if k % 4 == 0:
            try:
                for l, m in method_cases(rng, inp, clusters):
                    lines.append(l)
                    meta.append(m)
            except MethodGone as e:
                ctx.count("generated-method-op skipped: " + str(e))
    # --- call histories on one long-lived JetAnalysis object: every call against the model run on the CURRENT content
    for k in range(ctx.n(30, 400)):
        sess = gen_session(rng)
        res = run_session(sess, judge_steps=False)
        for i, step in enumerate(res or []):
            inp = step["inp"]
            annotate_charged(inp)
            clusters = [cluster_all(ev, inp["alg"], inp["R"]) for ev in inp["events"]]
            norm = py_normalise(inp["eta"], inp["pt"])
            if not all(contract_ok(ev, inp["alg"], inp["R"], norm, js) for ev, js in zip(inp["events"], clusters)):
                ctx.count("fastjet-filter-contract-miss (case skipped)")
                continue
            st = sess["steps"][i]
            info = dict(prior="absent" if inp["prior"] is None else "rows" if inp["prior"] else "empty",
                        tags=["session-call=%d" % min(i + 1, 4)] + (["list=" + st["data"]] if i else [])
                        + ["change=" + op[0] for op in st["mut"]])
            lines.append(run_line(inp, clusters))
            meta.append(("run", (inp, info, clusters, (step["outcome"], step["real"]),
                                 dict(base=sess["base"], steps=sess["steps"][:i + 1]))))
            lines.append(grun_line(inp, clusters))
            meta.append(("grun", (inp, info, clusters, (step["outcome"], step["real"]),
                                  dict(base=sess["base"], steps=sess["steps"][:i + 1]))))
    lines.append("glayout")
    meta.append(("glayout", None))
    outs = common.run_driver("C20", lines)
    bad_runs = []
    last_real = [None]
    for (kind, data), out in zip(meta, outs):
        if kind in ("norm", "gnorm"):
            _corr_norm(ctx, data, out, gen=kind == "gnorm")
        elif kind in ("read", "gread"):
            _corr_read(ctx, data, out, gen=kind == "gread")
        elif kind == "grun":
            _corr_grun(ctx, data, out, last_real[0])
        elif kind == "glayout":
            ctx.count("generated/layout")
            if out != GLAYOUT:
                _brk(ctx, f"row layout / reader conversions of the GENERATED model: {out} vs documented layout {GLAYOUT}", dict(op="glayout"))
        elif kind == "gmethod":
            _corr_gmethod(ctx, data, out)
        else:
            before = ctx.hist.get("correspondence-disagreements", 0)
            last_real[0] = _corr_run(ctx, data, out)
            if ctx.hist.get("correspondence-disagreements", 0) > before and len(data) == 3:
                bad_runs.append(data)
    if bad_runs:
        _diagnose(ctx, bad_runs[:25])


def _diagnose(ctx, bad_runs):
    """which text of the code do the disagreeing cases match? (diagnostic note only)"""
    names = {"asfound": "the text as found (no truncation before the loop, holes looked up with assoc_only_charged)",
             "ft": "no truncation before the loop, holes looked up with only_charged=False (only repair 2 applied)",
             "tt": "file emptied before the loop, holes looked up with assoc_only_charged (only repair 1 applied)"}
    for v, descr in names.items():
        outs = common.run_driver("C20", [run_line(inp, cl, v) for inp, _, cl in bad_runs])
        ok = True
        for (inp, _, _), out in zip(bad_runs, outs):
            outcome, real, _p = real_run(inp)
            if out.startswith("ok "):
                ok = ok and outcome == "ok" and rows_match(real, parse_rows(out.split()[1]), inp) is None
            else:
                ok = ok and outcome == out
        if ok:
            ctx.notes.append(f"all {len(bad_runs)} re-examined disagreeing cases agree with the model variant '{v}': {descr}")
            ctx.cov["code_matches_variant"] = v
            return
    ctx.notes.append("the disagreeing cases match none of the modelled texts (repaired / as found / one repair only)")


def _ext(s):
    return -INF if s == "-inf" else INF if s == "+inf" else h2f(s)


def _corr_norm(ctx, data, out, gen=False):
    from sparkx.JetAnalysis import JetAnalysis
    R, eta, pt = data
    ja = JetAnalysis()
    try:
        ja._JetAnalysis__initialize_and_check_parameters([], R, eta, pt)
        real = "ok %r %r %r" % (ja.jet_R_, tuple(map(float, ja.jet_eta_range_)), tuple(map(float, ja.jet_pT_range_)))
    except ValueError:
        real = "err value"
    if out.startswith("ok "):
        f = out.split()
        mod = "ok %r %r %r" % (h2f(f[1]), (_ext(f[2]), _ext(f[3])), (_ext(f[4]), _ext(f[5])))
    else:
        mod = out
    swapped = (eta[0] is not None and eta[1] is not None and eta[0] > eta[1]) or \
              (pt[0] is not None and pt[1] is not None and pt[0] > pt[1])
    if gen:
        ctx.case(("gnorm", R, eta, pt), False)
        ctx.count("generated/norm")
        if real != mod:
            _brk(ctx, f"parameter normalisation R={R} eta={eta} pt={pt}: code {real} vs GENERATED model {mod}",
                 dict(op="gnorm", R=R, eta=eta, pt=pt))
        return
    ctx.case(("norm", R, eta, pt), swapped or None in eta or None in pt,
             sample=_sample(ctx, "norm", dict(op="norm", R=R, eta=eta, pt=pt, code=real, model=mod)))
    ctx.count("norm/" + ("err" if real.startswith("err") else "swapped" if swapped else "plain"))
    if real != mod:
        _brk(ctx, f"parameter normalisation R={R} eta={eta} pt={pt}: code {real} vs model {mod}",
             dict(op="norm", R=R, eta=eta, pt=pt))


def _corr_read(ctx, idxs, out, gen=False):
    from sparkx.JetAnalysis import JetAnalysis
    path = os.path.join(_tmpdir(), "read.csv")
    rows = [[i, 1.0 + k, 0.5, 0.25, 10 if i == 0 else 27, 10 if i == 0 else 211, 2.0 + k, 3] for k, i in enumerate(idxs)]
    # round 4: the same rows with LF / CRLF line ends, blanks around the fields, a copied reader object, a bare relative
    # file name after chdir (decided by the case itself, so that model and generated model see the same variant)
    flavour = (len(idxs) + sum(idxs)) % 6
    buf = io.StringIO(newline="")
    csv.writer(buf, lineterminator="\n" if flavour in (1, 4) else "\r\n").writerows(rows)
    txt = buf.getvalue()
    if flavour in (2, 4):
        txt = "".join(" , ".join(l.rstrip("\r\n").split(",")) + " " + l[len(l.rstrip("\r\n")):] for l in txt.splitlines(keepends=True))
    with open(path, "w", newline="") as f:
        f.write(txt)
    ja = JetAnalysis()
    if flavour in (3, 5):
        ja.read_jet_data(path)
        ja = COPIERS[["copy", "deepcopy", "pickle"][len(idxs) % 3]](ja)
    if flavour == 5:
        old = os.getcwd()
        os.chdir(_tmpdir())
        try:
            ja.read_jet_data("read.csv")
        finally:
            os.chdir(old)
    else:
        ja.read_jet_data(path)
    real_groups = ja.jet_data_
    real = "ok " + (";".join(str(len(g)) for g in real_groups) or ".")
    flat = [r for g in real_groups for r in g]
    if gen:
        ctx.case(("gread", tuple(idxs)), False)
        ctx.count("generated/read")
        if real != out:
            _brk(ctx, f"read_jet_data on first column {idxs}: code {real} vs GENERATED model {out}", dict(op="gread", first_column=idxs))
        return
    ctx.case(("read", tuple(idxs)), len(real_groups) >= 2,
             sample=_sample(ctx, "read", dict(op="read", first_column=idxs, code=real, model=out)))
    ctx.count("read/groups=%d" % min(len(real_groups), 4))
    if real != out or flat != rows:
        _brk(ctx, f"read_jet_data on first column {idxs}: code {real} vs model {out}", dict(op="read", first_column=idxs))


def classify(inp, info, clusters, model_rows):
    pr = prior_rows(inp)
    written = [r for r in (model_rows or []) if r[0] == "J"]
    t = []
    t.append("prior=" + info["prior"])
    t.append("events=%d" % len(inp["events"]))
    norm = py_normalise(inp["eta"], inp["pt"])
    sel = [[j for j in js if norm[1][0] <= j["pt"] and norm[0][0] <= j["eta"] <= norm[0][1]] for js in clusters]
    nsel = sum(len(s) for s in sel)
    if sel and not sel[0] and nsel:
        t.append("first-event-jetless")
    if not nsel:
        t.append("no-selected-jets")
    if nsel > len(written):
        t.append("upper-cut-omits")
    holes = neutral_holes = False
    for ev, s in zip(inp["events"], sel):
        for j in s:
            for d, dr in zip(ev, j["dr"]):
                if d["status"] is not None and d["status"] < 0 and dr < inp["R"]:
                    holes = True
                    if not d["_charged"]:
                        neutral_holes = True
    if holes:
        t.append("holes")
    if neutral_holes and inp["only_charged"]:
        t.append("neutral-hole+charged-only")
    t.extend(info["tags"])
    nontrivial = bool(written) and (bool(pr) or "first-event-jetless" in t or holes or "upper-cut-omits" in t)
    return t, nontrivial


def _corr_run(ctx, data, out):
    inp, info, clusters = data[:3]
    session = data[4] if len(data) > 3 else None
    if session is None:
        outcome, real, _ = real_run(inp)
    else:
        outcome, real = data[3]  # what the long-lived object wrote for this call of its history
    if out.startswith("ok "):
        f = out.split()
        model_rows, spec_rows = parse_rows(f[1]), parse_rows(f[2])
    else:
        model_rows = spec_rows = None
    tags, nontrivial = classify(inp, info, clusters, model_rows)
    for t in tags:
        ctx.count("run/" + t)
    ctx.count("run/alg=" + inp["alg"])
    ctx.count("run/outcome=" + outcome)
    small = len(json.dumps(strip(inp))) < 2500
    if session is None:
        ctx.case(canon(inp), nontrivial and outcome == "ok",
                 sample=dict(op="run", input=strip(inp), tags=tags, code_rows=real, model=out) if (small and nontrivial) else None)
        case = dict(op="run", input=strip(inp))
        who = "code"
    else:
        ncall = len(session["steps"])
        ctx.case(("session", json.dumps(session, sort_keys=True)), ncall >= 2 and bool(model_rows) and outcome == "ok")
        case = dict(op="session", input=session, call=ncall)
        who = f"code (call {ncall} on one JetAnalysis object, list object: {session['steps'][-1]['data']})"
    if outcome != "ok" or not out.startswith("ok "):
        if not (outcome == out):
            _brk(ctx, f"outcome: {who} '{outcome}' vs model '{out[:60]}' (tags {tags})", case)
        return outcome, real, tags, case, who
    d = rows_match(real, model_rows, inp)
    if d:
        _brk(ctx, f"output file, {who} vs model ({tags}): {d}", case)
        return outcome, real, tags, case, who
    d = rows_match(real, spec_rows, inp)
    if d:
        _brk(ctx, f"output file, {who} vs executable Lean specification ({tags}): {d}", case)
    return outcome, real, tags, case, who


def _corr_grun(ctx, data, out, last):
    """the same call through `genPerform` (regenerated from the current source, evaluated at Float)"""
    inp = data[0]
    outcome, real, tags, case, who = last
    ctx.evaluations += 1
    ctx.count("generated/run")
    case = dict(case, op="g" + case["op"])
    if outcome != "ok" or not out.startswith("ok "):
        if outcome != out:
            _brk(ctx, f"outcome: {who} '{outcome}' vs GENERATED model '{out[:60]}' (tags {tags})", case)
        return
    d = rows_match(real, parse_rows(out.split()[1]), inp)
    if d:
        _brk(ctx, f"output file, {who} vs GENERATED model ({tags}): {d}", case)


# ------------------------------------------------------------------ generated functions, method by method
GLAYOUT = ("ok nat:0;perp:1.000000,2.000000,3.000000,4.000000;eta:1.000000,2.000000,3.000000,4.000000;"
           "phi:1.000000,2.000000,3.000000,4.000000;nat:10;nat:10;val:4.000000;nat:7 "
           "nat:5;perp:5.000000,6.000000,7.000000,8.000000;eta:5.000000,6.000000,7.000000,8.000000;"
           "phi:5.000000,6.000000,7.000000,8.000000;status:27;pdgof:3;val:8.000000;nat:7 "
           "int:0;float:1;float:2;float:3;int:4;int:5;float:6;int:7")


class MethodGone(Exception):
    pass


def enc_parts(ev):
    return ";".join("%s,%s,%s,%s,%s,%s" % ("nan" if d["status"] is None else d["status"], "t" if d["_charged"] else "f",
                                            f2h(d["px"]), f2h(d["py"]), f2h(d["pz"]), f2h(d["E"])) for d in ev) or "."


def _ja_for(events, R):
    """a JetAnalysis object whose attributes are set as perform_jet_finding sets them (public attributes only)"""
    from sparkx.JetAnalysis import JetAnalysis
    ja = JetAnalysis()
    ja.hadron_data_ = events
    ja.jet_R_ = R
    ja.jet_eta_range_ = (-INF, INF)
    ja.jet_pT_range_ = (0.0, INF)
    return ja


def method_cases(rng, inp, clusters):
    """driver lines for the GENERATED functions together with what the real methods return on the same arguments"""
    import numpy as np
    fj = _fj()
    out = []
    events = mk_events(inp)
    cands = [i for i, ev in enumerate(inp["events"]) if ev]
    if not cands:
        return out
    i = rng.choice(cands)
    ev, parts = inp["events"][i], events[i]
    ja = _ja_for(events, inp["R"])
    for name in ("create_fastjet_PseudoJets", "fill_associated_particles", "jet_hole_subtraction", "write_jet_output"):
        if not callable(getattr(ja, name, None)):
            raise MethodGone(name)
    # create_fastjet_PseudoJets
    pjs = ja.create_fastjet_PseudoJets(parts)
    out.append(("gpj\t" + enc_parts(ev), ("gmethod", ("gpj", "ok " + (";".join(",".join(f2h(x) for x in (p.px(), p.py(), p.pz(), p.e())) for p in pjs) or "."),
                                                       dict(op="gpj", event=strip(dict(inp, events=[ev]))["events"][0])))))
    if any(d["status"] is None for d in ev):
        nan = True
    else:
        nan = False
    cs = fj.ClusterSequence(pjs, _jetdef(inp["alg"], inp["R"]))
    jets = fj.sorted_by_pt(cs.inclusive_jets(0.0))
    for jet, jd in list(zip(jets, clusters[i]))[:2]:
        if (jet.px(), jet.py(), jet.pz(), jet.e()) != (jd["px"], jd["py"], jd["pz"], jd["E"]):
            continue
        # delta_r expression: generated formula on fastjet's eta / delta_phi_to against the value the model is handed
        for pj, dr in list(zip(pjs, jd["dr"]))[:6]:
            ep, ej, dp = pj.eta(), jet.eta(), pj.delta_phi_to(jet)
            if all(math.isfinite(x) for x in (ep, ej, dp, dr)):
                out.append(("\t".join(["gdr", f2h(ep), f2h(ej), f2h(dp)]), ("gmethod", ("gdr", dr, dict(op="gdr", etaP=ep, etaJ=ej, dphi=dp)))))
        for sel, only in (("negative", False), ("positive", inp["only_charged"]), ("positive", not inp["only_charged"]), ("negative", True)):
            try:
                got = ja.fill_associated_particles(jet, i, status_selection=sel, only_charged=only)
                real = "ok " + (";".join(str(next(k for k, p in enumerate(parts) if p is q)) for q in got) or ".")
            except ValueError:
                real = "err value"
            out.append(("\t".join(["gfill", f2h(inp["R"]), sel[:3], "t" if only else "f", enc_parts(ev), ":".join(f2h(x) for x in jd["dr"]) or "."]),
                        ("gmethod", ("gfill", real, dict(op="gfill", event=strip(dict(inp, events=[ev]))["events"][0], R=inp["R"], sel=sel,
                                                         only_charged=only, jet=[jd[k] for k in ("px", "py", "pz", "E")])))))
        if nan:
            continue
        holes = [k for k, (d, dr) in enumerate(zip(ev, jd["dr"])) if d["status"] < 0 and dr < inp["R"]]
        if rng.random() < 0.3:
            holes = [k for k in range(len(ev)) if rng.random() < 0.4]
        pj = fj.PseudoJet(jd["px"], jd["py"], jd["pz"], jd["E"])
        res = ja.jet_hole_subtraction(pj, [parts[k] for k in holes])
        if res is not pj:
            pj = res
        out.append(("\t".join(["gsub", ",".join(f2h(jd[k]) for k in ("px", "py", "pz", "E")), enc_parts([ev[k] for k in holes])]),
                    ("gmethod", ("gsub", "ok " + ",".join(f2h(x) for x in (pj.px(), pj.py(), pj.pz(), pj.e())),
                                 dict(op="gsub", jet=[jd[k] for k in ("px", "py", "pz", "E")], holes=[strip(dict(inp, events=[[ev[k]]]))["events"][0][0] for k in holes])))))
        # write_jet_output on the subtracted jet, with an upper bound that is sometimes exactly its pT
        assoc = [k for k in range(len(ev)) if rng.random() < 0.5][:4]
        hi = rng.choice([INF, pj.perp(), pj.perp() * 2 + 1.0, pj.perp() / 2])
        nf = rng.random() < 0.5
        sub = dict(inp, prior=gen_prior(rng)[0])
        path = os.path.join(_tmpdir(), "w.csv")
        if os.path.exists(path):
            os.remove(path)
        if sub["prior"] is not None:
            with open(path, "w", newline="") as f:
                f.write(sub["prior"])
        ja.jet_pT_range_ = (0.0, hi)
        ret = ja.write_jet_output(path, pj, [parts[k] for k in assoc], i, nf)
        ja.jet_pT_range_ = (0.0, INF)
        real_rows = read_rows(path)
        # the generated function numbers the given particles 0..; `sub` maps them back to the event
        sub_inp = dict(sub, events=[[]] * i + [[ev[k] for k in assoc]])
        out.append(("\t".join(["gwrite", "+inf" if hi == INF else f2h(hi), enc_prior(sub), "t" if nf else "f", str(i),
                               ",".join(f2h(x) for x in (pj.px(), pj.py(), pj.pz(), pj.e())), enc_parts([ev[k] for k in assoc])]),
                    ("gmethod", ("gwrite", (real_rows, ret, sub_inp),
                                 dict(op="gwrite", upper=hi, new_file=nf, event=i, prior=sub["prior"])))))
    return out


def _corr_gmethod(ctx, data, out):
    op, real, case = data
    ctx.evaluations += 1
    ctx.count("generated/" + op)
    if op == "gdr":
        if not out.startswith("ok "):
            return _brk(ctx, f"delta_r through the GENERATED expression: {out}", case)
        v = h2f(out.split()[1])
        if not (v == real or abs(v - real) <= 4e-16 * max(abs(v), abs(real))):
            _brk(ctx, f"delta_r: GENERATED expression gives {v!r}, the code's formula (as the model is handed it) {real!r}", case)
        return
    if op == "gwrite":
        rows, ret, sub_inp = real
        if not out.startswith("ok "):
            return _brk(ctx, f"write_jet_output through the GENERATED function: {out}", case)
        f = out.split()
        d = rows_match(rows, parse_rows(f[1]), sub_inp)
        if d or (f[2] == "t") != bool(ret):
            _brk(ctx, f"write_jet_output, code vs GENERATED function (upper bound {case['upper']}, new_file {case['new_file']}): "
                      f"{d or 'returned flag %r vs %s' % (ret, f[2])}", case)
        return
    if out != real:
        _brk(ctx, f"{op}: code {real[:200]} vs GENERATED function {out[:200]}", case)


# ------------------------------------------------------------------ oracle on the real code (independent reference)
AMBIG = 1e-9


def _eta_phi(px, py, pz):
    pt = math.hypot(px, py)
    phi = math.atan2(py, px)
    if phi < 0:
        phi += 2 * math.pi
    return pt, (math.asinh(pz / pt) if pt > 0 else (1e5 if pz >= 0 else -1e5)), phi


def ref_groups(inp, holes_charged_only=False):
    """groups of rows the property demands, or ('ambiguous', why).  Uses fastjet only for the clustering itself."""
    fj = _fj()
    (elo, ehi), (plo, phi_hi) = py_normalise(inp["eta"], inp["pt"])
    R = inp["R"]
    groups = []
    for iev, ev in enumerate(inp["events"]):
        if any(d["status"] is None for d in ev):
            return ("ambiguous", "unset status (documented precondition)")
        pjs = [fj.PseudoJet(d["px"], d["py"], d["pz"], d["E"]) for d in ev]
        cs = fj.ClusterSequence(pjs, _jetdef(inp["alg"], R))
        for jet in fj.sorted_by_pt(cs.inclusive_jets(plo)):
            jeta, jphi = jet.eta(), jet.phi()
            if not (elo <= jeta <= ehi):
                continue
            holes, assoc = [], []
            for d in ev:
                ppt, peta, pphi = _eta_phi(d["px"], d["py"], d["pz"])
                dphi = (pphi - jphi + math.pi) % (2 * math.pi) - math.pi
                dr = math.hypot(peta - jeta, dphi)
                if abs(dr - R) < AMBIG:
                    # exactly on the cone: fastjet's own azimuth difference is 0.0 and its pseudorapidity difference is R
                    # bit for bit, so Delta R == R with no rounding involved and `Delta R < R` is false
                    if pjs[ev.index(d)].delta_phi_to(jet) == 0.0 and abs(pjs[ev.index(d)].eta() - jeta) == R:
                        continue
                    return ("ambiguous", "Delta R within 1e-9 of R")
                if dr < R:
                    charged = not (d["charge"] == 0)
                    if d["status"] < 0:
                        if charged or not holes_charged_only:
                            holes.append(d)
                    elif charged or not inp["only_charged"]:
                        assoc.append((ppt, peta, pphi, d))
            px = jet.px() - math.fsum(h["px"] for h in holes)
            py = jet.py() - math.fsum(h["py"] for h in holes)
            pz = jet.pz() - math.fsum(h["pz"] for h in holes)
            E = jet.e() - math.fsum(h["E"] for h in holes)
            pt, eta, phi = _eta_phi(px, py, pz)
            if holes and pt < 1e-6 * jet.perp():
                return ("ambiguous", "jet consists of holes only: the subtracted momentum is rounding noise")
            if len(holes) <= 1:
                # at most one hole: `0.0 + h` and `jet - h` are exact replays of the only possible operation order,
                # so the comparison with the upper bound is decided on fastjet's own perp() without a grey zone
                if fj.PseudoJet(px, py, pz, E).perp() >= phi_hi:
                    continue
            else:
                if phi_hi != INF and abs(pt - phi_hi) <= AMBIG * max(1.0, phi_hi):
                    return ("ambiguous", "subtracted pT within 1e-9 of the upper bound")
                if pt >= phi_hi:
                    continue
            g = [[0, pt, eta, phi, 10, 10, E, iev]]
            for i, (ppt, peta, pphi, d) in enumerate(assoc, start=1):
                g.append([i, ppt, peta, pphi, d["status"], d["pdg"], d["E"], iev])
            groups.append(g)
    return groups


def _row_close(r, e):
    """real csv row (str) vs expected values"""
    if len(r) != 8:
        return False
    try:
        ints = [int(r[0]), int(r[4]), int(r[5]), int(r[7])]
        fl = [float(r[1]), float(r[2]), float(r[3]), float(r[6])]
    except ValueError:
        return False
    if ints != [e[0], e[4], e[5], e[7]]:
        return False
    for a, b, kind in zip(fl, [e[1], e[2], e[3], e[6]], "pepE"):
        if kind == "p" and abs(a - b) > 1e-7 * max(1.0, abs(b)):
            return False
        if kind == "e" and abs(a - b) > 1e-7 * max(1.0, abs(b)) and abs(b) < 1e4:
            return False
        if kind == "E" and abs(a - b) > 1e-7 * max(1.0, abs(b)):
            return False
    # azimuth compared modulo 2 pi
    dphi = abs(fl[2] - e[3]) % (2 * math.pi)
    return min(dphi, 2 * math.pi - dphi) < 1e-6


def _rows_close(real, exp):
    return len(real) == len(exp) and all(_row_close(r, e) for r, e in zip(real, exp))


def oracle_check(inp):
    """None, ('ambiguous', why) or (key, what, detail): the property checked on the real code (fresh JetAnalysis
    object, fresh list of fresh particles, own output path)."""
    ref = ref_groups(inp)
    if isinstance(ref, tuple):
        return ref
    outcome, real, path = real_run(inp)
    leaks = list(real_run.leaks)
    r = judge(inp, outcome, real, path, ref=ref)
    if r is None and leaks:
        return ("global-state-changed", "perform_jet_finding did not leave " + ", ".join(leaks) + " as it found it",
                dict(changed=leaks))
    return r


def judge(inp, outcome, real, path, ref=None, reader=None):
    """the property for ONE call: `inp` = what the call was given (current content of the events, parameters, what the
    output file held before), `outcome`/`real`/`path` = what the real code did.  `reader` = the JetAnalysis object whose
    read_jet_data is to be used (a fresh one when None)."""
    if ref is None:
        ref = ref_groups(inp)
    if isinstance(ref, tuple):
        return ref
    if outcome != "ok":
        return ("call-raises", f"perform_jet_finding raised ({outcome}) on valid input", dict(outcome=outcome))
    exp = [r for g in ref for r in g]
    pr = prior_rows(inp)
    has_jetless_first = bool(inp["events"]) and bool(exp) and exp[0][7] != 0
    if real is None:
        return ("no-output-file/no-jets", "the call found no jets and left no output file at all (read_jet_data raises "
                "FileNotFoundError); expected an empty file", dict(expected_rows=0, observed="file absent"))
    if not _rows_close(real, exp):
        if pr and real[:len(pr)] == pr and _rows_close(real[len(pr):], exp):
            if not exp:
                return ("stale-file/no-jets", f"the call found no jets and left the {len(pr)} rows of the previous content in the "
                        "output file; expected an empty file", dict(expected_rows=0, observed_rows=len(real)))
            return ("stale-file/jetless-first-event" if has_jetless_first else "stale-file/other",
                    f"the output file still starts with the {len(pr)} rows it held before the call, followed by this "
                    f"call's {len(exp)} rows (first event without jets: new_file is only honoured for event 0)",
                    dict(expected_rows=len(exp), observed_rows=len(real), first_observed=real[0]))
        alt = ref_groups(inp, holes_charged_only=True)
        if inp["only_charged"] and not isinstance(alt, tuple):
            altrows = [r for g in alt for r in g]
            tail = real[len(pr):] if (pr and real[:len(pr)] == pr) else real
            if _rows_close(tail, altrows) or _rows_close(real, altrows):
                k = next((i for i, (r, e) in enumerate(zip(tail if len(tail) == len(exp) else real, exp)) if not _row_close(r, e)), None)
                return ("holes/neutral-not-subtracted-charged-only",
                        "with assoc_only_charged=True the neutral negative-status particles inside the cone are not subtracted "
                        "from the jet momentum", dict(row=k, expected=exp[k] if k is not None and k < len(exp) else None,
                                                      observed=(tail if len(tail) == len(exp) else real)[k] if k is not None else None))
        k = next((i for i, (r, e) in enumerate(zip(real, exp)) if not _row_close(r, e)), min(len(real), len(exp)))
        return ("rows-mismatch", f"output file differs from the jets of this call at row {k} "
                f"({len(real)} rows written, {len(exp)} expected)",
                dict(row=k, expected=exp[k] if k < len(exp) else None, observed=real[k] if k < len(real) else None))
    # reader: what was written, grouped jet by jet
    from sparkx.JetAnalysis import JetAnalysis
    ja = reader if reader is not None else JetAnalysis()
    try:
        ja.read_jet_data(path)
    except Exception as e:  # noqa: BLE001
        return ("reader-raises", f"read_jet_data raised {type(e).__name__} on the file just written", dict(error=str(e)))
    want, k = [], 0
    for g in ref:
        want.append([[int(r[0]), float(r[1]), float(r[2]), float(r[3]), int(r[4]), int(r[5]), float(r[6]), int(r[7])]
                     for r in real[k:k + len(g)]])
        k += len(g)
    if ja.jet_data_ != want or ja.get_jets() != [g[0] for g in want] or ja.get_associated_particles() != [g[1:] for g in want]:
        return ("reader-grouping", "read_jet_data / get_jets / get_associated_particles do not return the written rows grouped jet by jet",
                dict(expected_group_sizes=[len(g) for g in want], observed_group_sizes=[len(g) for g in ja.jet_data_]))
    tv = (inp.get("variant") or {}).get("text")
    if tv:
        # the same rows with LF line ends / blanks around the fields (both accepted by csv + int()/float()): same groups
        with open(path, "r", newline="") as f:
            txt = f.read()
        if "blanks" in tv:
            txt = "".join(" , ".join(l.rstrip("\r\n").split(",")) + "  " + l[len(l.rstrip("\r\n")):] for l in txt.splitlines(keepends=True))
        if "lf" in tv:
            txt = txt.replace("\r\n", "\n")
        p2 = path + ".text-variant.csv"
        with open(p2, "w", newline="") as f:
            f.write(txt)
        jb = JetAnalysis()
        try:
            jb.read_jet_data(p2)
        except Exception as e:  # noqa: BLE001
            return ("reader-raises/text-variant", f"read_jet_data raised {type(e).__name__} on the written rows with {tv}", dict(error=str(e)))
        finally:
            os.remove(p2)
        if jb.jet_data_ != want:
            return ("reader-grouping/text-variant", f"read_jet_data returns other groups for the same rows with {tv}",
                    dict(expected_group_sizes=[len(g) for g in want], observed_group_sizes=[len(g) for g in jb.jet_data_]))
    return None


def is_violation(r):
    return r is not None and r[0] != "ambiguous"


def shrink(inp, key):
    cur = strip(inp)

    def still(c):
        r = oracle_check(c)
        return is_violation(r) and r[0] == key

    changed = True
    while changed:
        changed = False
        for i in range(len(cur["events"])):
            # empty an event (keeps positions) or drop it
            for cand_events in (cur["events"][:i] + cur["events"][i + 1:],
                                cur["events"][:i] + [[]] + cur["events"][i + 1:] if cur["events"][i] else None):
                if cand_events is None:
                    continue
                c = dict(cur, events=cand_events)
                if still(c):
                    cur, changed = c, True
                    break
            if changed:
                break
        if changed:
            continue
        for i in range(len(cur["events"])):
            for j in range(len(cur["events"][i])):
                ev = cur["events"][i]
                c = dict(cur, events=cur["events"][:i] + [ev[:j] + ev[j + 1:]] + cur["events"][i + 1:])
                if still(c):
                    cur, changed = c, True
                    break
            if changed:
                break
        if not changed and cur.get("variant"):
            for k_ in sorted(cur["variant"]):
                c = dict(cur, variant={a: b for a, b in cur["variant"].items() if a != k_} or None)
                if still(c):
                    cur, changed = c, True
                    break
        if not changed and cur["prior"] is not None:
            lines = cur["prior"].splitlines(keepends=True)
            for cand in ([None, ""] if cur["prior"] != "" else [None]) + ([lines[0]] if len(lines) > 1 else []):
                c = dict(cur, prior=cand)
                if still(c):
                    cur, changed = c, True
                    break
    return cur


# ------------------------------------------------------------------ sessions: one long-lived JetAnalysis object
# A session = initial content `base` (events as lists of particle dicts) + `steps`.  Every step first changes the
# data THROUGH THE PUBLIC API of list / Particle (`mut`), then hands the events to perform_jet_finding of the SAME
# JetAnalysis object as `data`: "same" (the very list object of the previous call, changed in place), "new" (new list of
# new particles with the current content) or "new-outer" (new outer list holding the same event lists).  Parameters,
# the output path ("a"/"b" inside one scratch directory; re-used paths hold the previous call's output unless `pre`
# rewrites or deletes the file) and `read` (read_jet_data on the same object afterwards) vary from step to step.
# After every call the file is judged against the reference for the CURRENT content (`judge`); the harness keeps a
# dict mirror of the content, so nothing is taken from the object under test.
MUT_KINDS = ["replace_event", "append_particle", "remove_particle", "swap_events", "set_mom", "set_status", "set_charge",
             "append_event", "remove_event"]


def apply_mut(content, live, op):
    """apply one mutation to the dict mirror and (when given) to the live list of lists of Particle, in place.
    Returns False when the operation does not fit the current content (used by the shrinker)."""
    try:
        k = op[0]
        if k == "replace_event":
            _, i, ev = op
            if not 0 <= i < len(content):
                return False
            content[i] = copy.deepcopy(ev)
            if live is not None:
                live[i] = [mk_particle(d) for d in ev]
        elif k == "append_event":
            content.append(copy.deepcopy(op[1]))
            if live is not None:
                live.append([mk_particle(d) for d in op[1]])
        elif k == "remove_event":
            if not 0 <= op[1] < len(content):
                return False
            del content[op[1]]
            if live is not None:
                del live[op[1]]
        elif k == "swap_events":
            _, i, j = op
            if not (0 <= i < len(content) and 0 <= j < len(content)):
                return False
            content[i], content[j] = content[j], content[i]
            if live is not None:
                live[i], live[j] = live[j], live[i]
        elif k == "append_particle":
            _, i, d = op
            if not 0 <= i < len(content):
                return False
            content[i].append(dict(d))
            if live is not None:
                live[i].append(mk_particle(d))
        elif k == "remove_particle":
            _, i, j = op
            if not (0 <= i < len(content) and 0 <= j < len(content[i])):
                return False
            del content[i][j]
            if live is not None:
                del live[i][j]
        elif k in ("set_mom", "set_status", "set_charge"):
            _, i, j, v = op
            if not (0 <= i < len(content) and 0 <= j < len(content[i])):
                return False
            if k == "set_mom":
                content[i][j].update(px=v[0], py=v[1], pz=v[2], E=v[3])
                if live is not None:
                    q = live[i][j]
                    q.px, q.py, q.pz, q.E = v
            elif k == "set_status":
                content[i][j]["status"] = v
                if live is not None:
                    live[i][j].status = float("nan") if v is None else v
            else:
                content[i][j]["charge"] = v
                if live is not None:
                    live[i][j].charge = v
        else:
            return False
        return True
    except (IndexError, KeyError, TypeError, ValueError):
        return False


def gen_params(rng):
    return dict(R=rng.choice([0.2, 0.4, 0.4, 0.7, 1.0, rng.uniform(0.15, 1.2)]),
                alg=rng.choice(["antikt", "antikt", "antikt", "kt", "cambridge", "genkt"]),
                eta=list(rng.choice(ETA_CHOICES[:5])), pt=list(rng.choice(PT_CHOICES)), only_charged=rng.random() < 0.6)


def gen_mutation(rng, content):
    """one in-place change of the current content, biased towards events that can hold jets"""
    big = [i for i, ev in enumerate(content) if len(ev) >= 3]
    anyev = list(range(len(content)))
    kind = rng.choice(MUT_KINDS + ["replace_event", "append_particle", "remove_particle", "set_mom"])
    if not anyev:
        kind = "append_event"
    pick = (lambda: rng.choice(big) if big and rng.random() < 0.85 else rng.choice(anyev))
    if kind == "replace_event":
        return ["replace_event", pick(), gen_event(rng, rng.choice(["jets", "jets", "jets", "soft", "empty", "outside"]))]
    if kind == "append_event":
        return ["append_event", gen_event(rng, rng.choice(["jets", "jets", "soft", "empty"]))]
    if kind == "remove_event":
        return ["remove_event", rng.choice(anyev)]
    if kind == "swap_events":
        if len(anyev) < 2:
            return ["append_event", gen_event(rng, "jets")]
        i, j = rng.sample(anyev, 2)
        return ["swap_events", i, j]
    i = pick()
    ev = content[i]
    if kind == "append_particle" or not ev:
        if ev and rng.random() < 0.8:  # next to an existing particle: probably inside a cone
            d = rng.choice(ev)
            pt_, eta_, phi_ = _eta_phi(d["px"], d["py"], d["pz"])
            return ["append_particle", i, _particle(rng, rng.uniform(0.5, 15.0), eta_ + rng.uniform(-0.2, 0.2),
                                                    phi_ + rng.uniform(-0.2, 0.2), rng.choice([0, 1, 27, -1, -11]),
                                                    rng.choice([0, 1, -1]))]
        return ["append_particle", i, _particle(rng, rng.uniform(0.5, 30.0), rng.uniform(-2, 2), rng.uniform(0, 6.28),
                                                rng.choice([0, 1, 27, -1]), rng.choice([0, 1, -1]))]
    j = rng.randrange(len(ev))
    if kind == "remove_particle":
        return ["remove_particle", i, j]
    d = ev[j]
    if kind == "set_mom":
        r = rng.random()
        if r < 0.4:  # scale the four-momentum
            f = rng.choice([0.25, 0.5, 2.0, 3.0, rng.uniform(0.1, 4.0)])
            return ["set_mom", i, j, [d["px"] * f, d["py"] * f, d["pz"] * f, d["E"] * f]]
        if r < 0.8:  # rotate in azimuth
            a = rng.uniform(0.3, 3.0) * rng.choice([-1, 1])
            c, s_ = math.cos(a), math.sin(a)
            return ["set_mom", i, j, [c * d["px"] - s_ * d["py"], s_ * d["px"] + c * d["py"], d["pz"], d["E"]]]
        q = _particle(rng, rng.uniform(0.5, 40.0), rng.uniform(-2.5, 2.5), rng.uniform(0, 6.28), 0, 0)
        return ["set_mom", i, j, [q["px"], q["py"], q["pz"], q["E"]]]
    if kind == "set_status":
        st = d["status"] if d["status"] is not None else 0
        return ["set_status", i, j, rng.choice([-1, -11]) if st >= 0 else rng.choice([0, 1, 27])]
    return ["set_charge", i, j, rng.choice([0, 1, -1]) if d["charge"] != 0 else rng.choice([1, -1])]


def gen_session(rng):
    nev = rng.choice([1, 2, 2, 3, 4])
    base = [gen_event(rng, "jets" if rng.random() < 0.7 else rng.choice(["empty", "soft", "outside"])) for _ in range(nev)]
    content = copy.deepcopy(base)
    par = gen_params(rng)
    prior, _ = gen_prior(rng)
    steps = [dict(mut=[], data="new", path="a", pre=("keep" if prior is None else dict(text=prior)), read=rng.random() < 0.4, **par)]
    repair = []
    for _ in range(rng.choice([1, 1, 2, 2, 3])):
        r = rng.random()
        data = "same" if r < 0.6 else "new" if r < 0.8 else "new-outer"
        muts = []
        for op in repair:  # the call before this one raised midway (unset status); the caller repairs the data and calls again
            if apply_mut(content, None, op):
                muts.append(op)
        repair = []
        if rng.random() < 0.3:
            # a call that FAILS MIDWAY: a status in the LAST non-empty event is unset, so the call raises ValueError after
            # the earlier events have been processed; the next call (data repaired) must not see anything of it
            cand = [i for i, ev in enumerate(content) if ev]
            if cand:
                i = cand[-1]
                j = rng.randrange(len(content[i]))
                old = content[i][j]["status"]
                op = ["set_status", i, j, None]
                if old is not None and apply_mut(content, None, op):
                    muts.append(op)
                    repair = [["set_status", i, j, old]]
                    if data == "new":
                        data = "same"
        for _m in range(rng.choice([0, 1, 1, 1, 2, 3]) if data != "new" or rng.random() < 0.5 else 0):
            op = gen_mutation(rng, content)
            if apply_mut(content, None, op):
                muts.append(op)
        r = rng.random()
        if r < 0.5:
            pass  # the same parameters again
        elif r < 0.75:
            par = dict(par, **{k: v for k, v in gen_params(rng).items() if rng.random() < 0.4})
        else:
            par = gen_params(rng)
        r = rng.random()
        pre = "keep" if r < 0.7 else "delete" if r < 0.8 else dict(text=gen_prior(rng)[0] or "")
        steps.append(dict(mut=muts, data=data, path=steps[-1]["path"] if rng.random() < 0.7 else rng.choice(["a", "b"]),
                          pre=pre, read=rng.random() < 0.4,
                          # round 4: the object is replaced by its copy / pickle round trip between two calls; the data
                          # come in another sequence type
                          ja_copy=rng.choice([None, None, None, None, None, "copy", "deepcopy", "pickle"]),
                          container=rng.choice([None, None, None, None, "tuple-outer", "objarr", "tuple-both"]), **par))
    return dict(base=base, steps=steps)


def run_session(sess, judge_steps=True, upto=None):
    """Run the whole call history on ONE JetAnalysis object.  Returns a list with one entry per executed step:
    dict(inp=<the single-call input this step amounts to>, outcome, real, verdict).  With judge_steps the run stops
    at the first step whose verdict is a violation.  Returns None when a mutation does not fit (shrinker)."""
    from sparkx.JetAnalysis import JetAnalysis
    tmp = tempfile.mkdtemp(prefix="verif_C20_s_")
    out = []
    try:
        ja = JetAnalysis()
        content = copy.deepcopy(sess["base"])
        live = None
        for k, st in enumerate(sess["steps"] if upto is None else sess["steps"][:upto + 1]):
            for op in st["mut"]:
                if not apply_mut(content, live, op):
                    return None
            if live is None or st["data"] == "new":
                live = [[mk_particle(d) for d in ev] for ev in content]
            elif st["data"] == "new-outer":
                live = list(live)
            path = os.path.join(tmp, st["path"] + ".csv")
            if st["pre"] == "delete":
                if os.path.exists(path):
                    os.remove(path)
            elif isinstance(st["pre"], dict):
                with open(path, "w", newline="") as f:
                    f.write(st["pre"]["text"])
            prior = None
            if os.path.exists(path):
                with open(path, "r", newline="") as f:
                    prior = f.read()
            inp = dict(events=copy.deepcopy(content), R=st["R"], alg=st["alg"], eta=list(st["eta"]), pt=list(st["pt"]),
                       only_charged=st["only_charged"], prior=prior)
            outcome = "ok"
            if st.get("ja_copy"):
                ja = COPIERS[st["ja_copy"]](ja)
            try:
                with contextlib.redirect_stdout(io.StringIO()):
                    ja.perform_jet_finding(present_data(live, st.get("container")), st["R"], tuple(st["eta"]), tuple(st["pt"]), path,
                                           assoc_only_charged=st["only_charged"], jet_algorithm=_alg(st["alg"]))
            except ValueError:
                outcome = "err value"
            except Exception as e:  # noqa: BLE001
                outcome = "err other:" + type(e).__name__
            real = read_rows(path)
            verdict = None
            if judge_steps:
                verdict = judge(inp, outcome, real, path, reader=ja if st["read"] else None)
            elif st["read"] and outcome == "ok" and real is not None:
                try:
                    ja.read_jet_data(path)
                except Exception:  # noqa: BLE001
                    pass
            out.append(dict(inp=inp, outcome=outcome, real=real, verdict=verdict))
            if judge_steps and is_violation(verdict):
                break
        return out
    finally:
        for f in os.listdir(tmp):
            os.unlink(os.path.join(tmp, f))
        os.rmdir(tmp)


def session_failure(sess):
    """None, or (k, verdict, inp_k, reuse): step k of the history violates the property; reuse = a fresh object given
    the same call (current content, same parameters, same file content before) is right."""
    res = run_session(sess)
    if not res or not is_violation(res[-1]["verdict"]):
        return None
    k, last = len(res) - 1, res[-1]
    fresh = oracle_check(last["inp"])
    return k, last["verdict"], last["inp"], not is_violation(fresh)


def _plain(key):
    """a failure that a fresh object does not show is not the hole-lookup text, whatever the rows happen to match"""
    return "rows-mismatch" if key.startswith("holes/") else key


def reuse_key(sess, k, verdict):
    return f"instance-reuse-{sess['steps'][k]['data']}-list: {_plain(verdict[0])}"


def shrink_session(sess, k, key0):
    """keep the failure (same plain key at the LAST step, fresh object right) while dropping calls, mutations, events,
    particles and per-step extras"""
    cur = dict(base=copy.deepcopy(sess["base"]), steps=copy.deepcopy(sess["steps"][:k + 1]))

    def still(c):
        f = session_failure(c)
        return f is not None and f[0] == len(c["steps"]) - 1 and _plain(f[1][0]) == _plain(key0) and f[3]

    def merged(c, i):
        """drop call i, keep its mutations (and its choice of list object) for the next call"""
        st, nxt = c["steps"][i], dict(c["steps"][i + 1])
        nxt["mut"] = st["mut"] + nxt["mut"]
        if nxt["data"] == "same" and (st["data"] != "same" or i == 0):
            nxt["data"] = st["data"]
        return dict(c, steps=c["steps"][:i] + [nxt] + c["steps"][i + 2:])

    if not still(cur):
        return cur
    changed = True
    rounds = 0
    while changed and rounds < 200:
        changed = False
        rounds += 1
        cands = []
        for i in range(len(cur["steps"]) - 1):
            if len(cur["steps"]) > 2:
                cands.append(merged(cur, i))
        for i, st in enumerate(cur["steps"]):
            for j in range(len(st["mut"])):
                cands.append(dict(cur, steps=cur["steps"][:i] + [dict(st, mut=st["mut"][:j] + st["mut"][j + 1:])] + cur["steps"][i + 1:]))
            if st["read"]:
                cands.append(dict(cur, steps=cur["steps"][:i] + [dict(st, read=False)] + cur["steps"][i + 1:]))
            if st["pre"] != "keep":
                cands.append(dict(cur, steps=cur["steps"][:i] + [dict(st, pre="keep")] + cur["steps"][i + 1:]))
            for k_ in ("ja_copy", "container"):
                if st.get(k_):
                    cands.append(dict(cur, steps=cur["steps"][:i] + [dict(st, **{k_: None})] + cur["steps"][i + 1:]))
        last = cur["steps"][-1]
        for i, st in enumerate(cur["steps"][:-1]):
            if any(st[f] != last[f] for f in ("R", "alg", "eta", "pt", "only_charged", "path")):
                cands.append(dict(cur, steps=cur["steps"][:i] + [dict(st, **{f: last[f] for f in ("R", "alg", "eta", "pt", "only_charged", "path")})]
                                  + cur["steps"][i + 1:]))
        for i in range(len(cur["base"])):
            cands.append(dict(cur, base=cur["base"][:i] + cur["base"][i + 1:]))
        for i in range(len(cur["base"])):
            for j in range(len(cur["base"][i])):
                cands.append(dict(cur, base=cur["base"][:i] + [cur["base"][i][:j] + cur["base"][i][j + 1:]] + cur["base"][i + 1:]))
        for i, st in enumerate(cur["steps"]):  # shrink the events carried by mutations
            for j, op in enumerate(st["mut"]):
                if op[0] in ("replace_event", "append_event"):
                    ev = op[-1]
                    for q in range(len(ev)):
                        op2 = op[:-1] + [ev[:q] + ev[q + 1:]]
                        cands.append(dict(cur, steps=cur["steps"][:i] + [dict(st, mut=st["mut"][:j] + [op2] + st["mut"][j + 1:])] + cur["steps"][i + 1:]))
        for c in cands:
            if still(c):
                cur, changed = c, True
                break
    return cur


def report_session(ctx, sess, seen, do_shrink=True):
    """judge one session on the real code; report a plain violation (a fresh object fails too) or an instance-reuse one"""
    f = session_failure(sess)
    if f is None:
        return False
    k, verdict, inp_k, reuse = f
    if not reuse:
        if verdict[0] not in seen:
            seen.add(verdict[0])
            small = shrink(inp_k, verdict[0]) if do_shrink else strip(inp_k)
            r2 = oracle_check(small)
            if not (is_violation(r2) and r2[0] == verdict[0]):
                small, r2 = strip(inp_k), verdict
            _report(ctx, small, r2)
        return True
    key = reuse_key(sess, k, verdict)
    if key in seen:
        return True
    seen.add(key)
    small = shrink_session(sess, k, verdict[0]) if do_shrink else dict(base=sess["base"], steps=sess["steps"][:k + 1])
    f2 = session_failure(small)
    if f2 is None or not f2[3]:
        small, f2 = dict(base=sess["base"], steps=sess["steps"][:k + 1]), f
    k2, verdict2 = f2[0], f2[1]
    key = reuse_key(small, k2, verdict2)
    hist = [dict(call=i + 1, data=st["data"], changes=[op[0] for op in st["mut"]], path=st["path"]) for i, st in enumerate(small["steps"])]
    ctx.violation(key, f"a JetAnalysis object that already served {k2} call(s) writes a wrong file for call {k2 + 1} "
                       f"(list object: {small['steps'][k2]['data']}, changes before it: {[op[0] for op in small['steps'][k2]['mut']]}) "
                       f"where a fresh object given the same current content is right: "
                       f"{verdict2[1] if _plain(verdict2[0]) == verdict2[0] else 'output file differs from the jets of this call'}",
                  dict(input=small, detail=dict(failing_call=k2 + 1, history=hist, verdict=verdict2[2]),
                       how_to_replay="./check C20 --replay <this file>  (runs the whole call history on one object, in a new process)"))
    return True


def corpus():
    p = common.VERIF / "harness/corpus/C20"
    return [json.loads(f.read_text()) for f in sorted(p.glob("*.json"))] if p.exists() else []


def _report(ctx, inp, r):
    ctx.violation(r[0], r[1], dict(input=strip(inp), detail=r[2], how_to_replay="./check C20 --replay <this file>"))


def probe_iterators(ctx, rng):
    """One-shot iterators are not documented input (`hadron_data: list`).  An iterator as the OUTER container must be
    rejected or handled correctly, never answered with a wrong file (the clean code raises TypeError: len())."""
    from sparkx.JetAnalysis import JetAnalysis
    for _ in range(20):
        inp, _info = gen_input(rng)
        inp["variant"] = None
        ref = ref_groups(inp)
        if isinstance(ref, tuple) or not ref:
            continue
        for how in ("iter", "generator", "map"):
            evs = mk_events(inp)
            arg = iter(evs) if how == "iter" else (e for e in evs) if how == "generator" else map(lambda e: e, evs)
            path = os.path.join(_tmpdir(), "it.csv")
            if os.path.exists(path):
                os.remove(path)
            try:
                with contextlib.redirect_stdout(io.StringIO()):
                    JetAnalysis().perform_jet_finding(arg, inp["R"], tuple(inp["eta"]), tuple(inp["pt"]), path,
                                                      assoc_only_charged=inp["only_charged"], jet_algorithm=_alg(inp["alg"]))
            except Exception:  # noqa: BLE001
                ctx.count("oracle/iterator-outer:%s rejected" % how)
                continue
            ctx.count("oracle/iterator-outer:%s accepted" % how)
            r = judge(inp, "ok", read_rows(path), path, ref=ref)
            if is_violation(r):
                ctx.violation("iterator-input-silently-wrong: " + r[0],
                              f"hadron data given as a one-shot {how} over the events is neither rejected nor handled: {r[1]}",
                              dict(input=strip(inp), detail=dict(container=how, verdict=r[2]),
                                   how_to_replay="pass %s(events) as hadron_data of the input in this file" % how))
        return


def search(ctx, budget_s):
    rng = ctx.rng
    t0 = time.time()
    n = amb = 0
    seen = set()
    probe_iterators(ctx, rng)
    nsess = ncalls = 0
    for case in corpus():
        n += 1
        if "steps" in case["input"]:
            report_session(ctx, case["input"], seen, do_shrink=False)
            continue
        r = oracle_check(case["input"])
        if is_violation(r) and r[0] not in seen:
            seen.add(r[0])
            _report(ctx, case["input"], r)
    limit = 3000 if ctx.thorough else 300
    while time.time() - t0 < budget_s and n < limit:
        if n % 3 == 2:
            # a call history on one long-lived JetAnalysis object (lists re-used and changed in place, new lists,
            # changed parameters, re-used output paths); every call judged against the current content
            sess = gen_session(rng)
            n += 1
            nsess += 1
            ncalls += len(sess["steps"])
            for st in sess["steps"][1:]:
                ctx.count("oracle-session/list=" + st["data"])
                for op in st["mut"]:
                    ctx.count("oracle-session/change=" + op[0])
            ctx.case(("oracle-session", json.dumps(sess, sort_keys=True)), True)
            report_session(ctx, sess, seen)
            if len(seen) >= 4:
                break
            continue
        inp, info = gen_input(rng)
        r = oracle_check(inp)
        n += 1
        if r is not None and r[0] == "ambiguous":
            amb += 1
            ctx.count("oracle/ambiguous: " + r[1])
            continue
        ref = ref_groups(inp)
        ctx.case(("oracle", canon(inp)), bool(ref) and (bool(prior_rows(inp)) or ref[0][0][7] != 0))
        if is_violation(r) and r[0] not in seen:
            seen.add(r[0])
            small = shrink(inp, r[0])
            r2 = oracle_check(small)
            if not (is_violation(r2) and r2[0] == r[0]):
                small, r2 = strip(inp), r
            _report(ctx, small, r2)
            if len(seen) >= 4:
                break
    ctx.cov["oracle_cases"] = n
    ctx.cov["oracle_sessions"] = nsess
    ctx.cov["oracle_session_calls"] = ncalls
    ctx.cov["oracle_ambiguous_skipped"] = amb
    ctx.count("oracle", n)


def replay(ctx, path):
    d = json.loads(open(path).read())
    inp = d.get("input")
    if not inp:
        print(f"[C20] replay file names a broken obligation, not an input: {d.get('broken')}")
        return 1
    if "steps" in inp:
        f = session_failure(inp)
        if f is None:
            print("[C20] replay: every call of this history on one JetAnalysis object gives this call's jets now")
            return 0
        k, verdict, inp_k, reuse = f
        print(f"VIOLATION property=C20 replay={path}")
        print(f"call {k + 1} of {len(inp['steps'])} on the re-used JetAnalysis object "
              f"({'a fresh object is right' if reuse else 'a fresh object fails as well'}): {verdict[1]}",
              json.dumps(verdict[2], default=str))
        return 1
    if "events" not in inp:
        print(f"[C20] replay input is a correspondence case without events: {inp}")
        return 1
    r = oracle_check(inp)
    if is_violation(r):
        print(f"VIOLATION property=C20 replay={path}")
        print(r[1], json.dumps(r[2], default=str))
        return 1
    print("[C20] replay: property holds on this input now" + (f" ({r[1]})" if r else ""))
    return 0
