"""C01 — readers load exactly what the file contains.  Tie T (column tables) + tie C (reader model R) + oracle.

translate : Particle.py / OscarLoader.py / Oscar.py / Jetscape.py -> Gen/Tables.lean (harness/translate/tables.py);
            Gen/Kinematics.lean is refreshed too (the JETSCAPE mass theorem refers to C08's generated method body).
correspond: random well-formed files of the grammar (`OSpec`, `JSpec`): the Lean driver renders the same spec (byte
            equality with the Python rendering), classifies the real bytes (`obs`), evaluates the theorems' equations
            (`thm`) and runs the reader model; the real `Oscar` / `Jetscape` class opens the same bytes; everything is
            compared value by value (every loaded slot against the token it must come from).  Files written by the
            eight `GenerateFlow.generate_dummy_*` functions are re-parsed into a spec, re-rendered by Lean (byte equality)
            and read back.  `Particle.__initialize_from_array`, the getters, the derived JETSCAPE charge and mass and the
            format sniffing chain are compared per call.
search    : the PROPERTY on the real code with an independent re-parse of the text (`parse_oscar`, `parse_jetscape`),
            `fractions`/`decimal` for nearest-double, PDGID (three_charge, is_valid) as the external parameter.
paths     : one process opens many files; about half of them (correspondence and search) are written to a path that an
            earlier, DIFFERENT file of this process used (`Paths`: pool slots, Oscar and JETSCAPE content alternating on
            the `.dat` slots; `path_sequences`: targeted short sequences).  Every call into sparkx is recorded (`HISTORY`).
            A failing file is first re-run ALONE in a new process: if it fails there it is an ordinary input; if not, the
            failure needs the history — the history is delta-debugged in new processes (`shrink_sequence`), classified
            (`path-reuse` if it disappears when every step gets its own path, else `process-state`) and reported as
            `<key>:sequence:<class>` with the whole sequence of (path slot, file text) steps; `--replay` re-runs it.
"""
import atexit
import copy
import json
import math
import os
import pickle
import random
import re
import shutil
import subprocess
import sys
import tempfile
import time
import warnings
from concurrent.futures import ThreadPoolExecutor
from fractions import Fraction

import numpy as np

import common
import rmodel
from common import f2h, h2f, hexs
from translate import tables
from translate.pyexpr import Untranslatable

warnings.filterwarnings("ignore")

GEN = common.LEAN / "SparkxVerif/Gen/Tables.lean"
GOLDEN = common.LEAN / "golden/Gen/Tables.lean"

OSCAR2013_COLS = ["t", "x", "y", "z", "mass", "p0", "px", "py", "pz", "pdg", "ID", "charge"]
EXT_COLS = OSCAR2013_COLS + ["ncoll", "form_time", "xsecfac", "proc_id_origin", "proc_type_origin", "time_last_coll",
                             "pdg_mother1", "pdg_mother2", "baryon_number", "strangeness"]
# the documentation of the formats: integer columns, and the attribute a column is available under
INT_COLS = {"pdg", "ID", "charge", "ncoll", "proc_id_origin", "proc_type_origin", "pdg_mother1", "pdg_mother2",
            "baryon_number", "strangeness", "status"}
ATTR_OF = {c: c for c in EXT_COLS}
ATTR_OF.update({"p0": "E", "time_last_coll": "t_last_coll", "status": "status", "E": "E"})
JETSCAPE_COLS = ["ID", "pdg", "status", "E", "px", "py", "pz"]
MASSLESS = [22, 21, 12, -12, 14, -14, 16, -16, 18, -18]  # documented in the docstring
FMT_NAME = {"oscar2013": "Oscar2013", "extended": "Oscar2013Extended", "ascii": "ASCII"}
TAG = {"oscar2013": "#!OSCAR2013", "extended": "#!OSCAR2013Extended", "ascii": "#!ASCII"}

PDG_POOL = [211, -211, 111, 321, 2212, -2212, 2112, 3122, 22, 11, -11, 13, 12, -14, 16, 18, 1, -1, 2, -2, 3, 4, -5, 6, 21,
            2101, 2103, 1103, 2203, -2203, 3303, 4403, 3201, 5503, 421, 4122, 1000010020, 1000020040, 99999, 1234567, 77,
            99999999, 3133052, 0]

ASSUMPTIONS = [
    "C01: the theorems about the TEXT (C01_classification_holds, C01_full_holds) are about the model's own string primitives "
    "(Core/Str.lean: structurally recursive substring test, split on a character, line splitting, int()/float() recognisers on "
    "character lists). That these compute what Python's `in`, `split(' ')`, text-mode line reading, `int`, `float` compute is the "
    "correspondence: the driver evaluates grammar / `obs` / the reader on the real bytes of every generated file of every run, "
    "together with byte equality of the Lean and Python renderings (and C02/C05/C06/C07 do the same, C07 on every byte prefix)",
    "C01: Python's float(tok) (nearest double) and int(tok) are trusted and sampled against `fractions`; integer columns are assumed "
    "to fit a double exactly (|v| <= 2^53; values are stored in a float array by design)",
    "C01: particle.PDGID (is_valid, three_charge) is a parameter of the derived-charge theorem; its value is supplied per case from "
    "the real library; Q-balls (charge = three_charge/30) are outside the generated inputs",
    "C01: the derived JETSCAPE mass theorem is C08's statement about the generated body of mass_from_energy_momentum over R+{nan}; "
    "IEEE rounding is sampled (Float driver, condition-aware tolerance)",
    "C01: Oscar2013Extended_IC and Oscar2013Extended_Photons files are outside the property's list and not modelled",
    "C01: devices applied at random to the opened files (judged against the same oracle / model as the plain file): CRLF line endings "
    "on disk, non-ASCII characters (UTF-8) and trailing blanks / tabs in the free-text comment lines (units, version, JETSCAPE column "
    "header), the loaded object replaced by copy.copy / copy.deepcopy / a pickle round trip before it is observed, the path given as a "
    "str subclass / np.str_, opened by a bare relative name after os.chdir, np.seterr(all='warn'), non-default numpy print options, "
    "advanced random / np.random global state; every open is checked to leave cwd, np.geterr(), numpy print options and both RNG states "
    "as found.  The clean reader handles all of these (probed 2026-10-01).  CRLF text is outside the Lean text renderer (the model is "
    "fed the LF text; the real code must read the CRLF bytes identically).  Not admitted, because the clean code rejects them and the "
    "formats do not produce them: a trailing blank after the last field of an event end line or of a particle line (extra empty token: "
    "ValueError in impact_parameter / wrong column count), pathlib.Path instead of str (TypeError; the documentation asks for a str). "
    "Non-ASCII text relies on Python's UTF-8 default for text files (the loaders open without an explicit encoding).  The API under "
    "test takes one path and no list-like argument, so iterator / array-like substitutions and a parallel path do not apply",
]


# =================================================================================================== translator (tie T)
def translate(ctx):
    for a_ in ASSUMPTIONS:
        if a_ not in ctx.assumptions:
            ctx.assumptions.append(a_)
    regions = []
    try:
        text, regions, info = tables.render(common.read_src("Particle.py"), common.read_src("loader/OscarLoader.py"),
                                            common.read_src("Oscar.py"), common.read_src("Jetscape.py"))
    except Untranslatable as e:
        common.write_if_changed(GEN, GOLDEN.read_text())
        ctx.cov["tie"] = "correspondence-only (translator could not re-derive: %s)" % e
        ctx.notes.append("translator could not parse the table regions (%s); golden tables + correspondence" % e)
        regions = [dict(file="Particle.py", region="tables", sha=common.region_hash(common.read_src("Particle.py")), parsed=False)]
    else:
        changed = common.write_if_changed(GEN, text)
        ctx.cov["gen_equals_golden"] = GOLDEN.exists() and GOLDEN.read_text() == text
        ctx.cov["tables_info"] = info
        if changed:
            ctx.notes.append("Gen/Tables.lean regenerated (source differs from last run)")
    # the mass theorem is about Gen/Kinematics.lean (owned by C08): refresh it from the same tree
    try:
        from translate import kinematics
        ktext, kregions, _ = kinematics.render(common.read_src("Particle.py"))
        common.write_if_changed(common.LEAN / "SparkxVerif/Gen/Kinematics.lean", ktext)
        regions += [r for r in kregions if "mass_from_energy_momentum" in str(r.get("region", "")) or "p_abs" in str(r.get("region", ""))]
    except Exception as e:  # C08's translator decides for its own check; here the golden/last text stays
        ctx.notes.append(f"Gen/Kinematics.lean not refreshed ({type(e).__name__}: {e})")
    regions += translate_loops(ctx)
    return regions


GEN_LOOP = common.LEAN / "SparkxVerif/Gen/ReaderLoop.lean"
GOLDEN_LOOP = common.LEAN / "golden/Gen/ReaderLoop.lean"
GEN_SCAN = common.LEAN / "SparkxVerif/Gen/ReaderScan.lean"
GOLDEN_SCAN = common.LEAN / "golden/Gen/ReaderScan.lean"
GEN_SEL = common.LEAN / "SparkxVerif/Gen/ReaderSelGen.lean"
GOLDEN_SEL = common.LEAN / "golden/Gen/ReaderSelGen.lean"


def translate_loops(ctx):
    """tie T for the line loops: `set_particle_list` of both loaders (loop body, start state, final check) and
    `OscarLoader.set_num_events` -> Gen/ReaderLoop.lean (translate/readerloop.py); the selection arithmetic the all-generated
    readers use is C02's Gen/ReaderSelGen.lean, refreshed from the same tree.  A part that cannot be re-derived falls back to its
    golden text (tie = correspondence only for that part: the `gread` comparison of correspond() and the reader correspondence
    of C01/C02/C05/C06/C07 carry it); nothing here can make the check fail to build."""
    regions = []
    if not GOLDEN_LOOP.exists():
        return regions
    try:
        from translate import readerloop
        text, lregions = readerloop.render_all(common.read_src(readerloop.SRC_OSCAR), common.read_src(readerloop.SRC_JETSCAPE))
        if common.write_if_changed(GEN_LOOP, text):
            ctx.notes.append("Gen/ReaderLoop.lean regenerated (source differs from last run)")
        ctx.cov["readerloop_equals_golden"] = GOLDEN_LOOP.read_text() == text
        ctx.cov["tie_loops"] = ("T + C: the line loops of OscarLoader / JetscapeLoader.set_particle_list (classification chain, finish-the-"
                                "event blocks with constructor filters and num_output_per_event_ bookkeeping, particle lines, start state, "
                                "event-count check) and set_num_events are regenerated from the source and proved equal to the shared "
                                "reader model (genReadOscarAll_eq, genReadJetscapeAll_eq)")
        regions += lregions
    except Exception as e:
        common.write_if_changed(GEN_LOOP, GOLDEN_LOOP.read_text())
        ctx.cov["tie_loops"] = "correspondence-only (loop translator could not re-derive: %s: %s)" % (type(e).__name__, str(e)[:300])
        ctx.notes.append("line loops: translator could not parse the source (%s: %s); golden Gen/ReaderLoop.lean + correspondence"
                         % (type(e).__name__, str(e)[:200]))
        ctx.loop_fallback = True
        regions.append(dict(file="loader/OscarLoader.py", region="set_particle_list (line loop)", parsed=False,
                            sha=common.region_hash(common.read_src("loader/OscarLoader.py") + common.read_src("loader/JetscapeLoader.py"))))
    if GOLDEN_SCAN.exists():
        try:
            from translate import readerloop
            stext, sregions = readerloop.render_scan(common.read_src(readerloop.SRC_OSCAR), common.read_src(readerloop.SRC_JETSCAPE))
            if common.write_if_changed(GEN_SCAN, stext):
                ctx.notes.append("Gen/ReaderScan.lean regenerated (source differs from last run)")
            ctx.cov["readerscan_equals_golden"] = GOLDEN_SCAN.read_text() == stext
            ctx.cov["tie_scanners"] = ("T + C: the scanning loops of set_num_output_per_event_and_event_footers / set_num_output_per_event "
                                       "are regenerated and proved ok-equivalent to the model's (genOscarScan_okEq, genJetscapeScan_okEq)")
            regions += sregions
        except Exception as e:
            common.write_if_changed(GEN_SCAN, GOLDEN_SCAN.read_text())
            ctx.cov["tie_scanners"] = "correspondence-only (scanner translator could not re-derive: %s: %s)" % (type(e).__name__, str(e)[:300])
            ctx.notes.append("first-pass scanners: translator could not parse the source (%s: %s); golden Gen/ReaderScan.lean + "
                             "correspondence" % (type(e).__name__, str(e)[:200]))
            ctx.loop_fallback = True
            regions.append(dict(file="loader/OscarLoader.py", region="set_num_output_per_event* (scanning loops)", parsed=False,
                                sha=common.region_hash(common.read_src("loader/OscarLoader.py") + common.read_src("loader/JetscapeLoader.py"))))
    if GOLDEN_SEL.exists():
        try:
            from translate import readersel
            gtext, _, _ = readersel.render_all(common.read_src(readersel.SRC_OSCAR), common.read_src(readersel.SRC_JETSCAPE))
            common.write_if_changed(GEN_SEL, gtext)
        except Exception as e:   # C02's translator decides for its own check
            common.write_if_changed(GEN_SEL, GOLDEN_SEL.read_text())
            ctx.notes.append(f"Gen/ReaderSelGen.lean: golden text used ({type(e).__name__}: {str(e)[:160]})")
    return regions


# =================================================================================================== specs (the grammar)
class OSpec:
    """Oscar2013 / Oscar2013Extended / ASCII file"""

    def __init__(self, fmt, cols, events, h2=None, h3="# SMASH-3.1", nl=True):
        self.fmt, self.cols, self.events, self.nl = fmt, list(cols), events, nl
        self.h2 = h2 if h2 is not None else "# Units: " + " ".join("none" for _ in cols)
        self.h3 = h3
        self.kind = "oscar"

    def lines(self):
        L = [" ".join([TAG[self.fmt], "particle_lists"] + self.cols), self.h2, self.h3]
        for e in self.events:
            L.append(f"# event {e['label']} out {len(e['parts'])}")
            L += [" ".join(r) for r in e["parts"]]
            L.append(e["footer"])
        return L

    def text(self):
        return "\n".join(self.lines()) + ("\n" if self.nl else "")

    def enc(self):
        evs = "|".join(f"{e['label']}:{hexs(e['footer'])}:{e['impact']}:" + ";".join(",".join(r) for r in e["parts"])
                       for e in self.events)
        return "\t".join(["ospec", self.fmt, ",".join(self.cols), hexs(self.h2), hexs(self.h3), "1" if self.nl else "0", evs])

    def row_cols(self, row):
        """documented column names of a row"""
        if self.fmt == "ascii":
            return self.cols
        return EXT_COLS[:len(row)] if self.fmt == "extended" else OSCAR2013_COLS

    def suffix(self):
        return ".oscar"

    def to_json(self):
        return dict(kind="oscar", fmt=self.fmt, cols=self.cols, h2=self.h2, h3=self.h3, nl=self.nl, events=self.events)


class JSpec:
    def __init__(self, partons, events, trailer, sigma, h1="#\tJETSCAPE_FINAL_STATE\tv2\t|\tN\tpid\tstatus\tE\tPx\tPy\tPz", nl=True):
        self.partons, self.events, self.trailer, self.sigma, self.h1, self.nl = partons, events, trailer, tuple(sigma), h1, nl
        self.kind = "jetscapeP" if partons else "jetscape"

    def lines(self):
        L = [self.h1]
        for e in self.events:
            L.append(e["header"])
            L += [" ".join(r) for r in e["parts"]]
        L.append(self.trailer)
        return L

    def text(self):
        return "\n".join(self.lines()) + ("\n" if self.nl else "")

    def enc(self):
        evs = "|".join(f"{e['label']}:{hexs(e['header'])}:" + ";".join(",".join(r) for r in e["parts"]) for e in self.events)
        return "\t".join(["jspec", "1" if self.partons else "0", hexs(self.h1), hexs(self.trailer), ",".join(self.sigma),
                          "1" if self.nl else "0", evs])

    def suffix(self):
        return ".dat"

    def to_json(self):
        return dict(kind=self.kind, partons=self.partons, h1=self.h1, trailer=self.trailer, sigma=list(self.sigma), nl=self.nl,
                    events=self.events)


def spec_from_json(d):
    if d["kind"] == "oscar":
        return OSpec(d["fmt"], d["cols"], d["events"], d["h2"], d["h3"], d["nl"])
    return JSpec(d["partons"], d["events"], d["trailer"], d["sigma"], d["h1"], d["nl"])


def jet_header(partons, sep, label, n):
    return sep.join(["#", "Event", str(label), "weight", "1", "EPangle", "0", "N_partons" if partons else "N_hadrons", str(n)])


# =================================================================================================== generators
def gen_literal(rng, extreme=True):
    """a real-number literal composed from the forms Python's float() accepts over the alphabet [0-9+-.eE]:
    sign ('', '-', '+') x mantissa (d | d. | .d | d.d, with leading / trailing zeros) x exponent (none | e/E, sign '', '+', '-',
    digits with leading zeros), over magnitudes from denormal to overflow"""
    sign = rng.choice(["", "", "", "-", "-", "+"])
    ip = rng.choice(["0", "%d" % rng.randint(1, 9), "%d" % rng.randint(10, 9999), "00%d" % rng.randint(0, 99), "%d0" % rng.randint(1, 99)])
    fp = rng.choice(["0", "%d" % rng.randint(1, 9), "%03d" % rng.randint(0, 999), "%d00" % rng.randint(1, 99),
                     "".join(rng.choice("0123456789") for _ in range(rng.randint(7, 20)))])
    mant = rng.choice([ip, ip + ".", "." + fp, ip + "." + fp, ip + "." + fp, ip + "." + fp])
    r = rng.random()
    if r < 0.45:
        ex = ""
    else:
        big = extreme and rng.random() < 0.12
        n = rng.choice([0, 1, 1, 2, 3, 5, 7, 10, 12]) if not big else rng.choice([22, 100, 300, 307, 320, 330, 400])
        ex = rng.choice(["e", "e", "E"]) + rng.choice(["", "+", "-", "-"]) + rng.choice(["%d", "%02d", "%03d"]) % n
    return sign + mant + ex


def vary_literal(rng, v):
    """the float `v` written in another literal form (same value up to the digits printed)"""
    r = rng.random()
    if r < 0.35:
        t = "%r" % v
    elif r < 0.5:
        t = "%g" % v
    elif r < 0.62:
        t = "%.*e" % (rng.randint(6, 12), v)
    elif r < 0.7:
        t = "%.*E" % (rng.randint(6, 12), v)
    elif r < 0.8:
        t = "%.*f" % (rng.randint(6, 10), v)
    elif r < 0.88 and v == int(v) and abs(v) < 1e6:
        t = rng.choice(["%d", "%d.", "%d.000", "%de0", "%d0e-1", "%d.0E+00"]) % int(v)
    elif r < 0.94 and v == int(v) and abs(v) < 1e6:
        t = "0.%de%d" % (abs(int(v)), len(str(abs(int(v))))) if v != 0 else "0e5"
        t = ("-" if v < 0 else "") + t
    else:
        t = "%r" % v
    if not t.startswith("-") and rng.random() < 0.12:
        t = "+" + t
    return t


def gen_real_tok(rng):
    s = rng.choice(["plain", "plain", "exp", "neg", "integral", "small", "plus", "dot", "bigexp", "capE", "long", "zero",
                    "compose", "compose", "compose", "compose"])
    if s == "compose":
        return gen_literal(rng)
    if s == "plain":
        return "%d.%0*d" % (rng.randint(0, 30), rng.randint(1, 6), rng.randint(0, 999))
    if s == "exp":
        return "%d.%03de%s%02d" % (rng.randint(1, 9), rng.randint(0, 999), rng.choice(["-", "+", ""]), rng.randint(0, 12))
    if s == "neg":
        return "-%d.%03d" % (rng.randint(0, 9), rng.randint(0, 999))
    if s == "integral":
        return str(rng.randint(-5, 200))
    if s == "small":
        return "0.%06d" % rng.randint(0, 999999)
    if s == "plus":
        return "+%d.%02d" % (rng.randint(0, 9), rng.randint(0, 99))
    if s == "dot":
        return rng.choice([".5", "5.", "-.25", "12.", "0.", ".0"])
    if s == "bigexp":
        return rng.choice(["1e300", "2.5e-300", "1e-320", "9.999e22", "1.7976931348623157e308", "4.9e-324", "-3e200"])
    if s == "capE":
        return "%d.%02dE%s%d" % (rng.randint(1, 9), rng.randint(0, 99), rng.choice(["-", "+"]), rng.randint(0, 9))
    if s == "long":
        return "%d.%s" % (rng.randint(0, 99), "".join(rng.choice("0123456789") for _ in range(rng.randint(15, 22))))
    return rng.choice(["0", "0.0", "-0.0", "0e0"])


def gen_int_tok(rng, col):
    if col == "pdg" or col.startswith("pdg_mother"):
        return str(rng.choice(PDG_POOL))
    if col == "charge":
        return str(rng.choice([-2, -1, 0, 0, 1, 1, 2, 3]))
    if col == "status":
        return str(rng.choice([0, 11, 27, -1, 62, -11]))
    if col == "ID":
        return str(rng.randint(0, 99999))
    return rng.choice([str(rng.choice([0, 1, 2, 5, -3, 17, 45, 1000000])), "+3", "-0", "007", "+0", "-007", "+00%d" % rng.randint(0, 99),
                       "%d" % rng.randint(-10 ** 9, 10 ** 9), "0000"])


def gen_tok(rng, col):
    return gen_int_tok(rng, col) if col in INT_COLS else gen_real_tok(rng)


def gen_nev(rng):
    """number of events: mostly small, regularly two-digit labels (9-12, 33) and three-digit labels (100+)"""
    r = rng.random()
    if r < 0.82:
        return rng.randint(1, 6)
    if r < 0.91:
        return rng.randint(9, 12)
    if r < 0.95:
        return 33
    if r < 0.98:
        return rng.randint(100, 115)
    return rng.randint(7, 40)


def gen_mults(rng, nev, maxpart=5):
    if nev > 40:
        maxpart = 2
    elif nev > 12:
        maxpart = 3
    ms = [0 if rng.random() < 0.2 else rng.randint(1, maxpart) for _ in range(nev)]
    if rng.random() < 0.25:
        ms[rng.randrange(nev)] = rng.randint(10, 13)  # two-digit count
    if rng.random() < (0.03 if nev <= 12 else 0.0):
        ms[rng.randrange(nev)] = rng.randint(100, 125)  # three-digit count
    if rng.random() < 0.1:
        ms[rng.randrange(nev)] = 1
    if rng.random() < 0.15:
        ms[0] = 0
    if rng.random() < 0.15:
        ms[-1] = 0
    return ms


def smash_footer(rng, label, b=None):
    if b is None:
        b = rng.choice(["%.3f" % rng.uniform(0, 15), "0.000", "12.5", "1e-3", "-1.000", "7"]) if rng.random() < 0.4 else \
            rng.choice([gen_literal(rng), vary_literal(rng, round(rng.uniform(0, 20), rng.randint(0, 4)))])
    pad = rng.choice(["   ", " ", "  "])
    tail = rng.choice(["yes", "no"])
    return f"# event {label} end 0 impact{pad}{b} scattering_projectile_target {tail}", b


def gen_ospec(rng, fmt=None, cols=None, nev=None):
    fmt = fmt or rng.choice(["oscar2013", "extended", "extended", "ascii", "ascii"])
    if fmt == "oscar2013":
        cols = OSCAR2013_COLS
        h2 = rng.choice(["# Units: fm fm fm fm GeV GeV GeV GeV GeV none none e", "# Units: fm fm fm fm GeV GeV GeV GeV GeV none none e ",
                         "# units fm GeV", "# Units: fm/c fm fm fm GeV/c^2 GeV GeV/c GeV/c GeV/c none none e"])
        ncol = lambda: 12
    elif fmt == "extended":
        hn = rng.choice([20, 22, 22])
        cols = EXT_COLS[:hn]
        h2 = "# Units: fm fm fm fm GeV GeV GeV GeV GeV none none e none fm none none none fm none none" + (" none none" if hn == 22 else "")
        rn = hn if rng.random() < 0.8 else rng.choice([20, 22])  # header of a newer SMASH over older rows and vice versa
        ncol = lambda: rn
    else:
        if cols is None:
            r = rng.random()
            k = 13 if r < 0.08 else 21 if r < 0.16 else rng.randint(1, 22)
            cols = rng.sample(EXT_COLS, k)
        h2 = None
        ncol = lambda: len(cols)
    nev = nev or gen_nev(rng)
    events = []
    for lab, m in enumerate(gen_mults(rng, nev)):
        foot, b = smash_footer(rng, lab)
        rc = EXT_COLS if fmt == "extended" else cols
        parts = [[gen_tok(rng, c) for c in rc[:ncol()]] for _ in range(m)]
        events.append(dict(label=lab, parts=parts, footer=foot, impact=b))
    h3 = rng.choice(["# SMASH-3.1", "# SMASH-2.2", "# SMASH-3.0-12-gabcdef", "# SMASH-%d.%d" % (rng.randint(1, 3), rng.randint(0, 9)),
                     "# SMASH-3.1-%d-g%06x" % (rng.randint(1, 99), rng.randrange(16 ** 6))])
    sp = OSpec(fmt, cols, events, h2=h2, h3=h3, nl=rng.random() < 0.85)
    sp.h2, sp.h3 = free_text(rng, sp.h2), free_text(rng, sp.h3)
    return sp


def gen_momentum(rng):
    """E px py pz tokens: mostly time-like, sometimes light-like exactly, sometimes space-like"""
    px, py, pz = (rng.choice([rng.randint(-40, 40) / 8.0, round(rng.uniform(-5, 5), rng.randint(1, 6))]) for _ in range(3))
    p = math.sqrt(px * px + py * py + pz * pz)
    r = rng.random()
    if r < 0.7:
        e = p + rng.choice([0.138, 0.5, 1.0, 3.25, 1e-3])
        e = round(e, rng.randint(3, 8))
    elif r < 0.8:
        px, py, pz, e = rng.choice([(3.0, 4.0, 0.0, 5.0), (0.0, 0.0, 2.5, 2.5), (1.0, 2.0, 2.0, 3.0), (0.0, 0.0, 0.0, 0.0), (-6.0, 0.0, 8.0, 10.0)])
    elif r < 0.9:
        e = max(0.0, round(p - rng.choice([0.25, 1.0]), 4))  # space-like
    else:
        e = -round(p + 0.5, 3)  # negative energy, |E| > p
    return [vary_literal(rng, v) for v in (e, px, py, pz)]


def gen_jspec(rng, partons=None, nev=None):
    partons = rng.random() < 0.5 if partons is None else partons
    sep = rng.choice(["\t", "\t", " "])
    nev = nev or gen_nev(rng)
    events = []
    for i, m in enumerate(gen_mults(rng, nev)):
        parts = []
        for j in range(m):
            pdg = rng.choice(PDG_POOL)
            parts.append([str(j if rng.random() < 0.7 else rng.randint(0, 9999)), str(pdg), gen_int_tok(rng, "status")] + gen_momentum(rng))
        events.append(dict(label=i + 1, parts=parts, header=jet_header(partons, sep, i + 1, m)))
    sigma = gen_sigma(rng)
    tsep = rng.choice(["\t", "\t", " "])
    h1 = rng.choice(["#\tJETSCAPE_FINAL_STATE\tv2\t|\tN\tpid\tstatus\tE\tPx\tPy\tPz", "#\tJETSCAPE_FINAL_STATE\tv2\t|\tN\tpid\tstatus\tE\tPx\tPy\tPz",
                     "# JETSCAPE_FINAL_STATE v2 | N pid status E Px Py Pz", "#\tJETSCAPE_FINAL_STATE\tv%d\t|\tN\tpid\tstatus\tE\tPx\tPy\tPz" % rng.randint(1, 9),
                     "#\tJETSCAPE_FINAL_STATE\tv2\t|\tN\tpid\tstatus\tE\tPx\tPy\tPz\tEta\tPhi"])
    return JSpec(partons, events, tsep.join(["#", "sigmaGen", sigma[0], "sigmaErr", sigma[1]]), sigma, h1=free_text(rng, h1), nl=rng.random() < 0.6)


def free_text(rng, line):
    """free-text comment lines (units, version, JETSCAPE column header) may carry non-ASCII characters and trailing blanks"""
    if rng.random() < 0.1:
        line += " " + rng.choice(NONASCII)
    if rng.random() < 0.08:
        line += rng.choice([" ", "  ", "\t", " \t "])
    return line


def gen_sigma(rng):
    """(sigmaGen, sigmaErr) tokens; practically never the same pair twice"""
    if rng.random() < 0.15:
        return rng.choice([("0.000314633", "6.06164e-07"), ("0.0", "0.0"), ("1.5", "2"), ("3e-4", "1E-6"), ("12", "0.5")])

    def one():
        r = rng.random()
        if r < 0.25:
            return "%.*f" % (rng.randint(1, 9), rng.uniform(0, 50))
        if r < 0.5:
            return "%.*e" % (rng.randint(1, 6), rng.uniform(1e-9, 1e3))
        if r < 0.6:
            return "%d" % rng.randint(0, 999)
        if r < 0.8:
            return vary_literal(rng, round(rng.uniform(0, 100), rng.randint(0, 5)))
        return gen_literal(rng)
    return (one(), one())


# =================================================================================================== independent re-parse
class NotWellFormed(Exception):
    pass


def split_lines(text):
    ls = text.split("\n")
    if text.endswith("\n"):
        ls.pop()
    return ls


def parse_oscar(text):
    ls = split_lines(text)
    if len(ls) < 3:
        raise NotWellFormed("header missing")
    head = ls[0].split(" ")
    fmt = {v: k for k, v in TAG.items()}.get(head[0])
    if fmt is None or head[1] != "particle_lists":
        raise NotWellFormed("first line")
    cols = head[2:]
    events, i = [], 3
    while i < len(ls):
        m = re.fullmatch(r"# event (\d+) out (\d+)", ls[i])
        if not m:
            raise NotWellFormed(f"line {i}: expected event header")
        rows, j = [], i + 1
        while j < len(ls) and not ls[j].startswith("#"):
            rows.append((j, ls[j].split(" ")))
            j += 1
        if j >= len(ls) or not re.match(r"# event %s end " % m.group(1), ls[j]) or len(rows) != int(m.group(2)):
            raise NotWellFormed(f"event {m.group(1)}: block does not match its header")
        events.append(dict(label=int(m.group(1)), rows=rows, footer=ls[j], impact=ls[j].split()[-3]))
        i = j + 1
    if not events or [e["label"] for e in events] != list(range(len(events))):
        raise NotWellFormed("event numbering")
    return dict(fmt=fmt, cols=cols, events=events, h2=ls[1], h3=ls[2], nl=text.endswith("\n"))


def parse_jetscape(text, partons):
    ls = split_lines(text)
    key = "N_partons" if partons else "N_hadrons"
    events, i = [], 1
    while i < len(ls) - 1:
        w = ls[i].split()
        if not (len(w) == 9 and w[:2] == ["#", "Event"] and w[3] == "weight" and w[7] == key):
            raise NotWellFormed(f"line {i}: expected event header")
        rows, j = [], i + 1
        while j < len(ls) - 1 and not ls[j].startswith("#"):
            rows.append((j, ls[j].split()))
            j += 1
        if len(rows) != int(w[8]):
            raise NotWellFormed("block does not match its header")
        events.append(dict(label=int(w[2]), rows=rows, header=ls[i]))
        i = j
    w = ls[-1].split()
    if not (len(w) == 5 and w[0] == "#" and w[1] == "sigmaGen" and w[3] == "sigmaErr"):
        raise NotWellFormed("trailer")
    if not events or [e["label"] for e in events] != list(range(1, len(events) + 1)):
        raise NotWellFormed("event numbering")
    return dict(partons=partons, events=events, h1=ls[0], trailer=ls[-1], sigma=(w[2], w[4]), nl=text.endswith("\n"))


def spec_of_parsed(kind, P):
    if kind == "oscar":
        return OSpec(P["fmt"], P["cols"], [dict(label=e["label"], parts=[r for _, r in e["rows"]], footer=e["footer"], impact=e["impact"])
                                          for e in P["events"]], P["h2"], P["h3"], P["nl"])
    return JSpec(P["partons"], [dict(label=e["label"], parts=[r for _, r in e["rows"]], header=e["header"]) for e in P["events"]],
                 P["trailer"], P["sigma"], P["h1"], P["nl"])


def parse(kind, text):
    return parse_oscar(text) if kind == "oscar" else parse_jetscape(text, kind == "jetscapeP")


# =================================================================================================== exact conversions
def nearest_double_ok(tok, x):
    """x is a double nearest to the decimal `tok` (ties: either neighbour accepted here; float() is trusted for the tie rule)"""
    try:
        q = Fraction(tok)
    except (ValueError, ZeroDivisionError):
        return None
    x = float(x)
    if x != x:
        return False  # the grammar has no NaN literal
    if math.isinf(x):
        return abs(q) >= Fraction(2) ** 1024 - Fraction(2) ** 970
    d = abs(Fraction(x) - q)
    for y in (math.nextafter(x, math.inf), math.nextafter(x, -math.inf)):
        if not math.isinf(y) and abs(Fraction(y) - q) < d:
            return False
    return True


def pdg_params(pdg):
    """the external PDG tables: (is_valid, three_charge or None)"""
    from particle import PDGID
    p = PDGID(int(pdg))
    return bool(p.is_valid), (None if p.three_charge is None else int(p.three_charge))


def doc_charge(pdg):
    """documented derived charge: nan for codes PDGID does not know (or has no charge for), the PDG charge when it is a whole
    number, three times it for fractionally charged partons"""
    valid, q3 = pdg_params(pdg)
    if not valid or q3 is None:
        return None
    return q3 // 3 if q3 % 3 == 0 else q3


def exact_mass_check(pdg, E, px, py, pz, m):
    """None if `m` is the documented derived mass, else a description"""
    if pdg in MASSLESS:
        return None if m == 0.0 else f"massless species {pdg}: mass {m!r} != 0"
    fe, fx, fy, fz = (Fraction(v) for v in (E, px, py, pz))
    m2 = fe * fe - fx * fx - fy * fy - fz * fz
    scale = float(fe * fe + fx * fx + fy * fy + fz * fz)
    tol = 16 * 2.0 ** -52 * scale
    if m != m:  # nan: |E| < |p| (or indistinguishable within rounding)
        return None if float(m2) <= tol else f"mass nan although E^2-p^2 = {float(m2)!r} > 0"
    if float(m2) < -tol:
        return f"mass {m!r} although E^2-p^2 = {float(m2)!r} < 0"
    if abs(m * m - float(m2)) <= tol + 1e-300 or abs(m - math.sqrt(max(float(m2), 0.0))) <= 1e-12 * max(1.0, abs(m)):
        return None
    return f"mass {m!r}, sqrt(E^2-p^2) = {math.sqrt(max(float(m2), 0.0))!r}"


# =================================================================================================== real code
ERRMAP = [(FileNotFoundError, "err notfound"), (TypeError, "err type"), (ValueError, "err value"), (IndexError, "err index"),
          (KeyError, "err key"), (OSError, "err os")]


def classify(e):
    for k, v in ERRMAP:
        if isinstance(e, k):
            return v
    return "err other:" + type(e).__name__


class Paths:
    """Input paths of this process.  A *slot* is a symbolic file name (`P1.dat`, `Q0.oscar`, `f17.dat`): the same slot is the
    same path string on disk.  Pool slots (`P*`, `Q*`) are re-used by later, different files — an Oscar file may sit on a `.dat`
    slot that held a JETSCAPE file before and vice versa; `f*` slots are used once.  Anything the code remembers per path (or
    per class / per process) from an earlier file therefore shows as a failure of a later, well-formed file."""
    POOL_DAT = ["P0.dat", "P1.dat", "P2.dat"]
    POOL_OSCAR = ["Q0.oscar", "Q1.oscar"]

    def __init__(self):
        self.dir = None
        self.n = 0

    def root(self):
        if self.dir is None:
            self.dir = tempfile.mkdtemp(prefix="verif_c01_", dir=os.environ.get("VERIF_TMP", "/tmp"))
            atexit.register(shutil.rmtree, self.dir, True)
        return self.dir

    def path(self, slot):
        return os.path.join(self.root(), slot)

    def fresh(self, kind):
        self.n += 1
        return "f%d%s" % (self.n, ".oscar" if kind == "oscar" else ".dat")

    def pick(self, rng, kind, reuse=0.5):
        """None (a path never used before) for about half of the cases, else a pool slot"""
        if rng.random() >= reuse:
            return None
        return rng.choice(self.POOL_DAT + (self.POOL_OSCAR if kind == "oscar" else []))


PATHS = Paths()
# every call into sparkx made by this process, in order (what a failing input may depend on besides its own text)
HISTORY = []


def is_fresh(slot):
    return slot.startswith("f")


class StrSub(str):
    """a path given as an instance of a subclass of str"""


COPIERS = {"copy": copy.copy, "deepcopy": copy.deepcopy, "pickle": lambda o: pickle.loads(pickle.dumps(o))}
NONASCII = ["(Universität Frankfurt)", "µ=0 β≈1 — ℏc", "données à 200 GeV", "衝突 ☢", "naïve café"]


def gen_dev(rng, p=1.0):
    """round-trip / environment / text devices under which a file is opened (all admissible by the documentation: the object
    is a plain Python object, the path is a str, the file is a text file):
      eol=crlf        the same text with Windows line endings on disk
      copy=…          the loaded object is replaced by copy.copy / copy.deepcopy / a pickle round trip before it is observed
      env=[…]         chdir: opened by its bare relative name from inside its directory; nperr: np.seterr(all='warn');
                      rng: `random` / `np.random` global state advanced; print: non-default numpy print options
      path=strsub|npstr   the path is a str subclass / np.str_
    Everything observable is judged against the same reference as without the device."""
    d = {}
    if rng.random() < 0.12 * p:
        d["eol"] = "crlf"
    if rng.random() < 0.15 * p:
        d["copy"] = rng.choice(sorted(COPIERS))
    if rng.random() < 0.15 * p:
        d["env"] = sorted(rng.sample(["chdir", "nperr", "rng", "print"], rng.randint(1, 3)))
    if rng.random() < 0.06 * p:
        d["path"] = rng.choice(["strsub", "npstr"])
    return d


def dev_tag(dev):
    return ",".join(f"{k}={'+'.join(v) if isinstance(v, list) else v}" for k, v in sorted((dev or {}).items()))


def env_snapshot():
    po = np.get_printoptions()
    return dict(cwd=os.getcwd(), geterr=dict(np.geterr()), random=random.getstate(),
                np_random=tuple(x.tolist() if isinstance(x, np.ndarray) else x for x in np.random.get_state()),
                printoptions={k: po[k] for k in sorted(po) if k != "formatter"})


def open_real(kind, text, slot=None, dev=None):
    """write `text` (in the form the devices ask for) to the path of `slot` and open it with the real class.
    Returns (object, exception); `open_real.env_changed` lists the pieces of global state the call did not leave as found."""
    from sparkx.Oscar import Oscar
    from sparkx.Jetscape import Jetscape
    dev = dev or {}
    slot = slot or PATHS.fresh(kind)
    path = PATHS.path(slot)
    step = dict(op="open", slot=slot, kind=kind, text=text)
    if dev:
        step["dev"] = dev
    HISTORY.append(step)
    open_real.env_changed = []
    env = dev.get("env", [])
    saved = dict(cwd=os.getcwd(), err=np.geterr(), rnd=random.getstate(), nrnd=np.random.get_state(), po=np.get_printoptions())
    try:
        with open(path, "w", newline="", encoding="utf-8") as f:
            f.write(text.replace("\n", "\r\n") if dev.get("eol") == "crlf" else text)
        arg = path
        if "chdir" in env:
            os.chdir(PATHS.root())
            arg = slot
        if "rng" in env:
            random.seed(20260930)
            [random.random() for _ in range(17)]
            np.random.seed(4711)
            np.random.rand(5)
        if "print" in env:
            np.set_printoptions(precision=2, suppress=True, threshold=5, linewidth=40)
        arg = StrSub(arg) if dev.get("path") == "strsub" else np.str_(arg) if dev.get("path") == "npstr" else arg
        np.seterr(all="warn" if "nperr" in env else "ignore")
        before = env_snapshot()
        with warnings.catch_warnings():
            warnings.simplefilter("ignore")
            if kind == "oscar":
                obj = Oscar(arg)
            elif kind == "jetscapeP":
                obj = Jetscape(arg, particletype="parton")
            else:
                obj = Jetscape(arg)
        after = env_snapshot()
        open_real.env_changed = [k for k in before if before[k] != after[k]]
        if dev.get("copy"):
            obj = COPIERS[dev["copy"]](obj)
        return obj, None
    except Exception as e:
        return None, e
    finally:
        os.chdir(saved["cwd"])
        np.seterr(**saved["err"])
        random.setstate(saved["rnd"])
        np.random.set_state(saved["nrnd"])
        np.set_printoptions(**{k: v for k, v in saved["po"].items() if k != "formatter"})
        np.seterr(all="ignore")
        if is_fresh(slot) and os.path.exists(path):
            os.unlink(path)


open_real.env_changed = []


def counts_repr(c):
    a = np.asarray(c)
    if a.ndim == 2 and a.shape[1] == 2:
        return "2d:" + ",".join(f"{int(r[0])}.{int(r[1])}" for r in a)
    if a.ndim == 1 and a.shape[0] == 2:
        return f"1d:{int(a[0])}.{int(a[1])}"
    if a.ndim == 1 and a.shape[0] == 0:
        return "empty"
    return f"shape:{a.shape}"


def particle_matches(p, cols, row):
    """every documented column of `row` is available under its attribute with the right type and value"""
    if len(row) > len(cols):
        return "more tokens than columns"
    for c, tok in zip(cols, row):
        try:
            v = getattr(p, ATTR_OF[c])
        except Exception as e:
            return f"{c}: getter raised {type(e).__name__}"
        if c in INT_COLS:
            if not (isinstance(v, int) and not isinstance(v, bool)) or v != int(tok):
                return f"{c}: token {tok!r} read as {v!r} ({type(v).__name__}), expected int {int(tok)}"
        else:
            ok = nearest_double_ok(tok, v) if isinstance(v, float) else False
            if not isinstance(v, float) or not ok or not (v == float(tok) or (v != v and float(tok) != float(tok))):
                return f"{c}: token {tok!r} read as {v!r} ({type(v).__name__}), expected the nearest double {float(tok)!r}"
    return None


def row_cols_of(kind, P, row):
    if kind != "oscar":
        return JETSCAPE_COLS
    if P["fmt"] == "ascii":
        return P["cols"]
    return EXT_COLS[:len(row)] if P["fmt"] == "extended" else OSCAR2013_COLS


def canon_real(kind, obj, P):
    """the real object in the driver's `showLoaded` form; a particle is reported by the file line whose tokens it carries"""
    evs = obj.particle_objects_list()
    out = []
    for i, ev in enumerate(evs):
        if not ev:
            out.append(".")
            continue
        ids = []
        for j, p in enumerate(ev):
            ok = i < len(P["events"]) and j < len(P["events"][i]["rows"]) and \
                particle_matches(p, row_cols_of(kind, P, P["events"][i]["rows"][j][1]), P["events"][i]["rows"][j][1]) is None
            ids.append(str(P["events"][i]["rows"][j][0]) if ok else "X")
        out.append(",".join(ids))
    if kind == "oscar":
        fmt, attrs, foot = obj.oscar_format(), ",".join(obj.custom_attr_list), len(obj.event_end_lines_)
    else:
        fmt, attrs, foot = "-", "", 0
    return f"ok ne={obj.num_events()} counts={counts_repr(obj.num_output_per_event())} fmt={fmt} attrs={attrs} foot={foot} ev=" + "|".join(out)


def plist_real(kind, obj, P):
    try:
        pl = obj.particle_list()
    except Exception as e:
        return classify(e)
    lines = {tuple(r): ln for e in P["events"] for ln, r in e["rows"]}

    def rid(vals, ev_i, j):
        try:
            ln, row = P["events"][ev_i]["rows"][j]
        except IndexError:
            return "X"
        cols = row_cols_of(kind, P, row)
        if len(vals) != len(row):
            return "X"
        for c, tok, v in zip(cols, row, vals):
            if c in INT_COLS:
                if not isinstance(v, int) or v != int(tok):
                    return "X"
            elif not (isinstance(v, float) and (v == float(tok) or (v != v and float(tok) != float(tok)))):
                return "X"
        return str(ln)
    if obj.num_events() == 1:
        return "F:" + ",".join(rid(v, 0, j) for j, v in enumerate(pl))
    return "N:" + "|".join("." if not ev else ",".join(rid(v, i, j) for j, v in enumerate(ev)) for i, ev in enumerate(pl))


# =================================================================================================== the property on the real code
def check_file(kind, text, P=None, slot=None, dev=None):
    """Returns a list of (key, what) — failures of the PROPERTY on the real code for this well-formed file
    (written to the path of `slot`; a path not used before when `slot` is None; opened under the devices `dev`)."""
    P = P or parse(kind, text)
    obj, exc = open_real(kind, text, slot, dev)
    env_changed = list(open_real.env_changed)
    tag = kind if kind != "oscar" else P["fmt"]
    # header lengths the format sniffing used to confuse with Oscar2013 / Oscar2013Extended get their own key
    otag = tag + (f"/ncols={len(P['cols'])}" if kind == "oscar" and P["fmt"] == "ascii" and len(P["cols"]) in (13, 21) else "")
    if exc is not None:
        extra = ""
        if kind != "oscar" and isinstance(exc, TypeError):
            for e in P["events"]:
                for _, r in e["rows"]:
                    v, q3 = pdg_params(r[1])
                    if v and q3 is None:
                        extra = "/pdg-without-charge"
        return [(f"open-raises/{otag}/{type(exc).__name__}{extra}", f"opening a well-formed {otag} file raised {type(exc).__name__}: {exc}")]
    out = []
    for what in env_changed:
        out.append((f"environment-changed/{what}", f"opening a file left the global {what} changed"))
    evs = obj.particle_objects_list()
    n = len(P["events"])
    if obj.num_events() != n:
        out.append((f"num-events/{tag}", f"num_events() = {obj.num_events()}, file has {n} events"))
    if len(evs) != n:
        out.append((f"events/{tag}", f"{len(evs)} events loaded, file has {n}"))
    want_counts = "2d:" + ",".join(f"{e['label']}.{len(e['rows'])}" for e in P["events"])
    if counts_repr(obj.num_output_per_event()) != want_counts:
        out.append((f"counts/{tag}", f"num_output_per_event() = {counts_repr(obj.num_output_per_event())}, file says {want_counts}"))
    if kind == "oscar":
        if obj.oscar_format() != FMT_NAME[P["fmt"]]:
            out.append((f"format-detected/{otag}", f"oscar_format() = {obj.oscar_format()!r} for a file whose first line says {TAG[P['fmt']]}"))
        want_imp = [float(e["impact"]) for e in P["events"]]
        got = obj.impact_parameters()
        if list(got) != want_imp or not all(isinstance(x, float) for x in got):
            out.append((f"impact/{tag}", f"impact_parameters() = {got!r}, footers say {want_imp!r}"))
    else:
        want = (float(P["sigma"][0]), float(P["sigma"][1]))
        if tuple(obj.get_sigmaGen()) != want:
            out.append((f"sigmaGen/{tag}", f"get_sigmaGen() = {obj.get_sigmaGen()!r}, trailer says {want!r}"))
    for i, (ev, pe) in enumerate(zip(evs, P["events"])):
        if len(ev) != len(pe["rows"]):
            out.append((f"event-size/{tag}", f"event {i}: {len(ev)} particles loaded, {len(pe['rows'])} lines in the file"))
            continue
        for j, (p, (ln, row)) in enumerate(zip(ev, pe["rows"])):
            cols = row_cols_of(kind, P, row)
            w = particle_matches(p, cols, row)
            if w:
                out.append((f"column-value/{tag}", f"event {i} line {ln}: {w}"))
            if kind != "oscar":
                pdg = int(row[1])
                w = exact_mass_check(pdg, *(float(t) for t in row[3:7]), float(p.mass))
                if w:
                    out.append((f"jetscape-mass/{'massless' if pdg in MASSLESS else 'massive'}", f"event {i} line {ln} pdg {pdg}: {w}"))
                want_q = doc_charge(pdg)
                got_q = p.charge
                okq = (got_q != got_q) if want_q is None else (isinstance(got_q, int) and got_q == want_q)
                if not okq:
                    valid, q3 = pdg_params(pdg)
                    cls = "unknown-code" if want_q is None else "fractional-ge-1" if (q3 % 3 != 0 and abs(q3) >= 3) else \
                        "quark-like" if q3 % 3 != 0 else "integral"
                    out.append((f"jetscape-charge/{cls}", f"event {i} line {ln} pdg {pdg} (PDGID charge {q3}/3): derived charge {got_q!r}, "
                                                          f"expected {'nan' if want_q is None else want_q}"))
    pl = plist_real(kind, obj, P)
    want_pl = ("F:" + ",".join(str(ln) for ln, _ in P["events"][0]["rows"])) if n == 1 else \
        "N:" + "|".join("." if not e["rows"] else ",".join(str(ln) for ln, _ in e["rows"]) for e in P["events"])
    # Extended rows with 20 columns: particle_list() rows have 20 entries (unset baryon_number / strangeness are not appended)
    if pl != want_pl:
        out.append((f"particle-list/{tag}", f"particle_list() = {pl}, file says {want_pl}"))
    seen, uniq = set(), []
    for k, w in out:
        if k not in seen:
            seen.add(k)
            uniq.append((k, w))
    return uniq


def shrink_spec(spec, key, dev=None):
    """delta-debugging on events / particles while the same key keeps failing (blocks first, then single items)"""
    def fails(s):
        try:
            return any(k == key for k, _ in check_file(s.kind, s.text(), dev=dev))
        except NotWellFormed:
            return False
    cur = spec
    # events: remove blocks of decreasing size
    size = max(1, len(cur.events) // 2)
    while size >= 1:
        i = len(cur.events) - size
        removed = False
        while i >= 0 and len(cur.events) > size:
            cand = clone(cur, [dict(e) for k, e in enumerate(cur.events) if not (i <= k < i + size)])
            if cand.events and fails(cand):
                cur, removed = cand, True
                i = min(i, len(cur.events)) - size
            else:
                i -= size
        if not removed or size == 1:
            size //= 2
    # particles of every remaining event: halves, then single lines
    changed = True
    while changed:
        changed = False
        for i, e in enumerate(cur.events):
            n = len(e["parts"])
            size = max(1, n // 2)
            while size >= 1 and n:
                j = 0
                while j < len(cur.events[i]["parts"]):
                    parts = cur.events[i]["parts"]
                    evs = [dict(x) for x in cur.events]
                    evs[i] = dict(evs[i], parts=parts[:j] + parts[j + size:])
                    cand = clone(cur, evs)
                    if fails(cand):
                        cur, changed = cand, True
                    else:
                        j += size
                size //= 2
    return cur


def relabel(spec, e, lab):
    if spec.kind == "oscar":
        e["footer"] = re.sub(r"^# event \d+ end", f"# event {lab} end", e["footer"])
        e["label"] = lab


def clone(spec, evs):
    if spec.kind == "oscar":
        evs = [dict(e) for e in evs]
        for k, e in enumerate(evs):
            relabel(spec, e, k)
        return OSpec(spec.fmt, spec.cols, evs, spec.h2, spec.h3, spec.nl)
    evs = [dict(e) for e in evs]
    for k, e in enumerate(evs):
        sep = "\t" if "\t" in e["header"] else " "
        e["label"] = k + 1
        e["header"] = jet_header(spec.partons, sep, k + 1, len(e["parts"]))
    return JSpec(spec.partons, evs, spec.trailer, spec.sigma, spec.h1, spec.nl)


# =================================================================================================== generator-written files
GENERATORS = [("generate_dummy_JETSCAPE_file", ()), ("generate_dummy_JETSCAPE_file_realistic_pT_shape", ()),
              ("generate_dummy_JETSCAPE_file_multi_particle_correlations", (2, 0.5)),
              ("generate_dummy_JETSCAPE_file_realistic_pT_shape_multi_particle_correlations", (3, 0.4)),
              ("generate_dummy_OSCAR_file", ()), ("generate_dummy_OSCAR_file_realistic_pT_shape", ()),
              ("generate_dummy_OSCAR_file_multi_particle_correlations", (2, 0.5)),
              ("generate_dummy_OSCAR_file_realistic_pT_shape_multi_particle_correlations", (3, 0.4))]


def generator_file_retry(ctx, rng, name, extra, nev, mult):
    """the *_multi_particle_correlations generators raise IndexError for some seeds (their own sampling loop runs past the
    sampled momenta); such a call writes no complete file and is not an input of this property — draw another seed"""
    for _ in range(50):
        seed = rng.randint(0, 10 ** 6)
        try:
            kind, text = generator_file(name, extra, nev, mult, seed)
            return kind, text, seed
        except IndexError:
            if ctx is not None:
                ctx.count("generator-raised-IndexError/" + name)
    raise RuntimeError(f"{name} raised for 50 seeds in a row")


def generator_file(name, extra, nev, mult, seed):
    from sparkx.flow.GenerateFlow import GenerateFlow
    g = GenerateFlow(0.1, 0.05)
    kind = "jetscape" if "JETSCAPE" in name else "oscar"
    fd, path = tempfile.mkstemp(suffix=".dat" if kind == "jetscape" else ".oscar", prefix="verif_c01g_",
                                dir=os.environ.get("VERIF_TMP", "/tmp"))
    os.close(fd)
    try:
        with np.errstate(all="ignore"):
            getattr(g, name)(path, nev, mult, seed, *extra)
        with open(path, newline="") as f:
            return kind, f.read()
    finally:
        os.unlink(path)


# =================================================================================================== correspondence (tie C)
def fields(ans):
    parts = ans.split("\t")
    return parts[0], {p.split("=", 1)[0]: p.split("=", 1)[1] for p in parts[1:] if "=" in p}


def corr_spec(ctx, spec, origin, text_real=None, slot=None, dev=None):
    """one file: returns the driver line and a closure comparing the answer"""
    text = spec.text() if text_real is None else text_real
    kind = spec.kind
    if slot is not None:
        origin = f"{origin}@{slot}"
        ctx.count("path/re-used-slot")
    else:
        ctx.count("path/fresh")

    def compare(ans):
        head, F = fields(ans)
        case = dict(origin=origin, spec=spec.to_json(), dev=dev or {})
        if head != "ok":
            ctx.brk("correspondence-broken", f"{origin}: driver answered {ans[:80]!r}", case=case)
            return
        if F["text"] != hexs(text):
            ctx.brk("correspondence-broken", f"{origin}: the Lean grammar renders other bytes than the file under test", case=case)
            return
        ctx.count("classification-evaluated-on-real-bytes")
        if F.get("gram") != "1":
            ctx.brk("correspondence-broken", f"{origin}: generated file is outside the stated text grammar (grammarOscar / grammarJet false)", case=case)
            return
        if F["wf"] != "1" or F["obs"] != "1":
            ctx.brk("correspondence-broken", f"{origin}: generated file is not classified as well-formed by the model (wf={F['wf']} obs={F['obs']}) — "
                    "classification lemma fails on these bytes", case=case)
            return
        if F["thm"] != "1" or F["read"] != F["abs"]:
            ctx.brk("proof-broken", f"{origin}: theorem instance evaluates to false: read = {F['read'][:200]} abstract = {F['abs'][:200]}", case=case)
            return
        P = parse(kind, text)
        obj, exc = open_real(kind, text, slot, dev)
        for d_ in (dev or {}):
            ctx.count(f"device/{d_}")
        if open_real.env_changed:
            ctx.brk("correspondence-broken", f"{origin}: opening the file left global state changed: {open_real.env_changed}", case=case)
        real = classify(exc) if exc is not None else canon_real(kind, obj, P)
        nontriv = len(P["events"]) >= 2 and any(not e["rows"] for e in P["events"]) and any(e["rows"] for e in P["events"])
        ctx.case((origin.split("#")[0], text), nontriv or origin.startswith("ascii") or origin.startswith("gen"),
                 sample=dict(origin=origin, text=text[:600], code=real, model=F["read"]))
        if real != F["read"]:
            ctx.brk("correspondence-broken", f"{origin}: code `{real[:300]}` vs model `{F['read'][:300]}`", case=case)
            return
        if "gread" in F:
            ctx.count("gread/wellformed")
            if real != F["gread"]:
                ctx.brk("correspondence-broken", f"{origin}: code `{real[:300]}` vs the reader built from the GENERATED loop parts "
                        f"(Gen/ReaderLoop.lean) `{F['gread'][:300]}`", case=case)
                return
            if F.get("tl", "1") != "1":
                ctx.brk("correspondence-broken", f"{origin}: a line follows the trailer line in a generated JETSCAPE file "
                        "(hypothesis trailerLastB of genReadJetscapeAll_eq is false)", case=case)
        if kind == "oscar":
            got = obj.impact_parameters()
            want = F["imp"]
            ok = want.startswith("ok:") and [float(t) for t in want[3:].split(",") if t] == list(got)
            if not ok:
                ctx.brk("correspondence-broken", f"{origin}: impact_parameters() {got!r} vs model {want}", case=case)
        else:
            got = obj.get_sigmaGen()
            want = F["sig"]
            ok = want.startswith("ok:") and tuple(float(t) for t in want[3:].split(",")) == tuple(got)
            if not ok:
                ctx.brk("correspondence-broken", f"{origin}: get_sigmaGen() {got!r} vs model {want}", case=case)
        pl = plist_real(kind, obj, P)
        if pl != F["pl"]:
            ctx.brk("correspondence-broken", f"{origin}: particle_list() {pl[:200]} vs model {F['pl'][:200]}", case=case)
    return spec.enc(), compare


def data_repr(p):
    out = []
    for k in range(25):
        v = p.data_[k]
        out.append("n" if v != v else f2h(v))
    return out


def cell_value(c):
    if c == "n":
        return None
    return float(c[1:]) if c[0] == "f" else float(int(c[1:]))


def corr_particle(ctx, rng):
    """Particle(format, tokens[, attrs]) against the generated tables"""
    from sparkx.Particle import Particle
    r = rng.random()
    if r < 0.2:
        fmt, cols = "Oscar2013", OSCAR2013_COLS
        n = 12 if rng.random() < 0.85 else rng.choice([11, 13])
    elif r < 0.45:
        fmt, cols = "Oscar2013Extended", EXT_COLS
        n = rng.choice([20, 21, 22]) if rng.random() < 0.85 else rng.choice([19, 23])
    elif r < 0.6:
        fmt, cols = "JETSCAPE", JETSCAPE_COLS
        n = 7 if rng.random() < 0.85 else rng.choice([6, 8])
    else:
        fmt = "ASCII"
        cols = rng.sample(EXT_COLS, rng.randint(1, 22))
        n = len(cols) if rng.random() < 0.9 else max(1, len(cols) - rng.randint(1, 2))
    toks = [gen_tok(rng, cols[i] if i < len(cols) else "x") for i in range(n)]
    if fmt == "JETSCAPE":
        toks[3:7] = gen_momentum(rng)[:max(0, n - 3)]
        toks = toks[:n]
    attrs = [ATTR_OF[c] for c in cols] if fmt == "ASCII" else []
    line = "\t".join(["particle", fmt, ",".join(attrs), ",".join(toks)])

    def compare(ans):
        HISTORY.append(dict(op="particle", fmt=fmt, toks=toks, attrs=attrs))
        try:
            with np.errstate(all="ignore"):
                p = Particle(fmt, np.asarray(toks), attrs) if fmt == "ASCII" else Particle(fmt, np.asarray(toks))
            real = data_repr(p)
        except Exception as e:
            p, real = None, "err"
        head, F = fields(ans)
        ctx.case(("particle", fmt, tuple(attrs), tuple(toks)), fmt == "ASCII" and len(cols) > 1)
        ctx.count(f"particle/{fmt}/{'ok' if p is not None else 'raises'}")
        case = dict(op="particle", format=fmt, attrs=attrs, tokens=toks)
        if p is None or head != "ok":
            if (p is None) != (head != "ok"):
                ctx.brk("correspondence-broken", f"Particle({fmt}, {toks}, {attrs}): code {'raises' if p is None else 'ok'} vs model {ans[:60]}", case=case)
            return
        model = F["data"].split(";")
        derived = {4, 12} if fmt == "JETSCAPE" else set()
        for k in range(25):
            if k == 10 or k in derived:
                continue
            mv = cell_value(model[k])
            rv = None if real[k] == "n" else h2f(real[k])
            if (mv is None) != (rv is None) or (mv is not None and mv != rv and not (mv != mv and rv != rv)):
                ctx.brk("correspondence-broken", f"Particle({fmt}): data_[{k}] = {rv!r} in the code, model cell {model[k]}", case=case)
                return
        for g in F["get"].split(";"):
            name, val = g.split("=", 1)
            if name == "pdg_valid" or (fmt == "JETSCAPE" and name in ("mass", "charge")):
                continue
            rv = getattr(p, name)
            if val == "n":
                ok = rv != rv
            elif val.startswith("fi"):
                ok = rv == float(int(val[2:]))
            elif val.startswith("if"):
                ok = isinstance(rv, int) and rv == int(float(val[2:]))
            elif val.startswith("f"):
                ok = isinstance(rv, float) and (rv == float(val[1:]) or (rv != rv and float(val[1:]) != float(val[1:])))
            elif val.startswith("i"):
                ok = isinstance(rv, int) and rv == int(val[1:])
            else:
                ok = True
            if not ok:
                ctx.brk("correspondence-broken", f"Particle({fmt}).{name} = {rv!r} in the code, model {val}", case=case)
                return
    return line, compare


def corr_derived(ctx, rng):
    from sparkx.Particle import Particle
    pdg = rng.choice(PDG_POOL + [rng.randint(-6000, 6000), rng.randint(-6000, 6000)])
    mom = gen_momentum(rng)
    toks = ["1", str(pdg), "0"] + mom
    valid, q3 = pdg_params(pdg)
    l1 = "\t".join(["charge", "1" if valid else "0", "n" if q3 is None else str(q3)])
    vals = [float(t) for t in mom]
    l2 = "\t".join(["mass", str(pdg)] + [f2h(v) for v in vals])

    def build():
        HISTORY.append(dict(op="particle", fmt="JETSCAPE", toks=toks, attrs=[]))
        try:
            with np.errstate(all="ignore"):
                return Particle("JETSCAPE", np.asarray(toks)), None
        except Exception as e:
            return None, e

    def cmp_charge(ans):
        p, exc = build()
        head, F = fields(ans)
        real = "raise" if p is None else ("nan" if p.charge != p.charge else str(p.charge))
        ctx.case(("charge", pdg), q3 is not None and q3 % 3 != 0)
        ctx.count(f"charge/{'invalid' if not valid else 'none' if q3 is None else 'q3=' + str(q3)}")
        if head != "ok" or F["charge"] != real:
            ctx.brk("correspondence-broken", f"derived charge of pdg {pdg} (valid={valid}, three_charge={q3}): code {real} vs model {ans}",
                    case=dict(op="charge", pdg=pdg, valid=valid, three_charge=q3))

    def cmp_mass(ans):
        p, exc = build()
        if p is None:
            return
        head, F = fields(ans)
        ctx.case(("mass", pdg, tuple(mom)), pdg not in MASSLESS)
        ctx.count("mass/" + ("massless" if pdg in MASSLESS else "massive"))
        rm = float(p.mass)
        ok = head == "ok"
        if ok:
            mm = h2f(F["mass"])
            ok = (mm != mm and rm != rm) or mm == rm or abs(mm - rm) <= 1e-12 * max(abs(rm), 1e-300) or \
                (abs(mm - rm) <= 1e-6 * max(abs(vals[0]), 1.0) and abs(rm) <= 1e-6 * abs(vals[0]))
            ok = ok and (F["massless"] == "1") == (pdg in MASSLESS)
        if not ok:
            ctx.brk("correspondence-broken", f"derived mass pdg {pdg} p={mom}: code {rm!r} vs model {ans}", case=dict(op="mass", pdg=pdg, mom=mom))
    return [(l1, cmp_charge), (l2, cmp_mass)]


def corr_fmtchain(ctx, rng):
    tags = ["#!OSCAR2013", "#!OSCAR2013Extended", "#!ASCII", "#!OSCAR2013Extended", "#!FOO", "#"]
    t0 = rng.choice(tags)
    t1 = rng.choice(["particle_lists", "particle_lists", "SMASH_IC", "Photons"])
    n = rng.choice([0, 1, 5, 12, 13, 20, 21, 22])
    toks = [t0, t1] + rng.sample(EXT_COLS, n)
    line = "fmtchain\t" + ",".join(hexs(t) for t in toks)

    def compare(ans):
        real = sniff_format(toks)
        head, F = fields(ans)
        ctx.case(("fmtchain", tuple(toks)), t0 == "#!ASCII")
        ctx.count(f"fmtchain/{real}")
        if head != "ok" or F["chain"] != real or F["model"] != real:
            ctx.brk("correspondence-broken", f"set_oscar_format on {toks[:3]}… ({len(toks)} tokens): code {real} vs generated chain / model {ans}",
                    case=dict(op="fmtchain", tokens=toks))
    return line, compare


def sniff_format(toks, slot=None):
    """OscarLoader.set_oscar_format alone on a first line made of `toks`"""
    from sparkx.loader.OscarLoader import OscarLoader
    slot = slot or PATHS.fresh("oscar")
    path = PATHS.path(slot)
    HISTORY.append(dict(op="sniff", slot=slot, toks=list(toks)))
    with open(path, "w") as f:
        f.write(" ".join(toks) + "\n# x\n")
    try:
        ld = OscarLoader(path)
        try:
            ld.set_oscar_format()
            return ld.oscar_format()
        except TypeError:
            return "-"
    finally:
        if is_fresh(slot):
            os.unlink(path)


def big_files(ctx, rng):
    """structural sizes on purpose: two- and three-digit event labels in every run, four-digit ones in the thorough tier"""
    out = [gen_jspec(rng, nev=rng.randint(10, 12)), gen_ospec(rng, nev=rng.randint(10, 12)), gen_jspec(rng, nev=33), gen_ospec(rng, nev=33),
           gen_jspec(rng, nev=rng.randint(100, 130)), gen_ospec(rng, nev=rng.randint(100, 130))]
    if ctx.thorough:
        out += [gen_jspec(rng, nev=rng.randint(1000, 1100)), gen_ospec(rng, fmt="oscar2013", nev=rng.randint(1000, 1100)),
                gen_ospec(rng, fmt="ascii", nev=rng.randint(1000, 1100))]
    return out


def ascii_headers(ctx, rng):
    """single-column and ordered two-column ASCII headers: all of them in the thorough tier"""
    singles = [[c] for c in EXT_COLS]
    pairs = [[a, b] for a in EXT_COLS for b in EXT_COLS if a != b]
    if ctx.thorough:
        return singles + pairs
    return rng.sample(singles, 8) + rng.sample(pairs, 16)


# --------------------------------------------------------------------------------- generated line loops (tie C on tie T)
LOOP_CALLS = [None, None, None, [], [("charged_particles", ())], [("uncharged_particles", ())], [("multiplicity_cut", ((3, None),))],
              [("multiplicity_cut", ((100, None),))], [("particle_species", ((211, -211, 2212),))], [("remove_photons", ())],
              [("charged_particles", ()), ("multiplicity_cut", ((2, None),))]]


def loop_damage(rng, spec, lines):
    """line-level damage of a rendered file (or none): what the loop's tests and its bookkeeping have to decide about"""
    kind = rng.choice(["none", "none", "none", "delete", "duplicate", "swap", "truncate", "word", "trailer", "blank"])
    L = list(lines)
    n = len(L)
    if kind == "none" or n < 3:
        return "none", L
    i = rng.randrange(1, n)
    if kind == "delete":
        del L[i]
    elif kind == "duplicate":
        L.insert(i, L[i])
    elif kind == "swap":
        j = rng.randrange(1, n)
        L[i], L[j] = L[j], L[i]
    elif kind == "truncate":
        L = L[:max(2, i)]
    elif kind == "word":
        # a keyword of a comment line changed: the line is classified differently
        cands = [k for k, l in enumerate(L) if l.startswith("#") and k > 0]
        if cands:
            k = rng.choice(cands)
            for a, b in rng.sample([("end", "eNd"), ("out", "oUt"), ("event", "evnt"), ("Event", "event"), ("weight", "wght"),
                                    ("sigmaGen", "sigmagen"), ("#", "")], 7):
                if a in L[k]:
                    L[k] = L[k].replace(a, b, 1)
                    break
    elif kind == "trailer":
        # a second trailer / footer in the middle of the file
        if spec.is_jetscape():
            L.insert(i, L[-1])
        else:
            foot = [l for l in L if " end " in l]
            if foot:
                L.insert(i, rng.choice(foot))
    elif kind == "blank":
        L.insert(i, "")
    return kind, L


def loop_keys(ans, lines):
    """`ev=<line numbers>` of a driver answer -> first-column keys of those lines (comparable with the real particles)"""
    if not ans.startswith("ok ") or " ev=" not in ans:
        return ans
    head, ev = ans.split(" ev=", 1)
    ev = ev.split(" ")[0]

    def key(t):
        try:
            return repr(float(lines[int(t)].replace("\t", " ").split(" ")[0]))
        except Exception:
            return "?" + t
    return head + " ev=" + "|".join("." if e == "." else ",".join(key(t) for t in e.split(",")) for e in ev.split("|"))


def loop_real(spec, text, sel, filt):
    kw = {}
    if sel is not None:
        kw["events"] = sel
    if filt is not None:
        kw["filters"] = filt
    ctor, path = rmodel.open_real(spec, text, **kw)
    try:
        try:
            with np.errstate(all="ignore"):
                obj = ctor()
        except Exception as e:
            return rmodel.classify(e)
        evs = obj.particle_objects_list()
        ev_s = "|".join("." if not ev else ",".join(repr(float(rmodel.first_col_key(spec, p))) for p in ev) for ev in evs)
        fmt = obj.oscar_format() if not spec.is_jetscape() else "-"
        attrs = ",".join(obj.custom_attr_list) if not spec.is_jetscape() else ""
        foot = len(obj.event_end_lines_) if not spec.is_jetscape() else 0
        return (f"ok ne={obj.num_events()} counts={rmodel.counts_repr(obj.num_output_per_event())} fmt={fmt} attrs={attrs} "
                f"foot={foot} ev={ev_s}")
    finally:
        os.unlink(path)


def corr_genloop(ctx, rng, i):
    """one file (possibly damaged), one selector, maybe constructor filters: the real loader vs the readers assembled from the
    GENERATED loop parts (driver op `gread`)"""
    spec = rmodel.gen_spec(rng, maxpart=4)
    n = len(spec.events)
    r = rng.random()
    if r < 0.45:
        sel = None
    elif r < 0.7:
        sel = rng.randrange(0, n + 1)
    else:
        a = rng.randrange(0, n + 1)
        sel = (a, rng.randrange(max(0, a - 1), n + 1))
    calls = rng.choice(LOOP_CALLS)
    dmg, lines = loop_damage(rng, spec, spec.lines())
    text = "\n".join(lines) + ("\n" if spec.trailing_nl else "")
    kind = "oscar" if not spec.is_jetscape() else spec.kind
    if calls is not None and (dmg != "none" or (calls and spec.kind == "ascii")):
        # the filter views are keyed by the line numbers of the undamaged file; ASCII files may lack the filtered quantity
        calls = None
    try:
        views = rmodel.views_enc(spec) if calls is not None else "-"
        fenc = rmodel.filters_enc(calls)
    except Exception:
        calls, views, fenc = None, "-", "-"
    filt = None if calls is None else rmodel.filters_dict(calls)
    line = "\t".join(["gread", kind, rmodel.sel_enc(sel), fenc, views, hexs(text)])

    def compare(ans):
        case = dict(origin=f"genloop#{i}", kind=spec.kind, damage=dmg, events=repr(sel), filters=repr(filt), text=text[:1500])
        if not (ans.startswith("ok ") or ans.startswith("err ")):
            ctx.brk("correspondence-broken", f"genloop#{i}: driver answered {ans[:80]!r}", case=case)
            return
        body, tl, same = ans.rsplit(" tl=", 1)[0], ans.rsplit(" tl=", 1)[1][0], ans.rsplit(" same=", 1)[1]
        try:
            real = loop_real(spec, text, sel, filt if filt is not None else None)
        except Exception as e:
            ctx.count("genloop/real-harness-error")
            return
        gen = loop_keys(body, lines)
        ctx.count(f"genloop/{'jetscape' if spec.is_jetscape() else 'oscar'}/{dmg}/" +
                  ("all" if sel is None else "one" if not isinstance(sel, tuple) else "range") +
                  ("/filters" if filt else "") + ("/err" if not real.startswith("ok") else ""))
        ctx.case(("genloop", spec.kind, dmg, repr(sel), repr(filt), text), dmg != "none" or sel is not None or bool(filt),
                 sample=dict(origin=f"genloop#{i}", damage=dmg, events=repr(sel), code=real, generated=gen))
        if real.startswith("err other") or real.startswith("err key") or real.startswith("err notfound"):
            ctx.count("genloop/real-raises-outside-the-model-kinds")
            return
        if tl != "1":
            # a line follows a `# sigmaGen` line: outside the hypothesis of genReadJetscapeAll_eq.  After the trailer the source
            # neither resets `data` nor copies it, so the list stored in particle_list keeps growing with it (aliasing); the
            # generated definitions use values.  Counted, not compared.
            ctx.count("genloop/line-after-trailer" + ("/model-differs" if same != "1" else "") + ("/code-differs" if real != gen else ""))
            if spec.is_jetscape():
                return
        if real == gen:
            return
        if dmg != "none" and same == "1":
            # the hand-written reader says the same as the generated one: a gap of the shared model on damaged files
            # (first-pass scanners / format sniffing / Particle view), not of the loop translation; C07 owns damaged files
            ctx.count("genloop/shared-model-differs-on-damaged-file")
            return
        ctx.brk("correspondence-broken", f"genloop#{i} ({spec.kind}, damage={dmg}, events={sel}, filters={filt}): code `{real[:300]}` vs "
                f"the reader built from the GENERATED loop parts `{gen[:300]}` (hand-written reader agrees with generated: {same})",
                case=case)
    return line, compare


def correspond(ctx):
    rng = ctx.rng
    ctx.rule = ("random well-formed files (1-6 events mostly, 9-12 / 33 / 100+ events regularly, 1000+ in the thorough tier; every number in "
                "the whole variety of float()/int() literal forms of the grammar: sign, d | d. | .d | d.d, leading/trailing zeros, e/E "
                "exponents with and without sign and leading zeros, denormal to overflow, negative zero - particle columns, impact "
                "parameters, sigmaGen pair; multiplicities 0-5 mostly, 10+ and 100+ particle events with empty events at first/middle/last position, one two-digit "
                "count, Oscar2013 / Extended 20+22 columns / ASCII random column subsets and orders incl. 13 and 21 columns and all "
                "(thorough) single- and two-column headers / JETSCAPE hadron+parton, tab or blank separated headers, with or without "
                "final newline; tokens plain/exponent/negative/integral/extreme; PDG codes known, unknown, quark, gluon, photon, "
                "neutrino, diquark, nucleus) + files written by the eight GenerateFlow generators + per-call Particle / derived "
                "charge / mass / format-chain cases; non-trivial = file with an empty and a non-empty event, or an ASCII / generator "
                "file, or a multi-column ASCII particle, or a fractional charge; distinct by canonical input.  About half of the "
                "files are written to a path used before in the same process by a DIFFERENT file (pool of 3 .dat + 2 .oscar slots; Oscar "
                "and JETSCAPE content alternate on the .dat slots), plus targeted path sequences; generated files differ from each other "
                "in header lines, format tag, sigmaGen pair, event count and footers.  At random: CRLF on disk, non-ASCII / trailing blanks in "
                "free-text lines, object replaced by copy / deepcopy / pickle round trip, str-subclass path, bare relative name after chdir, "
                "np.seterr(warn), print options, advanced RNG states (global state must be left as found)")
    jobs = []
    for case in corpus():
        if case.get("spec"):
            jobs.append(corr_spec(ctx, spec_from_json(case["spec"]), "corpus#" + case.get("name", "")))
    nfiles = ctx.n(600, 5000)
    for i in range(nfiles):
        spec = gen_jspec(rng) if rng.random() < 0.4 else gen_ospec(rng)
        tag = spec.kind if spec.kind != "oscar" else spec.fmt
        ctx.count(f"file/{tag}/events={len(spec.events)}")
        if spec.kind == "oscar" and spec.fmt == "ascii":
            ctx.count(f"ascii/ncols={len(spec.cols)}")
        jobs.append(corr_spec(ctx, spec, f"{tag}#{i}", slot=PATHS.pick(rng, spec.kind), dev=gen_dev(rng)))
    for spec in big_files(ctx, rng):
        ctx.count(f"file/big/{spec.kind}/events={len(spec.events)}")
        jobs.append(corr_spec(ctx, spec, f"big#{len(spec.events)}", slot=PATHS.pick(rng, spec.kind)))
    for cols in ascii_headers(ctx, rng):
        spec = gen_ospec(rng, fmt="ascii", cols=cols, nev=rng.randint(1, 3))
        ctx.count(f"ascii/ncols={len(cols)}")
        jobs.append(corr_spec(ctx, spec, f"ascii-header#{','.join(cols)}", slot=PATHS.pick(rng, "oscar")))
    for name, extra in GENERATORS:
        for rep in range(ctx.n(1, 6)):
            nev, mult = rng.randint(1, 4), rng.randint(max(1, (extra[0] if extra else 1)), 12)
            kind, text, seed = generator_file_retry(ctx, rng, name, extra, nev, mult)
            spec = spec_of_parsed(kind, parse(kind, text))
            ctx.count(f"generator/{name}")
            jobs.append(corr_spec(ctx, spec, f"gen:{name}#{nev},{mult},{seed}", text_real=text, slot=PATHS.pick(rng, kind)))
    for k, seq in enumerate(path_sequences(rng)):
        for j, (spec, slot) in enumerate(seq):
            jobs.append(corr_spec(ctx, spec, f"pathseq{k}.{j}", slot=slot))
    for i in range(ctx.n(500, 8000)):
        jobs.append(corr_particle(ctx, rng))
    for i in range(ctx.n(250, 4000)):
        jobs += corr_derived(ctx, rng)
    for i in range(ctx.n(100, 1500)):
        jobs.append(corr_fmtchain(ctx, rng))
    if GOLDEN_LOOP.exists():
        for i in range(ctx.n(150, 1500) if not getattr(ctx, "loop_fallback", False) else 1500):
            jobs.append(corr_genloop(ctx, rng, i))
    outs = common.run_driver("C01", [l for l, _ in jobs])
    for (l, cmp_), out in zip(jobs, outs):
        cmp_(out)
        if len(ctx.broken) > 12:
            break


# =================================================================================================== sequences (state across opens)
def variant(rng, spec, j):
    """make `spec` differ from its neighbours in everything a per-path / per-class cache could remember"""
    if spec.kind == "oscar":
        spec.h3 = "# SMASH-%d.%d-seq%d" % (rng.randint(1, 3), j, rng.randint(0, 999))
        for e in spec.events:
            b = "%d.%03d" % (j + 1, rng.randint(0, 999))
            e["footer"], e["impact"] = smash_footer(rng, e["label"], b)
    else:
        spec.sigma = ("%d.%03d" % (j + 1, rng.randint(0, 999)), "%de-0%d" % (rng.randint(1, 9), j + 1))
        sep = "\t" if "\t" in spec.trailer else " "
        spec.trailer = sep.join(["#", "sigmaGen", spec.sigma[0], "sigmaErr", spec.sigma[1]])
    return spec


def path_sequences(rng):
    """short sequences aimed at state kept between opens: three different files of one family on ONE path; Oscar flavours
    alternating on one path; Oscar and JETSCAPE content alternating on one `.dat` path; hadron and parton files on one path;
    ASCII files with the same column SET in different orders (same path and different paths); the same text twice.
    Each sequence uses its own slots (`S<k>…`), so nothing of the random pool interferes."""
    out = []
    k = [0]

    def slot(sfx):
        k[0] += 1
        return "S%d%s" % (k[0], sfx)

    def oscar(fmt, **kw):
        return gen_ospec(rng, fmt=fmt, nev=rng.randint(1, 3), **kw)
    fams = {"jetscape": lambda: gen_jspec(rng, partons=False, nev=rng.randint(1, 3)),
            "jetscapeP": lambda: gen_jspec(rng, partons=True, nev=rng.randint(1, 3)),
            "oscar2013": lambda: oscar("oscar2013"), "extended": lambda: oscar("extended"), "ascii": lambda: oscar("ascii")}
    for name in fams:
        sl = slot(".dat" if name.startswith("jetscape") or rng.random() < 0.5 else ".oscar")
        out.append([(variant(rng, fams[name](), j), sl) for j in range(3)])
    for names in (["oscar2013", "extended", "ascii"], ["jetscape", "oscar2013", "jetscapeP", "ascii"], ["jetscape", "jetscapeP", "jetscape"],
                  ["extended", "jetscape", "extended"]):
        sl = slot(".dat")
        out.append([(variant(rng, fams[n](), j), sl) for j, n in enumerate(names)])
    # same ASCII column set, other order
    cols = rng.sample(EXT_COLS, rng.randint(3, 8))
    perms = [cols, cols[::-1], rng.sample(cols, len(cols))]
    sl = slot(".oscar")
    out.append([(variant(rng, oscar("ascii", cols=c), j), sl) for j, c in enumerate(perms)])
    out.append([(variant(rng, oscar("ascii", cols=c), j), None) for j, c in enumerate(perms)])
    # the same file twice, then another one
    sp = fams["jetscape"]()
    sl = slot(".dat")
    out.append([(sp, sl), (sp, sl), (variant(rng, fams["jetscape"](), 2), sl)])
    return out


def run_steps(steps):
    """replay a history in THIS process; returns the property failures of the last step (an `open`)"""
    from sparkx.Particle import Particle
    last = []
    for st in steps:
        if st["op"] == "open":
            try:
                last = check_file(st["kind"], st["text"], slot=st["slot"], dev=st.get("dev"))
            except NotWellFormed:
                last = []
        elif st["op"] == "particle":
            HISTORY.append(st)
            try:
                with np.errstate(all="ignore"):
                    Particle(st["fmt"], np.asarray(st["toks"]), st["attrs"]) if st["fmt"] == "ASCII" else Particle(st["fmt"], np.asarray(st["toks"]))
            except Exception:
                pass
        elif st["op"] == "sniff":
            sniff_format(st["toks"], st["slot"])
    return last


def fresh_process_fails(steps, timeout=600):
    """run `steps` in a NEW Python process (same tree under test); failures [(key, what)] of the last step, None if the run broke"""
    fd, inp = tempfile.mkstemp(suffix=".json", prefix="verif_c01_seq_", dir=os.environ.get("VERIF_TMP", "/tmp"))
    out = inp + ".out"
    try:
        with os.fdopen(fd, "w") as f:
            json.dump(dict(property="C01", sequence=steps), f)
        env = dict(os.environ, C01_SEQ_OUT=out)
        subprocess.run([sys.executable, str(common.VERIF / "harness" / "main.py"), "C01", "--replay", inp], env=env,
                       capture_output=True, text=True, timeout=timeout)
        if not os.path.exists(out):
            return None
        return [tuple(x) for x in json.load(open(out))]
    except Exception:
        return None
    finally:
        for f in (inp, out):
            if os.path.exists(f):
                os.unlink(f)


def fresh_many(cands, key):
    """does `key` fail at the end of each candidate history, each in its own new process (run in parallel)"""
    if not cands:
        return []
    with ThreadPoolExecutor(max_workers=min(12, len(cands))) as ex:
        res = list(ex.map(fresh_process_fails, cands))
    return [r is not None and any(k == key for k, _ in r) for r in res]


def shrink_sequence(steps, key, max_trials=160):
    """`steps[-1]` fails with `key` after `steps[:-1]` but not alone.  Returns a (locally) minimal history that still makes it
    fail in a new process, or None when no history reproduces it there."""
    last, pre = steps[-1], steps[:-1]
    trials = [0]

    def test(cands):
        trials[0] += len(cands)
        return fresh_many([c + [last] for c in cands], key)

    starts = [[s for s in pre if s.get("slot") == last["slot"]],
              [s for s in pre if s["op"] == "open" and s["kind"] == last["kind"]],
              [s for s in pre if s["op"] == "open"], pre]
    starts = [c for i, c in enumerate(starts) if c and c not in starts[:i]]
    ok = test(starts)
    cur = next((c for c, o in zip(starts, ok) if o), None)
    if cur is None:
        return None
    n = 2
    while len(cur) >= 2 and trials[0] < max_trials:
        size = -(-len(cur) // n)
        chunks = [cur[i:i + size] for i in range(0, len(cur), size)]
        subsets = chunks if len(chunks) > 1 else []
        compl = [[x for j, c in enumerate(chunks) if j != i for x in c] for i in range(len(chunks))] if len(chunks) > 2 else []
        cands = (subsets + compl)[:24]
        ok = test(cands)
        hit = next((i for i, o in enumerate(ok) if o), None)
        if hit is not None:
            cur = cands[hit]
            n = 2 if hit < len(subsets) else max(n - 1, 2)
        elif n >= len(cur):
            break
        else:
            n = min(2 * n, len(cur))
    # smaller files inside the history: one event, at most one particle
    for i in range(len(cur) + 1):
        st = (cur + [last])[i]
        if st["op"] != "open" or trials[0] >= max_trials:
            continue
        try:
            sp = spec_of_parsed(st["kind"], parse(st["kind"], st["text"]))
        except NotWellFormed:
            continue
        cands_sp = []
        if len(sp.events) > 1:
            cands_sp.append(clone(sp, [dict(sp.events[0])]))
            ne = next((e for e in sp.events if e["parts"]), None)
            if ne is not None:
                cands_sp.append(clone(sp, [dict(ne, parts=ne["parts"][:1])]))
        elif sp.events and len(sp.events[0]["parts"]) > 1:
            cands_sp.append(clone(sp, [dict(sp.events[0], parts=sp.events[0]["parts"][:1])]))
        for c in cands_sp:
            st2 = dict(st, text=c.text())
            full = (cur + [last])
            full = full[:i] + [st2] + full[i + 1:]
            trials[0] += 1
            if fresh_many([full], key)[0]:
                cur, last = full[:-1], full[-1]
                break
    return cur + [last]


def renamed_fresh(steps):
    """the same history with every path used only once"""
    out = []
    for i, st in enumerate(steps):
        out.append(dict(st, slot="f9%03d%s" % (i, os.path.splitext(st["slot"])[1])) if "slot" in st else st)
    return out


def describe_sequence(steps):
    d = []
    for st in steps:
        if st["op"] == "open":
            d.append(f"open {st['kind']} file{' [' + dev_tag(st.get('dev')) + ']' if st.get('dev') else ''} on path slot {st['slot']} ({len(st['text'])} bytes, first line {st['text'].splitlines()[0][:60]!r}, "
                     f"last line {st['text'].splitlines()[-1][:60]!r})")
        elif st["op"] == "particle":
            d.append(f"Particle({st['fmt']!r}, {len(st['toks'])} tokens, attrs={st['attrs']})")
        else:
            d.append(f"set_oscar_format on first line {' '.join(st['toks'])[:60]!r} (slot {st['slot']})")
    return d


# =================================================================================================== search (oracle)
def search(ctx, budget_s):
    rng = ctx.rng
    t0 = time.time()
    n = 0
    found = set()
    nseq = [0]
    ndev = {}

    def report(spec, fails, origin, hist_len):
        """`hist_len` = length of HISTORY right after the failing open (its last entry is that open)"""
        for key, what in fails:
            step = dict(HISTORY[hist_len - 1])
            if len(found) >= 10 or any(f.startswith(key + ":sequence:") for f in found):
                continue
            if key in found and (not step.get("dev") or ndev.get(key, 0) >= 3):
                continue
            if step.get("dev"):
                ndev[key] = ndev.get(key, 0) + 1
            alone = fresh_process_fails([dict(step, slot="f1" + os.path.splitext(step["slot"])[1])])
            if alone is not None and not any(k == key for k, _ in alone):
                # the file is read correctly by a new process: the failure needs what happened before in this one
                if nseq[0] >= 2:
                    continue
                nseq[0] += 1
                seq = shrink_sequence([dict(x) for x in HISTORY[:hist_len]], key)
                if seq is None:
                    found.add(key + ":sequence:not-reproduced")
                    ctx.violation(key + ":sequence:not-reproduced", what + " — fails in the checking process but neither alone nor after "
                                  "the recorded history in a new process", dict(input=spec.to_json(), text=spec.text(), origin=origin))
                    continue
                sym = "process-state" if fresh_many([renamed_fresh(seq)], key)[0] else "path-reuse"
                w2 = [w for k, w in (fresh_process_fails(seq) or []) if k == key]
                skey = f"{key}:sequence:{sym}"
                found.add(skey)
                ctx.violation(skey, (w2[0] if w2 else what) + f" — only after {len(seq) - 1} earlier step(s) in the same process "
                              + ("(any paths)" if sym == "process-state" else "(an earlier, different file on the same path)")
                              + "; the same file alone is read correctly",
                              dict(sequence=seq, steps=describe_sequence(seq), text=seq[-1]["text"], origin=origin,
                                   how_to_replay="./check C01 --replay <this file>  (runs the whole sequence in a new process)"))
                continue
            # which of the devices does the failure need?  (none: the plain file fails as well)
            mdev = dict(step.get("dev") or {})
            for d_ in sorted(mdev):
                trial = {k: v for k, v in mdev.items() if k != d_}
                try:
                    if any(k == key for k, _ in check_file(spec.kind, spec.text(), dev=trial)):
                        mdev = trial
                except Exception:
                    pass
            if isinstance(mdev.get("env"), list) and len(mdev["env"]) > 1:
                for e_ in list(mdev["env"]):
                    trial = dict(mdev, env=[x for x in mdev["env"] if x != e_])
                    if any(k == key for k, _ in check_file(spec.kind, spec.text(), dev=trial)):
                        mdev = trial
            fkey = key + ("/with:" + dev_tag(mdev) if mdev else "")
            if fkey in found:
                continue
            found.add(fkey)
            if not mdev:
                ndev[key] = 99
            small = spec
            try:
                small = shrink_spec(spec, key, mdev)
                w2 = [w for k, w in check_file(small.kind, small.text(), dev=mdev) if k == key]
                what = w2[0] if w2 else what
            except Exception:
                pass
            if mdev:
                what += f" — when opened with {dev_tag(mdev)}; the same file opened plainly is read correctly"
            ctx.violation(fkey, what, dict(input=small.to_json(), dev=mdev, text=small.text(), origin=origin,
                                           how_to_replay="./check C01 --replay <this file>"))

    def run(spec, origin, slot=None, dev=None):
        fails = check_file(spec.kind, spec.text(), slot=slot, dev=dev)
        hl = len(HISTORY)
        ctx.case(("oracle", spec.text(), slot is not None, dev_tag(dev)), True)
        ctx.count("oracle-path/" + ("re-used" if slot is not None else "fresh"))
        for d_ in (dev or {}):
            ctx.count(f"oracle-device/{d_}")
        if fails:
            report(spec, fails, origin, hl)

    for case in corpus():
        if case.get("spec"):
            n += 1
            run(spec_from_json(case["spec"]), "corpus")
    # the classes a random draw hits rarely go first
    targeted = [(gen_ospec(rng, fmt="ascii", cols=rng.sample(EXT_COLS, k), nev=2), None) for k in (13, 21, 13, 21)]
    for pdg in (2203, -2203, 3133052, 1103, 2101, 1, 21, 22, 12, 99999999):
        e = [dict(label=1, parts=[["0", str(pdg), "0", "5.0", "1.0", "2.0", "3.0"]], header=jet_header(True, "\t", 1, 1))]
        targeted.append((JSpec(True, e, "#\tsigmaGen\t0.1\tsigmaErr\t0.01", ("0.1", "0.01")), None))
    for seq in path_sequences(rng):
        targeted += seq
    targeted += [(sp, PATHS.pick(rng, sp.kind)) for sp in big_files(ctx, rng)]
    limit = 4000 if ctx.thorough else 500
    while n < limit and (time.time() - t0 < budget_s or n < len(targeted) + 40):
        if targeted:
            (spec, slot), origin = targeted.pop(0), "targeted"
        elif rng.random() < 0.08:
            name, extra = rng.choice(GENERATORS)
            nev, mult = rng.randint(1, 3), rng.randint(3, 8)
            kind, text, seed = generator_file_retry(ctx, rng, name, extra, nev, mult)
            spec, origin = spec_of_parsed(kind, parse(kind, text)), f"gen:{name}({nev},{mult},{seed})"
            slot = PATHS.pick(rng, kind)
        else:
            spec, origin = (gen_jspec(rng) if rng.random() < 0.4 else gen_ospec(rng)), "random"
            slot = PATHS.pick(rng, spec.kind)
        n += 1
        run(spec, origin, slot, gen_dev(rng) if origin != "targeted" or rng.random() < 0.3 else None)
    ctx.cov["oracle_cases"] = n
    ctx.cov["history_steps"] = len(HISTORY)
    ctx.count("oracle", n)


def corpus():
    p = common.VERIF / "harness/corpus/C01"
    out = []
    if p.exists():
        for f in sorted(p.glob("*.json")):
            d = json.loads(f.read_text())
            d.setdefault("name", f.stem)
            out.append(d)
    return out


def replay(ctx, path):
    d = json.loads(open(path).read())
    if d.get("sequence"):
        # a history: every step in order, in this (new) process; the verdict is about the last open
        fails = run_steps(d["sequence"])
        if os.environ.get("C01_SEQ_OUT"):
            with open(os.environ["C01_SEQ_OUT"], "w") as f:
                json.dump(fails, f)
            return 0
        base = (d.get("key") or "").split(":sequence:")[0]
        for line in describe_sequence(d["sequence"]):
            print("[C01] step:", line)
        hit = [(k, w) for k, w in fails if not base or k == base]
        if hit:
            print(f"VIOLATION property=C01 replay={path}")
            for k, w in hit:
                print(f"  [{k}] after the steps above: {w}")
            return 1
        print("[C01] replay: the last file of the sequence is read correctly now")
        return 0
    inp = d.get("input")
    if not inp:
        print(f"[C01] replay file names a broken obligation, not an input: {d.get('broken')}")
        return 1
    spec = spec_from_json(inp)
    dev = d.get("dev") or {}
    fails = check_file(spec.kind, spec.text(), dev=dev)
    base = (d.get("key") or "").split("/with:")[0]
    if dev:
        print("[C01] opened with:", dev_tag(dev))
        fails = [(k, w) for k, w in fails if not base or k == base] or fails
    ans = common.run_driver("C01", [spec.enc()])[0]
    print("[C01] model:", " | ".join(p for p in ans.split("\t") if not p.startswith("text="))[:600])
    if fails:
        print(f"VIOLATION property=C01 replay={path}")
        for k, w in fails:
            print(f"  [{k}] {w}")
        return 1
    print("[C01] replay: property holds on this input now")
    return 0
