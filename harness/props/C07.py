"""C07 — truncated or damaged input is detected, never silently mis-loaded.  Tie C (exact, structural).

For every generated well-formed file (Oscar2013, Oscar2013Extended with 20/22 columns, ASCII, JETSCAPE hadron and
parton) the harness enumerates EVERY byte offset (the file cut to its first k bytes, k = 0 … len) and every single
deletion / duplication of a particle line, opens each damaged file with the real `Oscar` / `Jetscape` class (process
pool) and compares with the Lean driver working on the same bytes (`cuts`, `lines` ops of Drv/C07.lean):

* outcome: error (exception classes are recorded, not compared) or the canonical `ok ne=… counts=… ev=…` string;
* per offset the driver also reports (S) that splitting the real prefix at newlines gives "first j lines + partial
  line" as the theorems assume, (H) that the hypotheses `prefixHyp` / `jprefixHyp` of the byte-level theorem hold for
  the observations of the partial line, (T) that the model's outcome is one the theorem allows — all must be `Y`;
* the `wf` op checks on the real bytes that the file is well-formed *as observed* (`OFile.wf` / `JFile.wf`: every
  line has the substring features and tokens of its kind) — the classification lemma is checked, not proved.

Every deletion / duplication and a sample of the byte cuts (all cuts inside or behind a trailer line, every 4th other
one) are ALSO opened with a keep-everything constructor filter (`filters={}`, `{'charged_particles': False}`,
`{'uncharged_particles': False}`): the loaders then take the per-event count-rewriting path and the guard of the final
event-count check sees keyword arguments; the outcome must be the same class (model: `readOscar f .all (some idFilter)`).

Oracle (`search`): independent of the model — from the `FileSpec` alone: a cut may only ever give an error, or, when
it falls behind at least one character of an event's trailer line (up to and including its newline), exactly the
events up to that one with matching `num_events` and `(label, count)` rows; JETSCAPE: only inside / behind the
final `sigmaGen` line; a lost or duplicated particle line must give an error.
"""
import concurrent.futures as cf
import hashlib
import json
import os
import time
import warnings

import common
import rmodel
from common import hexs

warnings.filterwarnings("ignore")

KINDS = ["oscar2013", "extended", "ascii", "jetscape", "jetscapeP"]
if os.path.isdir("/dev/shm"):
    os.environ.setdefault("VERIF_TMP", "/dev/shm")
NPROC = min(16, os.cpu_count() or 4)


# ----------------------------------------------------------------------------- specs
def drv_kind(spec):
    return "oscar" if not spec.is_jetscape() else spec.kind


NONASCII = [" (Universität Frankfurt)", " µ=0 β≈1 — ℏc", " données à 200 GeV", " 衝突 ☢", " naïve café", "  ", " \t"]


class DSpec(rmodel.FileSpec):
    """a FileSpec whose free-text comment lines (Oscar: units and version line, JETSCAPE: column-header line) carry extra
    text: non-ASCII characters (UTF-8 on disk) or trailing blanks / tabs"""
    deco = None

    def lines(self):
        L = super().lines()
        if self.deco:
            idx = [0] if self.is_jetscape() else [1, 2]
            for i, d in zip(idx, self.deco):
                L[i] = L[i] + d
        return L


def spec_to_json(spec):
    d = dict(kind=spec.kind, cols=list(spec.cols), events=[[list(r) for r in ev] for ev in spec.events],
             tab_headers=spec.tab_headers, trailing_nl=spec.trailing_nl, impacts=list(spec.impacts),
             sigma=list(spec.sigma))
    if getattr(spec, "deco", None):
        d["deco"] = list(spec.deco)
    return d


def spec_from_json(d):
    s = DSpec(d["kind"], d["cols"], d["events"], tab_headers=d.get("tab_headers", True),
              trailing_nl=d.get("trailing_nl", True), impacts=d.get("impacts"),
              sigma=tuple(d.get("sigma", ("0.000314633", "6.06164e-07"))))
    s.deco = d.get("deco")
    return s


def gen_spec(rng, kind, style=None):
    """a well-formed file; styles push towards the boundary cases of the property"""
    style = style or rng.choice(["plain", "plain", "two-digit-labels", "two-digit-count", "empties", "single", "no-nl"])
    if style == "two-digit-labels":
        nev, maxpart = rng.randint(11, 13), 2
    elif style == "single":
        nev, maxpart = 1, 4
    else:
        nev, maxpart = rng.randint(1, 5), 4
    spec = rmodel.gen_spec(rng, kinds=[kind], nev=nev, maxpart=maxpart, two_digit=False)
    if style == "two-digit-count":
        e = rng.randrange(len(spec.events))
        uid = 1000
        spec.events[e] = [rmodel.gen_row(rng, spec.cols, uid + i) for i in range(rng.randint(10, 13))]
    if style == "empties":
        for e in {0, len(spec.events) - 1, rng.randrange(len(spec.events))}:
            if rng.random() < 0.7:
                spec.events[e] = []
    if style == "no-nl" or rng.random() < 0.15:
        spec.trailing_nl = False
    if not spec.is_jetscape() and rng.random() < 0.3:
        spec.impacts = [rng.choice(["0.000", "12.345", "1e+01", "7"]) for _ in spec.events]
    spec = spec_from_json(spec_to_json(spec))
    if rng.random() < 0.25:
        spec.deco = [rng.choice(NONASCII) for _ in range(1 if spec.is_jetscape() else 2)]
        style += "+free-text"
    return spec, style


def file_id(text):
    return hashlib.sha1(text.encode()).hexdigest()[:12]


# ----------------------------------------------------------------------------- layout of a file (from the spec only)
class Layout:
    """byte offsets of the lines of a rendered spec and of its events"""

    def __init__(self, spec):
        self.spec = spec
        self.lines = spec.lines()
        self.text = spec.text()
        self.start = []
        o = 0
        for l in self.lines:
            self.start.append(o)
            o += len(l) + 1
        self.nhdr = 1 if spec.is_jetscape() else 3
        self.kindof = []          # per line: hdr | out | part | end | head | trailer
        self.trailer_of = []      # per event: line index of its `end` line (Oscar)
        n = self.nhdr
        self.kindof = ["hdr"] * self.nhdr
        for ev in spec.events:
            self.kindof.append("head" if spec.is_jetscape() else "out")
            self.kindof += ["part"] * len(ev)
            n += 1 + len(ev)
            if not spec.is_jetscape():
                self.kindof.append("end")
                self.trailer_of.append(n)
                n += 1
        if spec.is_jetscape():
            self.kindof.append("trailer")
        assert len(self.kindof) == len(self.lines)

    def line_of(self, k):
        """(line index j, chars of it that survive) for the cut to k bytes; j = number of complete lines"""
        j = 0
        while j < len(self.lines) and self.start[j] + len(self.lines[j]) + 1 <= k:
            j += 1
        if j == len(self.lines):
            return j, 0
        return j, k - self.start[j]

    def position_class(self, k):
        j, c = self.line_of(k)
        if j == len(self.lines):
            return "complete"
        kind = self.kindof[j]
        if c == 0:
            return "boundary-before-" + kind
        if c == len(self.lines[j]):
            return "whole-line-no-newline-" + kind
        return "inside-" + kind

    def allowed_events(self, k):
        """None (only an error is acceptable) or the number m of events that may be returned"""
        spec = self.spec
        if spec.is_jetscape():
            t = len(self.lines) - 1
            return len(spec.events) if k > self.start[t] else None
        for i, t in enumerate(self.trailer_of):
            lo = self.start[t]
            hi = self.start[t] + len(self.lines[t]) + 1
            if lo < k <= hi:
                return i + 1
        return None

    def expected_ok(self, m):
        """canonical (ne, counts, ev) of the first m events, from the spec"""
        spec = self.spec
        lns = spec.particle_line_numbers()
        counts = ",".join(f"{spec.labels[i]}.{len(spec.events[i])}" for i in range(m))
        ev = "|".join("." if not lns[i] else ",".join(str(x) for x in lns[i]) for i in range(m))
        return str(m), "2d:" + counts, ev


def parse_ok(s):
    """'ok ne=… counts=… fmt=… attrs=… foot=… ev=…' -> dict"""
    d = {}
    for part in s[3:].split(" "):
        k, _, v = part.partition("=")
        d[k] = v
    return d


def oracle(layout, k, real):
    """None or a description of how the real outcome violates the property at cut k"""
    if real.startswith("err"):
        return None
    if not real.startswith("ok "):
        return f"unclassifiable outcome {real!r}"
    d = parse_ok(real)
    m = layout.allowed_events(k)
    # internal consistency first (counts vs lists vs num_events)
    evs = d.get("ev", "").split("|") if d.get("ev", "") != "" else []
    lens = [0 if e == "." else len(e.split(",")) for e in evs]
    rows = d.get("counts", "")
    if not rows.startswith("2d:"):
        return f"counts are not a (n,2) array: {rows}"
    rr = [tuple(int(x) for x in r.split(".")) for r in rows[3:].split(",")] if rows[3:] else []
    if [c for _, c in rr] != lens or str(len(evs)) != d.get("ne"):
        return f"counts {rows} / num_events {d.get('ne')} disagree with the returned lists (lengths {lens})"
    if m is None:
        return f"returned {len(evs)} event(s) although the cut is not at an event boundary / inside a trailer"
    ne, counts, ev = layout.expected_ok(m)
    if (d.get("ne"), d.get("counts"), d.get("ev")) != (ne, counts, ev):
        return (f"expected exactly the {m} complete event(s) ne={ne} counts={counts} ev={ev}, "
                f"got ne={d.get('ne')} counts={d.get('counts')} ev={d.get('ev')}")
    return None


# ----------------------------------------------------------------------------- real code (worker processes)
# keep-everything constructor options: the loaders take a different path as soon as `filters` is given (per-event count
# rewriting) and the guard of the final event-count check looks at the keyword arguments
KEEP_ALL = [dict(filters={}), dict(filters={"charged_particles": False}), dict(filters={"uncharged_particles": False})]


def keep_all_kw(i):
    return KEEP_ALL[i % len(KEEP_ALL)]


def cut_sampled(lay, fidx, k):
    """byte cuts that are ALSO opened with a keep-everything filter: every cut where a successful load is conceivable
    (inside / behind a trailer line) and every 4th of the others"""
    return lay.allowed_events(k) is not None or (k + fidx) % 4 == 0


# ----------------------------------------------------------------------------- round-4 devices (sampled variants)
ENVS = ["chdir", "nperr", "rng", "print"]
COPIES = ["copy", "deepcopy", "pickle"]


def gen_device(rng, ends_before_newline=False):
    """how a damaged file is written and opened, besides the plain way"""
    dev = {}
    u = rng.random()
    if u < 0.45:
        dev["eol"] = "crlf"
        if ends_before_newline and rng.random() < 0.5:
            dev["eol"] = "crlf-cr"      # the CRLF file cut between its CR and its LF
    if rng.random() < 0.6 or not dev:
        dev["env"] = sorted(rng.sample(ENVS, rng.randint(1, 3)))
    if rng.random() < 0.3:
        dev["copy"] = rng.choice(COPIES)
    return dev


def canon_obj(spec, obj):
    key2line = {}
    for ev, lns in zip(spec.events, spec.particle_line_numbers()):
        for row, ln in zip(ev, lns):
            key2line[float(row[0])] = ln
    evs = obj.particle_objects_list()
    ev_s = "|".join("." if not ev else ",".join(str(key2line.get(rmodel.first_col_key(spec, p), -1)) for p in ev) for ev in evs)
    fmt = obj.oscar_format() if not spec.is_jetscape() else "-"
    attrs = ",".join(obj.custom_attr_list) if not spec.is_jetscape() else ""
    foot = len(obj.event_end_lines_) if not spec.is_jetscape() else 0
    return (f"ok ne={obj.num_events()} counts={rmodel.counts_repr(obj.num_output_per_event())} fmt={fmt} attrs={attrs} "
            f"foot={foot} ev={ev_s}")


def run_variant(spec, text, dev, data=None, **kw):
    """open the (damaged) text with the real class under the devices `dev`; returns (canonical outcome, problems).
    `data`: raw bytes to write instead of the encoded text (cuts inside a multi-byte character)."""
    import copy
    import pickle
    import random as _random
    import shutil
    import tempfile
    import numpy as np
    from sparkx.Oscar import Oscar
    from sparkx.Jetscape import Jetscape
    problems = []
    eol = dev.get("eol")
    if data is None:
        t = text.replace("\n", "\r\n") if eol else text
        if eol == "crlf-cr":
            t += "\r"
        data = t.encode("utf-8")
    env = dev.get("env") or []
    d = tempfile.mkdtemp(prefix="verif_c07_", dir=os.environ.get("VERIF_TMP", "/tmp"))
    name = "x" + spec.suffix()
    with open(os.path.join(d, name), "wb") as f:
        f.write(data)
    saved = dict(cwd=os.getcwd(), err=np.geterr(), po=np.get_printoptions())
    try:
        path = os.path.join(d, name)
        if "chdir" in env:
            os.chdir(d)
            path = name
        if "print" in env:
            np.set_printoptions(precision=2, threshold=3, linewidth=40, suppress=True)
        if "rng" in env:
            _random.seed(12345)
            _random.random()
            np.random.seed(54321)
            np.random.rand(3)
        np.seterr(all="warn" if "nperr" in env else "ignore")
        before = (os.getcwd(), dict(np.geterr()), _random.getstate(), np.random.get_state()[1].tobytes(), np.random.get_state()[2])
        kw2 = dict(kw, particletype="parton") if spec.kind == "jetscapeP" else dict(kw)
        try:
            obj = Jetscape(path, **kw2) if spec.is_jetscape() else Oscar(path, **kw2)
            err = None
        except Exception as e:
            obj, err = None, rmodel.classify(e)
        after = (os.getcwd(), dict(np.geterr()), _random.getstate(), np.random.get_state()[1].tobytes(), np.random.get_state()[2])
        for what, a, b in zip(("cwd", "np.geterr()", "random state", "np.random state", "np.random position"), before, after):
            if a != b:
                problems.append(f"opening the file changed {what}")
        if err is not None:
            return err, problems
        out = canon_obj(spec, obj)
        c = dev.get("copy")
        if c:
            try:
                o2 = copy.copy(obj) if c == "copy" else copy.deepcopy(obj) if c == "deepcopy" else pickle.loads(pickle.dumps(obj))
                out2 = canon_obj(spec, o2)
            except Exception as e:
                out2 = f"copy-failed:{type(e).__name__}"
            if out2 != out:
                problems.append(f"the {c} of the loaded object shows `{out2}`, the object itself `{out}`")
            out = out2 if out2.startswith("ok") else out
        return out, problems
    finally:
        os.chdir(saved["cwd"])
        np.seterr(**saved["err"])
        np.set_printoptions(**saved["po"])
        shutil.rmtree(d, ignore_errors=True)


def real_outcome(spec, text, kw=None, dev=None, data=None):
    kw = kw or {}
    if not dev and data is None:
        return rmodel.run_real(spec, text=text, **kw)
    return run_variant(spec, text, dev or {}, data=data, **kw)[0]


def variant_rng(vseed, *what):
    import random as _random
    return _random.Random(f"{vseed}/" + "/".join(str(w) for w in what))


def midchar_cuts(text):
    """byte prefixes of the UTF-8 file that end inside a multi-byte character: [(char offset, bytes)]"""
    out = []
    b = 0
    for k, ch in enumerate(text):
        n = len(ch.encode("utf-8"))
        if n > 1:
            for j in range(1, n):
                out.append((k, text[:k].encode("utf-8") + ch.encode("utf-8")[:j]))
        b += n
    return out


def _real_cuts(args):
    """per cut k: (plain outcome, outcome with a keep-everything filter | None, device variant | None)"""
    spec, fidx, vseed, lo, hi = args
    text = spec.text()
    lay = Layout(spec)
    out = []
    for k in range(lo, hi):
        r = rmodel.run_real(spec, text=text[:k])
        samp = cut_sampled(lay, fidx, k)
        rf = rmodel.run_real(spec, text=text[:k], **keep_all_kw(k)) if samp else None
        rv = None
        vr = variant_rng(vseed, "cut", k)
        if (samp and vr.random() < 0.5) or vr.random() < 0.04:
            dev = gen_device(vr, ends_before_newline=k < len(text) and text[k] == "\n")
            kw = keep_all_kw(k) if vr.random() < 0.3 else {}
            o, probs = run_variant(spec, text[:k], dev, **kw)
            rv = dict(dev=dev, kw=kw, out=o, problems=probs)
        out.append((r, rf, rv))
    return out


def _real_midchar(args):
    """cuts inside a multi-byte character of a non-ASCII header line (no model counterpart: not a string)"""
    spec, vseed = args
    out = []
    for k, data in midchar_cuts(spec.text()):
        vr = variant_rng(vseed, "mid", len(data))
        dev = gen_device(vr) if vr.random() < 0.5 else {}
        dev.pop("eol", None)
        o, probs = run_variant(spec, None, dev, data=data)
        out.append(dict(cut=k, nbytes=len(data), dev=dev, out=o, problems=probs))
    return out


def _damaged_texts(spec):
    """[(line index, text with the line deleted, text with the line duplicated)] for every particle line"""
    lines = spec.lines()
    end = "\n" if spec.trailing_nl else ""
    out = []
    for ev in spec.particle_line_numbers():
        for i in ev:
            out.append((i, "\n".join(lines[:i] + lines[i + 1:]) + end, "\n".join(lines[:i + 1] + lines[i:]) + end))
    return out


def _real_lines(args):
    """per particle line: (line, deleted, duplicated, [deleted, duplicated under each keep-everything option],
    [device variants: dict(damage, dev, kw, out, problems)])"""
    spec, vseed = args
    res = []
    for i, d, u in _damaged_texts(spec):
        var = []
        for what, t in (("delete", d), ("duplicate", u)):
            vr = variant_rng(vseed, what, i)
            dev = gen_device(vr)
            kw = vr.choice(KEEP_ALL) if vr.random() < 0.4 else {}
            o, probs = run_variant(spec, t, dev, **kw)
            var.append(dict(damage=what, dev=dev, kw=kw, out=o, problems=probs))
        res.append((i, rmodel.run_real(spec, text=d), rmodel.run_real(spec, text=u),
                    [(rmodel.run_real(spec, text=d, **kw), rmodel.run_real(spec, text=u, **kw)) for kw in KEEP_ALL], var))
    return res


def real_all(pool, specs, vseed=0):
    """per spec: (outcomes of all cuts, outcomes of all deletions/duplications, cuts inside multi-byte characters)"""
    jobs = []
    for si, spec in enumerate(specs):
        n = len(spec.text()) + 1
        step = max(50, n // 6)
        for lo in range(0, n, step):
            jobs.append((si, lo, pool.submit(_real_cuts, (spec, si, f"{vseed}/{si}", lo, min(n, lo + step)))))
    ljobs = [pool.submit(_real_lines, (spec, f"{vseed}/{si}")) for si, spec in enumerate(specs)]
    mjobs = [pool.submit(_real_midchar, (spec, f"{vseed}/{si}")) if getattr(spec, "deco", None) else None for si, spec in enumerate(specs)]
    cuts = [dict() for _ in specs]
    for si, lo, fut in jobs:
        cuts[si][lo] = fut.result()
    res = []
    for si, spec in enumerate(specs):
        flat = []
        for lo in sorted(cuts[si]):
            flat += cuts[si][lo]
        res.append((flat, ljobs[si].result(), mjobs[si].result() if mjobs[si] else []))
    return res


# ----------------------------------------------------------------------------- model (driver)
def render_line(spec):
    """the spec itself, for the Lean rendering of the grammar (`OSpec.text` / `JSpec.text`)"""
    evs = "|".join(";".join(",".join(r) for r in ev) for ev in spec.events)
    extra = ",".join(spec.sigma) if spec.is_jetscape() else ",".join(spec.impacts)
    return "\t".join(["render", spec.kind, "1" if spec.trailing_nl else "0", "1" if spec.tab_headers else "0",
                      ",".join(spec.cols), evs, extra])


def _drive(specs):
    lines = []
    for spec in specs:
        k, h = drv_kind(spec), hexs(spec.text())
        lines += ["\t".join(["wf", k, h]), "\t".join(["cuts", k, h]), "\t".join(["lines", k, h]), render_line(spec)]
    outs = common.run_driver("C07", lines)
    return [outs[4 * i:4 * i + 4] for i in range(len(specs))]


def model_all(specs, nthreads=8):
    if not specs:
        return []
    chunks = [specs[i::nthreads] for i in range(nthreads) if specs[i::nthreads]]
    with cf.ThreadPoolExecutor(len(chunks)) as tp:
        parts = list(tp.map(_drive, chunks))
    out = [None] * len(specs)
    for ci, part in enumerate(parts):
        for j, o in enumerate(part):
            out[ci + j * nthreads] = o
    return out


def same_outcome(model, real):
    if model.startswith("err") and real.startswith("err"):
        return True
    return model == real


# ----------------------------------------------------------------------------- one file: compare + oracle
def examine(ctx, spec, style, model, real, tag="corr"):
    """compare model and real code on every cut / deletion / duplication of one file; apply the oracle.
    returns (number of correspondence mismatches, list of oracle failures)"""
    lay = Layout(spec)
    text = lay.text
    fid = file_id(text)
    wf, cuts, lns, rend = model
    real_cuts, real_lines, real_mid = real
    mism, viol = [], []
    ctx.count(f"file/{spec.kind}")
    ctx.count(f"style/{style}")
    # the grammar of the full byte-level statement (Lean `OSpec.text` / `JSpec.text`) renders this very file
    rp = rend.split(" ")
    if getattr(spec, "deco", None):
        ctx.count("free-text-decorated-file")      # extra free text in comment lines is outside the rendered grammar
    elif len(rp) != 3 or rp[0] != "ok" or rp[2] != hexs(text):
        mism.append(dict(what=f"the Lean grammar renders a different text for this spec: {rend[:120]}", file=spec_to_json(spec)))
    elif rp[1] != "Y":
        mism.append(dict(what="the Lean grammar does not accept this spec (OSpec.ok / JSpec.ok false)", file=spec_to_json(spec)))
    else:
        ctx.count("grammar-renders-file")
    if not wf.startswith("ok wf"):
        mism.append(dict(what=f"generated file is not well-formed as observed: {wf}", file=spec_to_json(spec)))
        return mism, viol
    if not cuts.startswith("ok ") or cuts.startswith("ok notwf"):
        mism.append(dict(what=f"driver answer to cuts: {cuts[:200]}", file=spec_to_json(spec)))
        return mism, viol
    ans = cuts[3:].split(";")
    if len(ans) != len(text) + 1 or len(real_cuts) != len(text) + 1:
        mism.append(dict(what=f"{len(ans)} model answers / {len(real_cuts)} real outcomes for {len(text) + 1} offsets",
                         file=spec_to_json(spec)))
        return mism, viol
    def judge_variant(v, mo_plain, mo_filt, where, k=None, line=None, damage="cut"):
        """a damaged file written / opened with the round-4 devices: same verdict as the plain form"""
        dev, kw, out = v["dev"], v["kw"], v["out"]
        mo_ = mo_filt if kw else mo_plain
        tag = ",".join([dev.get("eol", "")] + dev.get("env", []) + [dev.get("copy", "")]).strip(",")
        ctx.case((fid, "variant", damage, k if k is not None else line, json.dumps(dev, sort_keys=True)), True)
        for t_ in [dev.get("eol")] + dev.get("env", []) + [dev.get("copy")]:
            if t_:
                ctx.count("device/" + t_)
        ctx.count("variant/" + ("ok" if out.startswith("ok") else "err"))
        base = dict(file=spec_to_json(spec), device=dev, opts=kw or None)
        if k is not None:
            base["cut"] = k
        else:
            base.update(line=line, damage=damage)
        for pr in v["problems"]:
            mism.append(dict(what=f"{where} opened with devices [{tag}] {kw or ''}: {pr}", **base))
        if mo_ is not None and not same_outcome(mo_, out):
            mism.append(dict(what=f"{where} written/opened with devices [{tag}] {kw or ''}: code `{out}` vs model (plain LF file) `{mo_}`",
                             code=out, model=mo_, **base))
        return out

    for k, (a, (r, rf, rv)) in enumerate(zip(ans, real_cuts)):
        flags, _, mo2 = a.partition(":")
        mo, _, mof = mo2.partition("~")
        pc = lay.position_class(k)
        nontrivial = not pc.endswith("hdr")
        ctx.case((fid, "cut", k), nontrivial,
                 sample=dict(kind=spec.kind, cut=k, of=len(text), position=pc, code=r, model=mo, flags=flags)
                 if (nontrivial and r.startswith("ok") and k % 7 == 0) else None)
        ctx.count("cut/" + pc.split("-")[0] + "-" + pc.split("-")[-1])
        ctx.count("real/" + (r if r.startswith("err") else "ok"))
        if flags[0] != "Y":
            mism.append(dict(what=f"cut {k}: the prefix does not split into 'complete lines + partial line' as the theorem assumes",
                             cut=k, file=spec_to_json(spec)))
        if flags[1] == "N":
            mism.append(dict(what=f"cut {k} ({pc}): hypothesis prefixHyp/jprefixHyp of the byte-level theorem FAILS on the partial line "
                                  f"{text[:k].rsplit(chr(10), 1)[-1]!r}", cut=k, file=spec_to_json(spec)))
        ctx.count("hyp/" + flags[1])
        if flags[2] != "Y":
            mism.append(dict(what=f"cut {k} ({pc}): model outcome `{mo}` is not one the theorem allows", cut=k,
                             file=spec_to_json(spec)))
        if not same_outcome(mo, r):
            mism.append(dict(what=f"cut {k} ({pc}) of a {spec.kind} file: code `{r}` vs model `{mo}`", cut=k,
                             code=r, model=mo, file=spec_to_json(spec)))
        elif mo != r:
            ctx.count("error-class-differs")
        bad = oracle(lay, k, r)
        if bad:
            viol.append(dict(damage="cut", cut=k, position=pc, what=bad, observed=r, opts=None))
        if rf is not None:
            # the same cut opened with a keep-everything constructor filter
            kw = keep_all_kw(k)
            ctx.case((fid, "cut+filters", k), nontrivial)
            ctx.count("cut+filters/" + ("ok" if rf.startswith("ok") else "err"))
            if not same_outcome(mof, rf):
                mism.append(dict(what=f"cut {k} ({pc}) of a {spec.kind} file opened with {kw}: code `{rf}` vs model `{mof}`",
                                 cut=k, opts=kw, code=rf, model=mof, file=spec_to_json(spec)))
            if rf.startswith("err") != r.startswith("err"):
                ctx.count("cut+filters/outcome-class-differs-from-plain")
            bad = oracle(lay, k, rf)
            if bad:
                viol.append(dict(damage="cut", cut=k, position=pc, what=bad + f" [opened with {kw}]", observed=rf, opts=kw))
        if rv is not None:
            out = judge_variant(rv, mo, mof, f"cut {k} ({pc}) of a {spec.kind} file", k=k)
            bad = oracle(lay, k, out)
            if bad:
                viol.append(dict(damage="cut", cut=k, position=pc, what=bad + f" [devices {rv['dev']} {rv['kw'] or ''}]", observed=out,
                                 opts=rv["kw"] or None, dev=rv["dev"]))
    for v in real_mid:
        # a cut inside a multi-byte character of a free-text header line: always behind no trailer -> only an error is acceptable
        ctx.case((fid, "midchar", v["nbytes"]), False)
        ctx.count("midchar-cut/" + ("ok" if v["out"].startswith("ok") else "err"))
        pc = lay.position_class(v["cut"])
        for pr in v["problems"]:
            mism.append(dict(what=f"cut inside a multi-byte character ({v['nbytes']} bytes): {pr}", file=spec_to_json(spec)))
        bad = oracle(lay, v["cut"], v["out"])
        if bad:
            viol.append(dict(damage="cut", cut=v["cut"], nbytes=v["nbytes"], position=pc, observed=v["out"], opts=None,
                             dev=dict(v["dev"], midchar=v["nbytes"]), what=bad + " [cut inside a multi-byte character]"))
    # deletions / duplications
    if not lns.startswith("ok ") or lns.startswith("ok notwf"):
        mism.append(dict(what=f"driver answer to lines: {lns[:200]}", file=spec_to_json(spec)))
        return mism, viol
    lans = [x for x in lns[3:].split(";") if x]
    if len(lans) != len(real_lines):
        mism.append(dict(what=f"{len(lans)} model answers for {len(real_lines)} particle lines", file=spec_to_json(spec)))
        return mism, viol
    for a, (i, rd, ru, rvar, vvar) in zip(lans, real_lines):
        pos, _, rest = a.partition("=")
        md, _, mu = rest.partition("|")
        for wi, (what, m_, r) in enumerate((("delete", md, rd), ("duplicate", mu, ru))):
            flag, _, mo2 = m_.partition(":")
            mo, _, mof = mo2.partition("~")
            for kw, pair in zip(KEEP_ALL, rvar):
                rf = pair[wi]
                ctx.case((fid, what + "+filters", i, json.dumps(kw, sort_keys=True)), True)
                ctx.count(f"line+filters/{what}/{'ok' if rf.startswith('ok') else 'err'}")
                if not same_outcome(mof, rf):
                    mism.append(dict(what=f"{what} line {i} of a {spec.kind} file opened with {kw}: code `{rf}` vs model `{mof}`",
                                     line=i, damage=what, opts=kw, code=rf, model=mof, file=spec_to_json(spec)))
                if not rf.startswith("err"):
                    viol.append(dict(damage=what, line=i, opts=kw, observed=rf,
                                     what=f"a {what}d particle line is not detected when the file is opened with {kw}: {rf}"))
            ctx.case((fid, what, i), True)
            ctx.count(f"line/{what}")
            ctx.count(f"real-line/{r if r.startswith('err') else 'ok'}")
            if int(pos) != i:
                mism.append(dict(what=f"particle line positions differ: model {pos}, spec {i}", file=spec_to_json(spec)))
            if flag != "Y":
                mism.append(dict(what=f"{what} line {i}: model loader outcome is not `err index` as the theorem says ({mo})",
                                 line=i, damage=what, file=spec_to_json(spec)))
            if not same_outcome(mo, r):
                mism.append(dict(what=f"{what} line {i} of a {spec.kind} file: code `{r}` vs model `{mo}`", line=i,
                                 damage=what, code=r, model=mo, file=spec_to_json(spec)))
            if not r.startswith("err"):
                viol.append(dict(damage=what, line=i, what=f"a {what}d particle line is not detected: {r}", observed=r, opts=None))
            for v in vvar:
                if v["damage"] == what:
                    out = judge_variant(v, mo, mof, f"{what} line {i} of a {spec.kind} file", line=i, damage=what)
                    if not out.startswith("err"):
                        viol.append(dict(damage=what, line=i, opts=v["kw"] or None, dev=v["dev"], observed=out,
                                         what=f"a {what}d particle line is not detected [devices {v['dev']} {v['kw'] or ''}]: {out}"))
    return mism, viol


def violation_key(spec, v):
    sfx = ":with-keep-all-filters" if v.get("opts") else ""
    if v.get("dev"):
        # one key for all device combinations; the replay file names the combination
        sfx += ":under-devices"
    if v["damage"] == "cut":
        return f"cut:{'jetscape' if spec.is_jetscape() else 'oscar'}:{v['position']}{sfx}"
    return f"{v['damage']}:{'jetscape' if spec.is_jetscape() else 'oscar'}:particle-line{sfx}"


def check_one(spec, v):
    """does the (real code, oracle) failure `v` reproduce on `spec`?  returns the failure found on spec with the same key"""
    lay = Layout(spec)
    key = violation_key(spec, v)
    kw = v.get("opts") or {}
    dev = v.get("dev") or {}
    note = (f" [opened with {kw}]" if kw else "") + (f" [devices {dev}]" if dev else "")
    if dev.get("midchar"):
        for k, data in midchar_cuts(lay.text):
            r = real_outcome(spec, None, kw, {x: y for x, y in dev.items() if x != "midchar"}, data=data)
            bad = oracle(lay, k, r)
            if bad:
                return dict(damage="cut", cut=k, nbytes=len(data), position=lay.position_class(k), what=bad + note, observed=r,
                            opts=v.get("opts"), dev=dict(dev, midchar=len(data)))
        return None
    if v["damage"] == "cut":
        text = lay.text
        for k in range(len(text) + 1):
            d2 = dev
            if dev.get("eol") == "crlf-cr" and not (k < len(text) and text[k] == "\n"):
                d2 = dict(dev, eol="crlf")
            r = real_outcome(spec, text[:k], kw, d2)
            bad = oracle(lay, k, r)
            if bad:
                w = dict(damage="cut", cut=k, position=lay.position_class(k), what=bad + note, observed=r, opts=v.get("opts"),
                         dev=d2 or None)
                if violation_key(spec, w) == key:
                    return w
        return None
    for i, d, u in _damaged_texts(spec):
        r = real_outcome(spec, d if v["damage"] == "delete" else u, kw, dev)
        if not r.startswith("err"):
            return dict(damage=v["damage"], line=i, opts=v.get("opts"), dev=dev or None, observed=r,
                        what=f"a {v['damage']}d particle line is not detected{note}: {r}")
    return None


def shrink(spec, v, budget_s=20):
    """drop events, then particles, while the same kind of failure persists"""
    t0 = time.time()
    cur, curv = spec, v
    changed = True
    while changed and time.time() - t0 < budget_s:
        changed = False
        d = spec_to_json(cur)
        cands = []
        for e in range(len(d["events"])):
            if len(d["events"]) > 1:
                c = json.loads(json.dumps(d))
                del c["events"][e]
                del c["impacts"][e]
                cands.append(c)
        for e in range(len(d["events"])):
            for p in range(len(d["events"][e])):
                c = json.loads(json.dumps(d))
                del c["events"][e][p]
                cands.append(c)
        for c in cands:
            if time.time() - t0 > budget_s:
                break
            s2 = spec_from_json(c)
            w = check_one(s2, curv)
            if w:
                cur, curv, changed = s2, w, True
                break
    # then the devices: drop every component that is not needed for the failure
    dev = dict(curv.get("dev") or {})
    for comp in [("eol", None), ("copy", None)] + [("env", e) for e in list(dev.get("env", []))]:
        if time.time() - t0 > budget_s + 10 or not dev or dev.get("midchar"):
            break
        d2 = dict(dev)
        if comp[1] is None:
            if comp[0] not in d2:
                continue
            d2.pop(comp[0])
        else:
            d2["env"] = [e for e in d2.get("env", []) if e != comp[1]]
            if not d2["env"]:
                d2.pop("env")
        if not d2:
            continue        # the plain form is judged by the plain enumeration
        w = check_one(cur, dict(curv, dev=d2))
        if w:
            dev, curv = d2, w
    return cur, curv


def report(ctx, spec, v, seen):
    key = violation_key(spec, v)
    # a failure already reported for the plain form is not reported again for its device / option variants
    plain = key.replace(":under-devices", "")
    if key in seen or plain in seen or plain.replace(":with-keep-all-filters", "") in seen:
        return
    seen.add(key)
    s2, v2 = shrink(spec, v)
    lay = Layout(s2)
    if v2["damage"] == "cut":
        dmg = dict(damage="cut", cut=v2["cut"], partial_line=lay.text[:v2["cut"]].rsplit("\n", 1)[-1])
        exp = "an exception, or exactly the complete events preceding the cut with matching num_events and counts"
    else:
        dmg = dict(damage=v2["damage"], line=v2["line"])
        exp = "an exception"
    if v2.get("opts"):
        dmg["options"] = v2["opts"]
    if v2.get("dev"):
        dmg["device"] = v2["dev"]
        if v2.get("nbytes"):
            dmg["nbytes"] = v2["nbytes"]
    ctx.violation(key, v2["what"], dict(input=dict(file=spec_to_json(s2), text=lay.text, **dmg), expected=exp,
                                        observed=v2["observed"], how_to_replay="./check C07 --replay <this file>"))


def probe_devices(ctx):
    """once per run: the clean-file behaviour the devices rely on (CRLF, non-ASCII free text, copies of the loaded object)"""
    import random as _random
    r0 = _random.Random(2026)
    for kind in ("oscar2013", "jetscape"):
        spec = spec_from_json(spec_to_json(rmodel.gen_spec(r0, kinds=[kind], nev=2, maxpart=2)))
        plain = rmodel.run_real(spec)
        spec.deco = [NONASCII[0], NONASCII[3]][:1 if spec.is_jetscape() else 2]
        for name, dev in (("crlf", dict(eol="crlf")), ("chdir", dict(env=["chdir"])), ("copy", dict(copy="copy")),
                          ("deepcopy", dict(copy="deepcopy")), ("pickle", dict(copy="pickle"))):
            out, probs = run_variant(spec, spec.text(), dev)
            ok = out == plain and not probs
            ctx.count(f"probe/{name}/{'accepted' if ok else 'REJECTED'}")
            if not ok:
                ctx.brk("correspondence-broken", f"device probe: an undamaged {kind} file with non-ASCII free text under device {name} gives "
                        f"`{out}` {probs}, the plain file `{plain}`", case=dict(file=spec_to_json(spec), device=dev, cut=len(spec.text())))


# ----------------------------------------------------------------------------- correspondence
def corpus():
    p = common.VERIF / "harness/corpus/C07"
    out = []
    if p.exists():
        for f in sorted(p.glob("*.json")):
            d = json.loads(f.read_text())
            out.append((spec_from_json(d.get("file", d)), "corpus:" + f.stem))
    return out


def correspond(ctx):
    rng = ctx.rng
    ctx.rule = ("well-formed files of every format (Oscar2013, Oscar2013Extended 20/22 columns, ASCII with random column "
                "subsets, JETSCAPE hadron/parton with tab or blank separated headers); styles: plain, 11-13 events "
                "(two-digit labels), one event with 10-13 particles (two-digit count), empty events first/last/middle, single "
                "event, no trailing newline.  EVERY byte offset of each file and every single deletion / duplication of a "
                "particle line is one case.  non-trivial = the damage lies behind the header lines (cut inside / at the "
                "boundary of an out, particle, end, event-header or trailer line; every deletion/duplication); distinct by "
                "(file hash, damage).")
    ctx.rule += ("  Round-4 devices (sampled; the all-offset enumeration stays on the plain LF form): every deletion / duplication "
                 "and about half of the trailer-region cuts (4% of the others) are ALSO written with CRLF line endings (incl. the CRLF "
                 "file cut between CR and LF), opened by a bare relative name after os.chdir into a fresh directory, under "
                 "np.seterr(all='warn') / non-default numpy print options / advanced `random` and `np.random` states (cwd, np.geterr() "
                 "and both RNG states must be left as found), the loaded object replaced by its copy / deepcopy / pickle round trip "
                 "before it is observed; a quarter of the files carry non-ASCII text (UTF-8) or trailing blanks/tabs in their free-text "
                 "comment lines, with all character offsets enumerated and every cut inside a multi-byte character tried.  Verdict "
                 "and model outcome must be those of the plain damaged file.")
    ctx.assumptions.append("C07 devices: the clean readers accept CRLF files, non-ASCII free-text header lines (Python's UTF-8 default) and "
                           "trailing blanks there (probed on every run); CRLF bytes are outside the Lean text model (the model is fed the LF "
                           "text, the real code must treat the CRLF bytes identically).  ITERATORS device not applicable: the API under test "
                           "takes a path (str) and an options dict, no list-like inputs.")
    ctx.assumptions.append("C07: truncation = prefix of the byte string; the classification of rendered lines (each line has the "
                           "observations of its kind, `OFile.wf`/`JFile.wf`) and the hypotheses `prefixHyp`/`jprefixHyp` on the "
                           "observations of partial lines are string-level facts CHECKED by the driver on every generated file / "
                           "every prefix (flags S, H), not proved; exception classes are recorded, not compared")
    per_kind = ctx.n(5, 40)
    vseed = rng.getrandbits(32)
    probe_devices(ctx)
    specs = list(corpus())
    for kind in KINDS:
        for _ in range(per_kind):
            specs.append(gen_spec(rng, kind))
    t0 = time.time()
    # first the driver (threads + subprocesses), then the real code (forked workers): never both at once, a worker
    # forked while a driver pipe is open would keep the pipe open
    models = model_all([s for s, _ in specs])
    ctx.cov["model_run_s"] = round(time.time() - t0, 1)
    with cf.ProcessPoolExecutor(NPROC) as pool:
        reals = real_all(pool, [s for s, _ in specs], vseed=vseed)
    ctx.cov["correspond_run_s"] = round(time.time() - t0, 1)
    nm = 0
    allviol = []
    first = None
    for (spec, style), model, real in zip(specs, models, reals):
        mism, viol = examine(ctx, spec, style, model, real)
        nm += len(mism)
        if mism and first is None:
            first = mism[0]
        for v in viol:
            allviol.append((spec, v))
    ctx.cov["files"] = len(specs)
    ctx.cov["correspondence_mismatches"] = nm
    if nm:
        ctx.brk("correspondence-broken", f"{nm} differences between code and model / failed theorem side conditions; first: "
                + first["what"], case=first)
    ctx._c07_viol = allviol
    ctx._c07_specs = [s for s, _ in specs]


# ----------------------------------------------------------------------------- oracle search on the real code
def search(ctx, budget_s):
    rng = ctx.rng
    t0 = time.time()
    seen = set()
    n = 0
    # what the correspondence run already saw on the real code
    for spec, v in sorted(getattr(ctx, "_c07_viol", []), key=lambda sv: (bool(sv[1].get("dev")), bool(sv[1].get("opts")))):
        report(ctx, spec, v, seen)
    # the case where model and code first differed
    todo = []
    for b in ctx.broken:
        c = b.get("case") or {}
        if "file" in c:
            todo.append(spec_from_json(c["file"]))
    with cf.ProcessPoolExecutor(NPROC) as pool:
        while time.time() - t0 < budget_s and len(seen) < 3:
            batch = todo[:8] if todo else [gen_spec(rng, rng.choice(KINDS))[0] for _ in range(8)]
            todo = todo[8:]
            for spec, (cuts, lines, mids) in zip(batch, real_all(pool, batch, vseed=rng.getrandbits(32))):
                lay = Layout(spec)
                n += 1
                ctx.case((file_id(lay.text), "oracle-file"), True)
                ctx.count("oracle-cuts", len(cuts))
                ctx.count("oracle-lines", 2 * (1 + len(KEEP_ALL)) * len(lines))
                ctx.count("oracle-cuts+filters", sum(1 for c in cuts if c[1] is not None))
                ctx.count("oracle-cuts+devices", sum(1 for c in cuts if c[2] is not None) + len(mids))
                for k, (r, rf, rv) in enumerate(cuts):
                    for kw, dev, x in ((None, None, r), (keep_all_kw(k), None, rf),
                                       ((rv["kw"] or None, rv["dev"], rv["out"]) if rv else (None, None, None))):
                        bad = oracle(lay, k, x) if x is not None else None
                        if bad:
                            report(ctx, spec, dict(damage="cut", cut=k, position=lay.position_class(k), observed=x, opts=kw, dev=dev,
                                                   what=bad + (f" [opened with {kw}]" if kw else "") + (f" [devices {dev}]" if dev else "")), seen)
                for v in mids:
                    bad = oracle(lay, v["cut"], v["out"])
                    if bad:
                        report(ctx, spec, dict(damage="cut", cut=v["cut"], nbytes=v["nbytes"], position=lay.position_class(v["cut"]),
                                               observed=v["out"], opts=None, dev=dict(v["dev"], midchar=v["nbytes"]),
                                               what=bad + " [cut inside a multi-byte character]"), seen)
                for i, rd, ru, rvar, vvar in lines:
                    for wi, (what, r) in enumerate((("delete", rd), ("duplicate", ru))):
                        for kw, dev, x in [(None, None, r)] + [(kw, None, pair[wi]) for kw, pair in zip(KEEP_ALL, rvar)] + \
                                [(v["kw"] or None, v["dev"], v["out"]) for v in vvar if v["damage"] == what]:
                            if not x.startswith("err"):
                                report(ctx, spec, dict(damage=what, line=i, observed=x, opts=kw, dev=dev,
                                                       what=f"a {what}d particle line is not detected"
                                                            + (f" when the file is opened with {kw}" if kw else "") + f": {x}"), seen)
            if time.time() - t0 > budget_s:
                break
    ctx.cov["oracle_files"] = n + len(getattr(ctx, "_c07_specs", []))
    ctx.count("oracle-files", n)


# ----------------------------------------------------------------------------- replay
def replay(ctx, path):
    d = json.loads(open(path).read())
    inp = d.get("input")
    if not inp:
        c = (d.get("broken") or [{}])[0].get("case") or {}
        if "file" not in c:
            print(f"[C07] replay file names a broken obligation, not an input: {d.get('broken')}")
            return 1
        inp = dict(file=c["file"], damage="cut", cut=c.get("cut", 0)) if "cut" in c else \
            dict(file=c["file"], damage=c.get("damage", "delete"), line=c.get("line", 0))
        inp["options"] = c.get("opts")
        inp["device"] = c.get("device")
    spec = spec_from_json(inp["file"])
    lay = Layout(spec)
    k = drv_kind(spec)
    kw = inp.get("options") or {}
    op = "ctorF" if kw else "ctor"
    if kw:
        print(f"[C07] constructor options: {kw}")
    dev = dict(inp.get("device") or {})
    if dev:
        print(f"[C07] devices (how the damaged file is written / opened): {dev}")
    data = None
    if dev.pop("midchar", None):
        data = dict((len(b), b) for _, b in midchar_cuts(lay.text)).get(inp.get("nbytes"))
    if inp["damage"] == "cut":
        text = lay.text[:inp["cut"]]
        real = real_outcome(spec, text, kw, dev, data=data)
        model = common.run_driver("C07", ["\t".join([op, k, hexs(text)])])[0]
        bad = oracle(lay, inp["cut"], real)
        print(f"[C07] {spec.kind} file of {len(lay.text)} bytes cut to {inp['cut']} bytes ({lay.position_class(inp['cut'])}); "
              f"last line {text.rsplit(chr(10), 1)[-1]!r}")
    else:
        dm = {i: (a, b) for i, a, b in _damaged_texts(spec)}
        text = dm[inp["line"]][0 if inp["damage"] == "delete" else 1]
        real = real_outcome(spec, text, kw, dev)
        model = common.run_driver("C07", ["\t".join([op, k, hexs(text)])])[0]
        bad = None if real.startswith("err") else f"a {inp['damage']}d particle line is not detected: {real}"
        print(f"[C07] {spec.kind} file, particle line {inp['line']} {inp['damage']}d")
    print(f"[C07] code : {real}\n[C07] model: {model}")
    if bad:
        print(f"VIOLATION property=C07 replay={path}")
        print(bad)
        return 1
    if not same_outcome(model, real):
        print("[C07] replay: the property holds on this input but code and model differ (correspondence broken)")
        return 1
    print("[C07] replay: property holds on this input now")
    return 0


# ----------------------------------------------------------------------------- source regions (information only; tie C)
def translate(ctx):
    import ast
    regions = []
    for rel, names in (("loader/OscarLoader.py", ("set_num_events", "set_particle_list", "set_num_output_per_event_and_event_footers",
                                                  "impact_parameter", "_OscarLoader__get_num_read_lines", "__get_num_read_lines")),
                       ("loader/JetscapeLoader.py", ("__init__", "set_particle_list", "set_num_output_per_event", "get_last_line",
                                                     "get_sigmaGen", "__get_num_read_lines"))):
        src = common.read_src(rel)
        lines = src.splitlines()
        for node in ast.walk(ast.parse(src)):
            if isinstance(node, ast.FunctionDef) and node.name in names:
                body = [s for s in node.body if not (isinstance(s, ast.Expr) and isinstance(getattr(s, "value", None), ast.Constant))]
                if not body:
                    continue
                text = "\n".join(lines[body[0].lineno - 1:node.end_lineno])
                regions.append(dict(file="src/sparkx/" + rel, region=node.name, lines=[body[0].lineno, node.end_lineno],
                                    sha=common.region_hash(text), tie="C (hash recorded for information)"))
    return regions
