"""C08 — particle kinematics.  Tie T (eleven method bodies regenerated) + tie C (Float driver) + oracle.

correspond: the generated model, run at Float by the Lean driver, against the real `Particle` methods on
            the same particles (bit patterns in, bit patterns out; 1e-13 relative — the two sides replay the
            same operations, only numpy's vectorised log/arccos differ from libm by an ulp).
search    : the PROPERTY on the real code with an independent reference (exact rationals for the polynomial
            identities, alternative well-conditioned formulas for the transcendental ones, condition-aware
            tolerances), reflection / rotation metamorphic checks, all 2^8 unset-attribute subsets,
            unphysical inputs, and the boundaries of the regulated regions.
"""
import json
import math
import time
import warnings
from fractions import Fraction as Fr

import numpy as np

import common
from common import f2h, h2f
from translate import kinematics
from translate.pyexpr import Untranslatable

warnings.filterwarnings("ignore")

EPS = 2.0 ** -52
NAN = float("nan")
ATTRS = ["t", "x", "y", "z", "E", "px", "py", "pz"]
# order of Method.all in Core/Kinematics.lean
METHODS = ["angular_momentum", "rapidity", "p_abs", "pT_abs", "phi", "theta", "pseudorapidity",
           "spacetime_rapidity", "proper_time", "mass_from_energy_momentum", "mT"]
# inputs each quantity needs by its DEFINITION (independent of the source; mirrors `required` in Lean)
REQUIRED = {
    "angular_momentum": ["x", "y", "z", "px", "py", "pz"], "rapidity": ["E", "pz"], "p_abs": ["px", "py", "pz"],
    "pT_abs": ["px", "py"], "phi": ["px", "py"], "theta": ["px", "py", "pz"], "pseudorapidity": ["px", "py", "pz"],
    "spacetime_rapidity": ["t", "z"], "proper_time": ["t", "z"],
    "mass_from_energy_momentum": ["E", "px", "py", "pz"], "mT": ["E", "pz"],
}
MASSLESS = [22, 21, 12, -12, 14, -14, 16, -16, 18, -18]  # documented in the docstring of mass_from_energy_momentum
GEN = common.LEAN / "SparkxVerif/Gen/Kinematics.lean"
GOLDEN = common.LEAN / "golden/Gen/Kinematics.lean"
MONITOR = "SparkxVerif.Props.C08.NegE"


# ------------------------------------------------------------------ translator (tie T)
ASSUMPTIONS = [
    "C08: theorems are about the generated method bodies at XReal = R + {nan} (nan = any non-finite float; log x<=0, sqrt x<0, "
    "arccos |x|>1, x/0 are nan; comparisons with nan false; atan2 y x = Complex.arg(x+iy)); rounding, overflow and underflow of "
    "IEEE doubles are NOT modelled - covered only by the sampled correspondence (Float instance, 1e-13) and the oracle's "
    "condition-aware tolerances",
    "C08: np.cross on two 3-lists is modelled by the explicit component formula (Core/KinOps.cross3); x**2.0 is C pow(x,2) in the "
    "Float instance and x*x in the real instance; warnings are not observed; `self.pdg in [ints]` with an unset pdg is False",
    "C08: construction routes: a masked float entry of a constructor row counts as unset (float(np.ma.masked) is nan on the clean "
    "tree); one-shot iterators (generator / iter / map) as rows must be rejected or handled correctly - the clean constructor "
    "rejects them (no len()); pickle protocols 0/1 are not exercised (Python refuses them for a __slots__ class without "
    "__getstate__); no free-text fields and no file access exist in Particle, so non-ASCII text and relative file names do not "
    "apply - the environment device (temp cwd, np.seterr(all='warn'), print options, advanced random / np.random states) only "
    "checks that results do not depend on it and that it is left as found; in-place writes to data_ are not part of the interface",
    "C08: 'required input' of a quantity = the inputs of its definition in the property statement (hand-written table, equal to the "
    "extracted guard sets by theorem guard_table); E < 0 is read as outside 'finite four-momenta' (monitor Props/C08/NegE.lean)",
]


def translate(ctx):
    for a_ in ASSUMPTIONS:
        if a_ not in ctx.assumptions:
            ctx.assumptions.append(a_)
    src = common.read_src("Particle.py")
    try:
        text, regions, info = kinematics.render(src)
    except Untranslatable as e:
        # DESIGN 2.1 (i): the extractor cannot parse the region -> the committed golden model takes over and has
        # to survive the full correspondence of this tier
        common.write_if_changed(GEN, GOLDEN.read_text())
        ctx.cov["tie"] = "correspondence-only (translator could not re-derive: %s)" % e
        ctx.notes.append("translator could not parse Particle.py kinematics (%s); golden model + correspondence" % e)
        ctx.translator_fallback = True
        return [dict(file="Particle.py", region="kinematic methods", sha=common.region_hash(src), parsed=False)]
    changed = common.write_if_changed(GEN, text)
    ctx.cov["gen_equals_golden"] = GOLDEN.exists() and GOLDEN.read_text() == text
    ctx.cov["extracted_guard_used"] = info
    if changed:
        ctx.notes.append("Gen/Kinematics.lean regenerated (source differs from last run)")
    return regions


# ------------------------------------------------------------------ real code access
def make_particle(v, pdg, via_array=False):
    """v: dict attr -> float (NaN / missing = unset); pdg: int or None"""
    from sparkx.Particle import Particle
    if via_array and pdg is not None and all(v.get(k, NAN) == v.get(k, NAN) for k in ATTRS):
        arr = [repr(float(v["t"])), repr(float(v["x"])), repr(float(v["y"])), repr(float(v["z"])), "0.138",
               repr(float(v["E"])), repr(float(v["px"])), repr(float(v["py"])), repr(float(v["pz"])),
               str(int(pdg)), "7", "1"]
        return Particle("Oscar2013", arr)
    p = Particle()
    for k in ATTRS:
        x = v.get(k, NAN)
        if x == x:
            setattr(p, k, x)
    if pdg is not None:
        p.pdg = pdg
    return p


def call(p, m):
    """-> ('val', float) | ('vec', [f,f,f]) | ('raise', class name) | ('other', repr)"""
    try:
        with np.errstate(all="ignore"):
            r = getattr(p, m)()
    except Exception as e:  # noqa: BLE001  (the class is part of the observation)
        return ("raise", type(e).__name__)
    if isinstance(r, np.ndarray):
        if r.shape == (3,):
            return ("vec", [float(x) for x in r])
        return ("other", repr(r))
    try:
        return ("val", float(r))
    except Exception:  # noqa: BLE001
        return ("other", repr(r))


def real_all(v, pdg, via_array=False):
    p = make_particle(v, pdg, via_array)
    return [call(p, m) for m in METHODS]


# ------------------------------------------------------------------ construction routes (array-like rows, copies, environment)
# A "route" says HOW the particle under test comes into being:
#   fmt  : None (setters) | "Oscar2013" | "Oscar2013Extended" | "JETSCAPE" | "ASCII"  (constructor from a row)
#   rep  : representation of the row (list, tuple, ndarray float/object/str/float32, ndarray subclass, masked array with the
#          unset float fields MASKED over a finite hidden value, strings decorated with blanks / CR LF, one-shot iterators)
#   copy : None | "copy" | "deepcopy" | "pickle0".."pickle5"  applied to the finished object before it is used
#   rowcopy : the same devices applied to the input row before it is handed to the constructor
# Whatever the route, everything observable must be what the attribute values say (same oracle / model as always).
ROW_REPS = ["list", "tuple", "nd_float", "nd_object", "nd_str", "list_str", "list_str_ws", "masked", "masked_sentinel",
            "subclass", "nd_float32"]
ONE_SHOT_REPS = ["generator", "iter", "map"]   # no len(): the constructor has to reject them (or treat them correctly)
# pickle protocols 0/1 are left out: Python itself refuses them for a __slots__ class without __getstate__ (clean tree too)
COPY_DEVICES = [None, None, "copy", "deepcopy", "pickle2", "pickle3", "pickle4", "pickle5"]
EXT_TAIL = ["ncoll", "form_time", "xsecfac", "proc_id_origin", "proc_type_origin", "t_last_coll", "pdg_mother1",
            "pdg_mother2", "baryon_number", "strangeness"]
FLOAT_COLS = set(ATTRS) | {"mass", "form_time", "xsecfac", "t_last_coll", "weight"}


class _RowSub(np.ndarray):
    """a do-nothing ndarray subclass"""


def apply_copy(obj, how):
    import copy
    import pickle
    if how is None:
        return obj
    if how == "copy":
        return copy.copy(obj)
    if how == "deepcopy":
        return copy.deepcopy(obj)
    if how.startswith("pickle"):
        return pickle.loads(pickle.dumps(obj, protocol=int(how[6:])))
    raise ValueError(how)


def gen_route(rng, one_shot=False):
    fmt = rng.choice(["Oscar2013", "Oscar2013", "Oscar2013Extended", "JETSCAPE", "ASCII", "ASCII", None])
    route = dict(fmt=fmt, rep=None, copy=rng.choice(COPY_DEVICES), rowcopy=None)
    if fmt is None:
        if route["copy"] is None:
            route["copy"] = rng.choice(["copy", "deepcopy", "pickle2", "pickle5"])
        return route
    route["rep"] = rng.choice(ONE_SHOT_REPS) if one_shot else rng.choice(ROW_REPS)
    route["rowcopy"] = rng.choice([None, None, None, "copy", "deepcopy", "pickle4"])
    if fmt == "Oscar2013Extended":
        route["ncols"] = rng.choice([20, 21, 22])
    if fmt == "ASCII":
        cols = [c for c in ATTRS if rng.random() < 0.8] + [c for c in ("pdg", "mass", "ID", "charge") if rng.random() < 0.5]
        rng.shuffle(cols)
        route["cols"] = cols or ["px"]
    return route


def route_row(v, pdg, route):
    """column names, python values of the row (floats, NaN = unset; ints), and the attribute values / pdg the particle
    must end up with"""
    fmt = route["fmt"]
    base = dict(mass=0.138, ID=7, charge=1, ncoll=3, form_time=0.5, xsecfac=1.0, proc_id_origin=2, proc_type_origin=5,
                t_last_coll=0.25, pdg_mother1=113, pdg_mother2=0, baryon_number=0, strangeness=0, status=11,
                pdg=int(pdg) if pdg is not None else 211)
    base.update({k: float(v.get(k, NAN)) for k in ATTRS})
    if fmt == "Oscar2013":
        cols = ["t", "x", "y", "z", "mass", "E", "px", "py", "pz", "pdg", "ID", "charge"]
    elif fmt == "Oscar2013Extended":
        cols = (["t", "x", "y", "z", "mass", "E", "px", "py", "pz", "pdg", "ID", "charge"] + EXT_TAIL)[:route.get("ncols", 22)]
    elif fmt == "JETSCAPE":
        cols = ["ID", "pdg", "status", "E", "px", "py", "pz"]
    else:
        cols = list(route["cols"])
    vals = [base[c] for c in cols]
    exp = {k: (base[k] if k in cols else NAN) for k in ATTRS}
    exp_pdg = base["pdg"] if "pdg" in cols else None
    return cols, vals, exp, exp_pdg


def represent_row(cols, vals, rep, rng_salt=0):
    """the row in representation `rep`; returns (object, values as the representation carries them)"""
    carried = list(vals)
    isf = [c in FLOAT_COLS for c in cols]

    def strs(ws=False):
        out = []
        for j, (x, f) in enumerate(zip(vals, isf)):
            t = (repr(float(x)) if f else str(int(x)))
            if ws:
                t = ["  " + t, t + " ", t + "\r\n", "\t" + t + "  ", t + "\r"][(j + rng_salt) % 5]
            out.append(t)
        return out
    if rep == "list":
        return list(vals), carried
    if rep == "tuple":
        return tuple(vals), carried
    if rep == "nd_float":
        return np.array([float(x) for x in vals], dtype=float), carried
    if rep == "nd_object":
        return np.array(list(vals), dtype=object), carried
    if rep == "nd_str":
        return np.array(strs()), carried
    if rep == "list_str":
        return strs(), carried
    if rep == "list_str_ws":
        return strs(ws=True), carried
    if rep == "subclass":
        return np.array([float(x) for x in vals], dtype=float).view(_RowSub), carried
    if rep == "nd_float32":
        arr = np.array([float(x) for x in vals], dtype=np.float32)
        carried = [(float(a) if f else x) for a, x, f in zip(arr, vals, isf)]
        return arr, carried
    if rep in ("masked", "masked_sentinel"):
        mask = [bool(f and x != x) for x, f in zip(vals, isf)]
        hidden = [(-999.0 if rep == "masked_sentinel" else 1.5 + 0.25 * j) if m else float(x) for j, (x, m) in enumerate(zip(vals, mask))]
        if rep == "masked_sentinel":
            return np.ma.masked_equal(np.array(hidden, dtype=float), -999.0), carried
        return np.ma.array(np.array(hidden, dtype=float), mask=mask), carried
    if rep == "generator":
        return (x for x in list(vals)), carried
    if rep == "iter":
        return iter(list(vals)), carried
    if rep == "map":
        return map(lambda x: x, list(vals)), carried
    raise ValueError(rep)


def build_particle(v, pdg, route, salt=0):
    """-> (particle, expected attribute values, expected pdg, info).  Raises whatever the constructor raises."""
    from sparkx.Particle import Particle
    if not route or route.get("fmt") is None:
        obj = make_particle(v, pdg)
        exp, exp_pdg, info = {k: v.get(k, NAN) for k in ATTRS}, pdg, {}
    else:
        cols, vals, exp, exp_pdg = route_row(v, pdg, route)
        row, carried = represent_row(cols, vals, route["rep"], salt)
        for c, x in zip(cols, carried):
            if c in exp:
                exp[c] = float(x)
        row = apply_copy(row, route.get("rowcopy")) if route["rep"] not in ONE_SHOT_REPS else row
        before = _row_snapshot(row)
        with warnings.catch_warnings():
            warnings.simplefilter("ignore")
            if route["fmt"] == "ASCII":
                obj = Particle("ASCII", row, list(cols))
            else:
                obj = Particle(route["fmt"], row)
        info = dict(row_modified=(before is not None and not _row_equal(before, _row_snapshot(row))))
    try:
        obj = apply_copy(obj, route.get("copy") if route else None)
    except Exception as e:  # noqa: BLE001
        raise CopyFailed(f"{route.get('copy')} of the particle raises {type(e).__name__}: {e}") from e
    return obj, exp, exp_pdg, info


class CopyFailed(Exception):
    pass


def _row_snapshot(row):
    import copy
    if isinstance(row, np.ma.MaskedArray):
        return (np.array(row.data, copy=True), np.array(np.ma.getmaskarray(row), copy=True))
    if isinstance(row, (np.ndarray, list, tuple)):
        return copy.deepcopy(row)
    return None


def _row_equal(a, b):
    if isinstance(a, tuple) and len(a) == 2 and isinstance(a[0], np.ndarray) and isinstance(b, tuple):
        return bool(np.array_equal(a[0], b[0], equal_nan=True) and np.array_equal(a[1], b[1]))
    if isinstance(a, np.ndarray):
        if a.dtype.kind == "f":
            return bool(np.array_equal(a, b, equal_nan=True))
        a, b = a.tolist(), np.asarray(b).tolist()
    return all((x != x and y != y) or x == y for x, y in zip(a, b)) and len(a) == len(b)


class EnvDevice:
    """Run a block in a hostile-but-legal environment: fresh temp dir as cwd, np.seterr(all="warn"), odd print options,
    advanced `random` / `np.random` global states.  `changed()` afterwards lists what the block altered."""

    def __init__(self, salt):
        self.salt = salt

    def __enter__(self):
        import os
        import random
        import tempfile
        import sparkx.Particle  # noqa: F401  (first import of the package happens outside the observed block)
        self.saved = (os.getcwd(), np.geterr(), np.get_printoptions(), random.getstate(), np.random.get_state())
        self.tmp = tempfile.mkdtemp(prefix="c08_env_")
        os.chdir(self.tmp)
        np.seterr(all="warn")
        np.set_printoptions(precision=2, suppress=True, threshold=5)
        random.seed(1000 + self.salt)
        [random.random() for _ in range(self.salt % 17)]
        np.random.seed(2000 + self.salt)
        np.random.random(self.salt % 13)
        self.inside = (os.getcwd(), np.geterr(), np.get_printoptions(), random.getstate(), np.random.get_state())
        return self

    def changed(self):
        import os
        import random
        now = (os.getcwd(), np.geterr(), np.get_printoptions(), random.getstate(), np.random.get_state())
        names = ["cwd", "np.geterr", "np.printoptions", "random-state", "np.random-state"]
        out = []
        for nm, a, b in zip(names, self.inside, now):
            same = (a[0] == b[0] and all(np.array_equal(x, y) for x, y in zip(a[1:], b[1:]))) if nm == "np.random-state" else a == b
            if not same:
                out.append(nm)
        if os.listdir(self.tmp):
            out.append("files-written-into-cwd")
        return out

    def __exit__(self, *a):
        import os
        import random
        import shutil
        os.chdir(self.saved[0])
        np.seterr(**self.saved[1])
        np.set_printoptions(**self.saved[2])
        random.setstate(self.saved[3])
        np.random.set_state(self.saved[4])
        shutil.rmtree(self.tmp, ignore_errors=True)


def call_env(p, m):
    """like call(), but without shielding the numpy error state (the environment device decides it)"""
    try:
        with warnings.catch_warnings():
            warnings.simplefilter("ignore")
            r = getattr(p, m)()
    except Exception as e:  # noqa: BLE001
        return ("raise", type(e).__name__)
    if isinstance(r, np.ndarray):
        return ("vec", [float(x) for x in r]) if r.shape == (3,) else ("other", repr(r))
    try:
        return ("val", float(r))
    except Exception:  # noqa: BLE001
        return ("other", repr(r))


def judge_route(v, pdg, route, salt=0, env=False):
    """-> (status, items, expected values, expected pdg, results) ; status in ok|rejected|inadmissible.
    items: property failures [(key, what, detail)], keyed `input-form:…` / `copied:…` / `environment:…` when the same
    attribute values given through the plain setters do not show them."""
    one_shot = bool(route and route.get("rep") in ONE_SHOT_REPS)
    if route and route.get("fmt") is not None and not one_shot:
        try:  # admissibility: the same row as a plain list must be accepted
            build_particle(v, pdg, dict(route, rep="list", copy=None, rowcopy=None), salt)
        except Exception:  # noqa: BLE001
            return "inadmissible", [], None, None, None
    envchg = []
    try:
        if env:
            with EnvDevice(salt) as dev:
                obj, exp, exp_pdg, info = build_particle(v, pdg, route, salt)
                res = {m: call_env(obj, m) for m in METHODS}
                envchg = dev.changed()
        else:
            obj, exp, exp_pdg, info = build_particle(v, pdg, route, salt)
            res = {m: call(obj, m) for m in METHODS}
    except CopyFailed as e:
        _, _, exp, exp_pdg = route_row(v, pdg, route) if route and route.get("fmt") else (None, None, v, pdg)
        return "ok", [("copied:%s:copy-raises" % route.get("copy"), str(e), dict(values=exp, pdg=exp_pdg))], exp, exp_pdg, None
    except Exception as e:  # noqa: BLE001
        if one_shot:
            return "rejected", [], None, None, None
        _, _, exp, exp_pdg = route_row(v, pdg, route) if route and route.get("fmt") else (None, None, v, pdg)
        return "ok", [("input-form:%s/%s:constructor-raises" % (route.get("fmt"), route.get("rep")),
                       f"Particle({route.get('fmt')!r}, <{route.get('rep')} row>) raises {type(e).__name__}: {e} although the same row as a list is accepted",
                       dict(values=exp, pdg=exp_pdg))], exp, exp_pdg, None
    items = []
    plain = dict(zip(METHODS, real_all(exp, exp_pdg)))
    plain_keys = {k for k, _, _ in check_particle(exp, exp_pdg, plain)}
    for key, what, detail in check_particle(exp, exp_pdg, res):
        if key in plain_keys:
            items.append((key, what, detail))
            continue
        label = None
        if route.get("copy"):
            try:
                o2, _, _, _ = build_particle(v, pdg, dict(route, copy=None), salt)
                r2 = {m: call(o2, m) for m in METHODS}
                if not any(k == key for k, _, _ in check_particle(exp, exp_pdg, r2)):
                    label = "copied:%s" % route["copy"]
            except Exception:  # noqa: BLE001
                pass
        if label is None and env:
            try:
                o2, _, _, _ = build_particle(v, pdg, route, salt)
                r2 = {m: call(o2, m) for m in METHODS}
                if not any(k == key for k, _, _ in check_particle(exp, exp_pdg, r2)):
                    label = "environment"
            except Exception:  # noqa: BLE001
                pass
        if label is None:
            label = "input-form:%s/%s" % (route.get("fmt"), route.get("rep"))
        items.append((f"{label}:{key}", what + f" — particle built via route {route}; the same attribute values given through "
                      f"the setters give {plain.get(key.split('-')[0], 'a correct result')}", detail))
    if info.get("row_modified"):
        items.append(("input-form:%s/%s:input-row-modified" % (route.get("fmt"), route.get("rep")),
                      f"the constructor modified the row it was given (route {route})", dict(values=exp, pdg=exp_pdg)))
    for what in envchg:
        items.append((f"environment:{what}-changed-by-call", f"constructing the particle and calling the 11 methods changed {what}",
                      dict(values=exp, pdg=exp_pdg)))
    return "ok", items, exp, exp_pdg, res


def isfinite(x):
    return x == x and x not in (math.inf, -math.inf)


# ------------------------------------------------------------------ generators
def lu(rng, lo=-6, hi=6):
    return 10.0 ** rng.uniform(lo, hi)


def sgn(rng):
    return rng.choice([-1.0, 1.0])


def nextafter_k(x, k):
    for _ in range(abs(k)):
        x = math.nextafter(x, math.inf if k > 0 else -math.inf)
    return x


def gen_generic(rng):
    v = {k: sgn(rng) * lu(rng) for k in ATTRS}
    v["t"] = abs(v["t"])
    mode = rng.choice(["onshell", "onshell", "free", "spacelike"])
    if mode == "onshell":
        m = lu(rng, -3, 1)
        v["E"] = math.sqrt(m * m + v["px"] ** 2 + v["py"] ** 2 + v["pz"] ** 2)
    elif mode == "free":
        v["E"] = lu(rng)
    else:
        v["E"] = abs(v["pz"]) * rng.uniform(0.0, 0.999)
    if rng.random() < 0.6:
        v["t"] = abs(v["z"]) * (1 + lu(rng, -8, 2))
    return v, mode


def gen_ultra(rng):
    """ultra-relativistic / soft: pz close to +-E, tiny pT relative to pz, or all momenta soft"""
    v, _ = gen_generic(rng)
    kind = rng.choice(["collinear", "soft", "hard"])
    if kind == "collinear":
        pz = sgn(rng) * lu(rng, -2, 6)
        pT = abs(pz) * lu(rng, -7, -1)
        a = rng.uniform(-math.pi, math.pi)
        v["px"], v["py"], v["pz"] = pT * math.cos(a), pT * math.sin(a), pz
        m = rng.choice([0.0, 0.138, 0.938])
        v["E"] = math.sqrt(m * m + pT * pT + pz * pz)
    elif kind == "soft":
        for k in ("px", "py", "pz"):
            v[k] = sgn(rng) * lu(rng, -6, -3)
        v["E"] = math.sqrt(0.138 ** 2 + v["px"] ** 2 + v["py"] ** 2 + v["pz"] ** 2)
    else:
        for k in ("px", "py", "pz"):
            v[k] = sgn(rng) * lu(rng, 3, 6)
        v["E"] = math.sqrt(0.938 ** 2 + v["px"] ** 2 + v["py"] ** 2 + v["pz"] ** 2)
    return v, "ultra-" + kind


def gen_boundary(rng):
    """bit-level neighbourhoods of every threshold that appears in the eleven methods"""
    v, _ = gen_generic(rng)
    kind = rng.choice(["E-pz=1e-10", "E==pz", "E==-pz", "p-pz~1e-10", "pT~1e-6", "pT-diagonal", "comp=1e-6",
                       "t==|z|", "|E|==|pz|", "|E|~p", "p==0", "pxpy==0", "E-pz~1e-9", "p-pz~1e-9", "zeros"])
    k = rng.randint(-3, 3)
    if kind == "E-pz=1e-10":
        pz = sgn(rng) * lu(rng, -3, 1)
        v["pz"] = pz
        v["E"] = pz + sgn(rng) * nextafter_k(1e-10, k)
    elif kind == "E==pz":
        v["E"] = v["pz"] = sgn(rng) * lu(rng, -3, 3)
    elif kind == "E==-pz":
        v["E"] = lu(rng, -3, 3)
        v["pz"] = -v["E"]
    elif kind == "p-pz~1e-10":
        pz = lu(rng, -1, 1)
        pT = math.sqrt(2 * pz * 1e-10) * rng.uniform(0.7, 1.4)
        a = rng.uniform(-math.pi, math.pi)
        v["px"], v["py"], v["pz"] = pT * math.cos(a), pT * math.sin(a), pz * rng.choice([1.0, 1.0, -1.0])
    elif kind == "pT~1e-6":
        r = nextafter_k(1e-6, k) * rng.choice([1.0, 1.0, 0.5, 1.2, 1.5])
        a = rng.choice([0.0, math.pi / 2, math.pi, -math.pi / 2, rng.uniform(-math.pi, math.pi)])
        v["px"], v["py"] = r * math.cos(a), r * math.sin(a)
    elif kind == "pT-diagonal":
        # both components below 1e-6 but pT above it: the corner between the square and the disc
        c = rng.uniform(0.7072, 0.99999) * 1e-6
        d = rng.uniform(math.sqrt(max(0.0, 1e-12 - c * c)) * 1.0001, 0.99999e-6)
        v["px"], v["py"] = sgn(rng) * c, sgn(rng) * d
        if rng.random() < 0.5:
            v["px"], v["py"] = v["py"], v["px"]
    elif kind == "comp=1e-6":
        v["px"] = sgn(rng) * nextafter_k(1e-6, k)
        v["py"] = sgn(rng) * rng.choice([0.0, 1e-7, nextafter_k(1e-6, -k), 1e-6, 2e-6])
        if rng.random() < 0.5:
            v["px"], v["py"] = v["py"], v["px"]
    elif kind == "t==|z|":
        v["t"] = nextafter_k(abs(v["z"]), k)
    elif kind == "|E|==|pz|":
        v["E"] = sgn(rng) * nextafter_k(abs(v["pz"]), k)
    elif kind == "|E|~p":
        p = math.sqrt(v["px"] ** 2 + v["py"] ** 2 + v["pz"] ** 2)
        v["E"] = sgn(rng) * nextafter_k(p, k)
    elif kind == "p==0":
        v["px"] = v["py"] = v["pz"] = rng.choice([0.0, -0.0])
        if rng.random() < 0.5:
            v["pz"] = sgn(rng) * lu(rng, -3, 3)
    elif kind == "pxpy==0":
        v["px"] = rng.choice([0.0, -0.0, v["px"]])
        v["py"] = rng.choice([0.0, -0.0])
    elif kind == "E-pz~1e-9":
        pz = sgn(rng) * lu(rng, -3, 2)
        v["pz"] = pz
        v["E"] = abs(pz) + sgn(rng) * 1e-9 * rng.uniform(0.5, 3.0)
    elif kind == "p-pz~1e-9":
        pz = lu(rng, -1, 1)
        pT = math.sqrt(2 * pz * 1e-9) * rng.uniform(0.8, 2.0)
        a = rng.uniform(-math.pi, math.pi)
        v["px"], v["py"], v["pz"] = pT * math.cos(a), pT * math.sin(a), pz * sgn(rng)
    else:
        for kk in rng.sample(ATTRS, rng.randint(1, 8)):
            v[kk] = rng.choice([0.0, -0.0])
    return v, "boundary/" + kind


def gen_negE(rng):
    v, _ = gen_generic(rng)
    v["E"] = -abs(lu(rng, -2, 3))
    v["pz"] = sgn(rng) * abs(v["E"]) * rng.choice([rng.uniform(0, 0.999), rng.uniform(1.001, 3)])
    return v, "negative-E"


def gen_signs(rng):
    """every sign combination (negative, zero, positive) of (t, z) and (E, pz), with |z| <, ==, > |t| and |pz| <, ==, > |E|:
    negative or zero time / energy are unphysical inputs for which the property demands NaN or the ValueError"""
    v, _ = gen_generic(rng)

    def pair():
        a = rng.choice([0.0, -0.0, lu(rng, -6, 6), lu(rng, -2, 2), float(rng.randint(1, 9))])
        rel = rng.choice(["lt", "eq", "gt", "eq-ulp", "zero"])
        b = {"lt": a * rng.uniform(0.0, 0.999), "eq": a, "gt": a * rng.uniform(1.001, 5.0) + (1.0 if a == 0 else 0.0),
             "eq-ulp": (nextafter_k(a, rng.choice([-2, -1, 1, 2])) if a != 0 else 0.0),  # no subnormals: underflow is out of scope
             "zero": 0.0}[rel]
        sa, sb = rng.choice([-1.0, 1.0]), rng.choice([-1.0, 1.0])
        return sa * a, sb * abs(b), ("-" if sa < 0 else "+") + ("0" if a == 0 else "") + rel + ("-" if sb < 0 else "+")
    v["t"], v["z"], tg1 = pair()
    v["E"], v["pz"], tg2 = pair()
    return v, "signs/tz:" + tg1[0] + tg1[-1] + "/Epz:" + tg2[0] + tg2[-1]


SIGN_GRID = [0.0, -0.0, 1e-3, -1e-3, 1.0, -1.0, 3.0, -3.0, 5.0, -5.0, 1e4, -1e4]


def sign_grid_cases():
    """deterministic: all ordered pairs of SIGN_GRID used both as (t, z) and as (E, pz) — 144 particles"""
    out = []
    for i, a in enumerate(SIGN_GRID):
        for j, b in enumerate(SIGN_GRID):
            v = dict(t=a, z=b, E=a, pz=b, x=1.0, y=-2.0, px=0.5 if (i + j) % 2 else 0.0, py=0.25 if (i + j) % 3 else 0.0)
            out.append((v, [211, None, 22][(i + j) % 3], "sign-grid"))
    return out


def gen_pdg(rng):
    return rng.choice([211, -211, 2212, 22, 21, 12, -12, 14, -14, 16, -16, 18, -18, 111, 1, -2, None, 99999, 0])


def enc(v, pdg):
    return "kin\t" + "\t".join(f2h(v.get(k, NAN)) for k in ATTRS) + "\t" + ("-" if pdg is None else str(pdg))


def canon(v, pdg):
    return tuple(f2h(v.get(k, NAN)) for k in ATTRS) + (pdg,)


def parse_model(out):
    """driver answer -> list of ('val',f)|('vec',[..])|('raise','')"""
    if not out.startswith("ok "):
        return None
    res = []
    for tk in out.split(" ")[1:]:
        if tk == "raise":
            res.append(("raise", ""))
        elif tk.startswith("V:"):
            res.append(("vec", [h2f(t) for t in tk[2:].split(";")]))
        else:
            res.append(("val", h2f(tk)))
    return res if len(res) == len(METHODS) else None


def same(a, b, rel=1e-13):
    if a != a and b != b:
        return True
    if a == b:
        return True
    if not (isfinite(a) and isfinite(b)):
        return False
    return abs(a - b) <= rel * max(abs(a), abs(b))


def agree(real, model):
    if real[0] != model[0]:
        return False
    if real[0] == "raise":
        return True
    if real[0] == "vec":
        return all(same(x, y, 1e-15) for x, y in zip(real[1], model[1]))
    if real[0] == "val":
        return same(real[1], model[1])
    return False


def agree_loose(m, real, model, v):
    """comparison used ONLY when the translator could not re-derive the model (golden model vs rewritten code):
    the two sides no longer replay the same rounding sequence, so differences of a few ulp in intermediate
    results are legitimate and are amplified where a method is ill-conditioned (cancellation)."""
    if agree(real, model):
        return True
    if real[0] == "vec" and model[0] == "vec":
        return all(same(x, y, 1e-9) or abs(x - y) <= 1e-9 * max(map(abs, real[1])) for x, y in zip(real[1], model[1]))
    if real[0] != "val" or model[0] != "val":
        return False
    a, b = real[1], model[1]
    g = {k: v.get(k, NAN) for k in ATTRS}
    if not all(isfinite(g[k]) for k in REQUIRED[m]):
        return same(a, b, 1e-9)
    pT = math.hypot(g["px"], g["py"]) if m in ("theta", "pseudorapidity", "mass_from_energy_momentum") else 0.0
    p = math.sqrt(pT * pT + g["pz"] ** 2) if pT == pT and m in ("theta", "pseudorapidity", "mass_from_energy_momentum") else 0.0
    nanflip = (a != a) != (b != b)
    if m == "theta" and not nanflip:
        return abs(a - b) <= 1e-9 + 64 * EPS * p / max(pT, 1e-300)
    if m == "pseudorapidity":
        gap = pT * pT / (p + abs(g["pz"])) if p > 0 else 0.0
        amp = 64 * EPS * p / max(gap, 1e-300)
        if amp > 0.25:  # inside / next to the regulated direction: the value carries no digits on either side
            return True
        if not nanflip and isfinite(a) and isfinite(b):
            return abs(a - b) <= 1e-9 * (1 + abs(a)) + amp
    for mm, (u, w) in (("mass_from_energy_momentum", (g["E"], p)), ("mT", (g["E"], g["pz"])), ("proper_time", (g["t"], g["z"]))):
        if m == mm:
            scale = u * u + w * w
            if nanflip:
                return abs(u * u - w * w) <= 64 * EPS * scale
            return isfinite(a) and isfinite(b) and abs(a * a - b * b) <= 1e-9 * abs(a * a) + 64 * EPS * scale
    if nanflip:
        return False
    return same(a, b, 1e-9)


def kind_of(r):
    if r[0] == "val":
        x = r[1]
        return "nan" if x != x else ("inf" if not isfinite(x) else "fin")
    return r[0]


def subsets_cases(rng, nbase):
    """all 2^8 subsets of unset float attributes, for `nbase` base particles, pdg set / unset / massless"""
    out = []
    for b in range(nbase):
        base, _ = gen_generic(rng)
        base["t"] = abs(base["z"]) * 1.5 + 1.0
        base["E"] = math.sqrt(0.138 ** 2 + base["px"] ** 2 + base["py"] ** 2 + base["pz"] ** 2)
        for mask in range(256):
            v = {k: (NAN if (mask >> i) & 1 else base[k]) for i, k in enumerate(ATTRS)}
            pdg = [211, None, 22][(mask + b) % 3]
            out.append((v, pdg, "unset-subset"))
    return out


# ------------------------------------------------------------------ long-lived objects: setter / call histories
# One Particle object is driven through a random history of public setter assignments (every settable attribute,
# including "back to unset" = NaN), copies (copy.deepcopy) and kinematic method calls.  At every call step the
# values returned by the long-lived object are judged on the CURRENT attribute values: against the model
# (correspondence), against the property oracle, and against a fresh object built from the same values.
# In-place numpy writes to `data_` are NOT generated: the class documentation presents the setters ("the attributes
# can be set or obtained with the corresponding functions") as the interface and mentions `data_` only as storage;
# nothing in src/ or tests/ writes to it from outside.
SET_FLOAT = ["t", "x", "y", "z", "mass", "E", "px", "py", "pz", "form_time", "xsecfac", "t_last_coll", "weight"]
SET_INT = ["ID", "charge", "ncoll", "proc_id_origin", "proc_type_origin", "pdg_mother1", "pdg_mother2", "status",
           "baryon_number", "strangeness"]
PDG_CHOICES = [211, -211, 2212, 22, 21, 12, -14, 111, 1, -2, 321, 3122]


def seq_start(start):
    """start = {"mode": "empty"} | {"mode": "setters"|"Oscar2013", "values": {...}, "pdg": int|None}
    -> (object, current float attributes, current pdg)"""
    mode = start.get("mode", "empty")
    if mode == "empty":
        from sparkx.Particle import Particle
        return Particle(), {k: NAN for k in ATTRS}, None
    v = {k: float(x) for k, x in start["values"].items()}
    pdg = start.get("pdg")
    if mode == "route":
        obj, ev, epdg, _ = build_particle(v, pdg, start["route"], start.get("salt", 0))
        return obj, dict(ev), epdg
    return make_particle(v, pdg, via_array=(mode == "Oscar2013")), {k: v.get(k, NAN) for k in ATTRS}, pdg


def exec_sequence(start, steps):
    """Run a history on ONE object. Returns the observations of its call steps:
    [(step index, current values, current pdg, {method: result})]"""
    import copy
    obj, cur, pdg = seq_start(start)
    obs = []
    for i, st in enumerate(steps):
        if st[0] == "set":
            _, attr, value = st
            with warnings.catch_warnings():
                warnings.simplefilter("ignore")
                setattr(obj, attr, value)
            if attr in ATTRS:
                cur[attr] = float(value)
            elif attr == "pdg":
                pdg = int(value)
        elif st[0] == "copy":
            obj = apply_copy(obj, st[1] if len(st) > 1 else "deepcopy")
        elif st[0] == "call":
            obs.append((i, dict(cur), pdg, {m: call(obj, m) for m in st[1]}))
        else:
            raise ValueError(f"unknown step {st!r}")
    return obs


def gen_value(rng, old):
    r = rng.random()
    if r < 0.12:
        return NAN                      # back to unset
    if r < 0.20 and old == old:
        return -old                     # pure sign flip
    if r < 0.26 and old == old:
        return old                      # same value again
    if r < 0.32:
        return rng.choice([0.0, -0.0])
    if r < 0.55:
        return sgn(rng) * float(rng.randint(1, 12))
    return sgn(rng) * lu(rng, -3, 3)


def gen_sequence(rng):
    mode = rng.choice(["empty", "setters", "setters", "Oscar2013", "route", "route"])
    if mode == "empty":
        start = dict(mode="empty")
        cur = {k: NAN for k in ATTRS}
    elif mode == "route":
        v, _ = rng.choice([gen_generic, gen_generic, gen_signs])(rng)
        for k in rng.sample(ATTRS, rng.choice([0, 0, 1, 3])):
            v[k] = NAN
        start = dict(mode="route", values=dict(v), pdg=rng.choice(PDG_CHOICES), route=gen_route(rng), salt=rng.randrange(100))
        try:
            _, cur, _ = seq_start(start)
        except Exception:  # noqa: BLE001
            start = dict(mode="setters", values=dict(v), pdg=start["pdg"])
            cur = dict(v)
    else:
        v, _ = rng.choice([gen_generic, gen_generic, gen_signs])(rng)
        if mode == "setters":
            for k in rng.sample(ATTRS, rng.choice([0, 0, 1, 3])):
                v[k] = NAN
        pdg = rng.choice(PDG_CHOICES) if (mode == "Oscar2013" or rng.random() < 0.7) else None
        start = dict(mode=mode, values=dict(v), pdg=pdg)
        cur = dict(v)
    steps = []

    def add_call():
        ms = list(METHODS)
        rng.shuffle(ms)
        if rng.random() < 0.5:
            ms = ms[:rng.randint(1, 5)]
        steps.append(["call", ms])
    if rng.random() < 0.7:
        add_call()
    for _ in range(rng.randint(3, 14)):
        r = rng.random()
        if r < 0.62:
            attr = rng.choice(ATTRS + ["px", "py", "pz", "E", "t", "z"])  # kinematic slots twice as often
            val = gen_value(rng, cur.get(attr, NAN))
            cur[attr] = val
            steps.append(["set", attr, val])
        elif r < 0.72:
            attr = rng.choice([a_ for a_ in SET_FLOAT if a_ not in ATTRS])
            steps.append(["set", attr, gen_value(rng, NAN)])
        elif r < 0.80:
            steps.append(["set", rng.choice(SET_INT), rng.choice([NAN, float(rng.randint(-3, 3))])])
        elif r < 0.90:
            steps.append(["set", "pdg", rng.choice(PDG_CHOICES)])
        else:
            steps.append(["copy", rng.choice(["copy", "deepcopy", "pickle2", "pickle5"])])
        if rng.random() < 0.75:
            add_call()
    if steps[-1][0] != "call":
        add_call()
    return start, steps


def judge_sequence(start, steps):
    """-> list of (step index, key, what, detail) : property failures of the long-lived object.
    A failure that a fresh object with the same attribute values does not show gets the key `instance-reuse-<key>`."""
    out = []
    for i, cur, pdg, got in exec_sequence(start, steps):
        fresh = dict(zip(METHODS, real_all(cur, pdg)))
        merged = dict(fresh)
        merged.update(got)
        fresh_keys = {k for k, _, _ in check_particle(cur, pdg, fresh)}
        for key, what, detail in check_particle(cur, pdg, merged):
            if key in fresh_keys:
                out.append((i, key, what, detail))
            else:
                m = next((m_ for m_ in got if not agree(got[m_], fresh[m_])), None)
                out.append((i, "instance-reuse-" + key,
                            what + f" — on an object with a setter/call history (step {i}); a fresh Particle with the same "
                                   f"attribute values gives {fresh[m] if m else 'a correct value'}",
                            dict(detail, fresh={k: list(r) for k, r in fresh.items()})))
    return out


def shrink_sequence(start, steps, key):
    def fails(st, sp):
        try:
            return any(k == key for _, k, _, _ in judge_sequence(st, sp))
        except Exception:  # noqa: BLE001
            return False
    hits = [i for i, k, _, _ in judge_sequence(start, steps) if k == key]
    if not hits:
        return start, steps
    steps = [list(x) for x in steps[:hits[0] + 1]]
    # the failing call: one method if possible
    for m in list(steps[-1][1]):
        cand = steps[:-1] + [["call", [m]]]
        if fails(start, cand):
            steps = cand
            break
    changed = True
    while changed:
        changed = False
        for j in range(len(steps) - 1):
            cand = steps[:j] + steps[j + 1:]
            if fails(start, cand):
                steps, changed = cand, True
                break
            if steps[j][0] == "call" and len(steps[j][1]) > 1:
                for m in steps[j][1]:
                    cand = steps[:j] + [["call", [m]]] + steps[j + 1:]
                    if fails(start, cand):
                        steps, changed = cand, True
                        break
                if changed:
                    break
    if start.get("mode") != "empty":
        # move the start values into explicit setter steps, then drop what is not needed
        try:
            _, cur0, pdg0 = seq_start(start)
        except Exception:  # noqa: BLE001
            cur0, pdg0 = start["values"], start.get("pdg")
        if start.get("mode") == "route":
            start_plain = dict(mode="setters", values=dict(cur0), pdg=pdg0)
            if fails(start_plain, steps):
                start = start_plain
        pre = [["set", k, x] for k, x in (cur0 if start.get("mode") != "route" else {}).items() if x == x]
        if start.get("pdg") is not None:
            pre.append(["set", "pdg", start["pdg"]])
        if start.get("mode") != "route" and fails(dict(mode="empty"), pre + steps):
            start, steps = dict(mode="empty"), pre + steps
            changed = True
            while changed:
                changed = False
                for j in range(len(steps) - 1):
                    cand = steps[:j] + steps[j + 1:]
                    if fails(start, cand):
                        steps, changed = cand, True
                        break
    for j, st in enumerate(steps):
        if st[0] == "set" and isinstance(st[2], float) and st[2] == st[2]:
            for digits in (1, 2, 3):
                cand = [list(x) for x in steps]
                cand[j][2] = float(f"%.{digits}g" % st[2])
                if cand[j][2] != st[2] and fails(start, cand):
                    steps = cand
                    break
    return start, steps


def shrink_route(v, pdg, route, salt, env, key):
    def fails(v_, r_, e_):
        try:
            return any(k == key for k, _, _ in judge_route(v_, pdg, r_, salt, e_)[1])
        except Exception:  # noqa: BLE001
            return False
    route = dict(route)
    if env and not key.startswith("environment") and fails(v, route, False):
        env = False
    for fld in ("rowcopy", "copy"):
        if route.get(fld) and not key.startswith("copied") and fails(v, dict(route, **{fld: None}), env):
            route[fld] = None
    v = dict(v)
    for k in ATTRS:
        x = v.get(k, NAN)
        if x != x:
            continue
        for cand in (float("%.1g" % x), float("%.3g" % x)):
            if cand != x and fails(dict(v, **{k: cand}), route, env):
                v[k] = cand
                break
    return v, route, env


def corpus_sequences():
    return [c for c in corpus() if c.get("kind") == "sequence"]


# ------------------------------------------------------------------ aliasing of returned objects
# Every public zero-argument method / property of Particle whose result is a mutable non-scalar (ndarray, list, dict,
# set, or a tuple holding one) is discovered on the tree under test.  Results of several calls (same particle twice,
# several particles) are HELD; after every later call and after every caller-side in-place edit of a held result all
# other held results, the particles' stored attributes and a fresh call are re-checked; results must share memory
# neither with the particle's storage nor with each other.  (`data_` itself is the storage, not a result.)
ALIAS_SKIP = {"data_", "print_particle"}
MUTATIONS = ["fill0", "scale", "item0", "nan"]


def is_mutable_nonscalar(r):
    if isinstance(r, np.ndarray):
        return r.ndim >= 1
    if isinstance(r, (list, dict, set, bytearray)):
        return True
    if isinstance(r, tuple):
        return any(is_mutable_nonscalar(x) for x in r)
    return False


def _invoke(obj, name):
    import inspect
    attr = inspect.getattr_static(type(obj), name, None)
    with warnings.catch_warnings():
        warnings.simplefilter("ignore")
        with np.errstate(all="ignore"):
            if isinstance(attr, property):
                return getattr(obj, name)
            return getattr(obj, name)()


def discover_nonscalar_members():
    """names of public no-argument methods / properties that return a mutable non-scalar on a fully set particle"""
    import inspect
    from sparkx.Particle import Particle
    probe = make_particle(dict(t=5.0, x=1.0, y=2.0, z=3.0, E=5.0, px=0.5, py=-0.25, pz=2.0), 211)
    names = []
    for name in sorted(dir(Particle)):
        if name.startswith("_") or name in ALIAS_SKIP:
            continue
        attr = inspect.getattr_static(Particle, name, None)
        if isinstance(attr, property):
            pass
        elif inspect.isfunction(attr):
            try:
                params = list(inspect.signature(attr).parameters.values())[1:]
            except (TypeError, ValueError):
                continue
            if any(q.default is inspect.Parameter.empty and q.kind in (q.POSITIONAL_ONLY, q.POSITIONAL_OR_KEYWORD) for q in params):
                continue
        else:
            continue
        try:
            r = _invoke(probe, name)
        except Exception:  # noqa: BLE001
            continue
        if is_mutable_nonscalar(r):
            names.append(name)
    return names


def _snap(r):
    import copy
    return copy.deepcopy(r)


def _same(a, b):
    if isinstance(a, np.ndarray) or isinstance(b, np.ndarray):
        try:
            return isinstance(a, np.ndarray) and isinstance(b, np.ndarray) and a.shape == b.shape and \
                bool(np.array_equal(a, b, equal_nan=True))
        except Exception:  # noqa: BLE001
            return False
    if isinstance(a, tuple) and isinstance(b, tuple):
        return len(a) == len(b) and all(_same(x, y) for x, y in zip(a, b))
    if isinstance(a, float) and isinstance(b, float) and a != a and b != b:
        return True
    try:
        return bool(a == b)
    except Exception:  # noqa: BLE001
        return False


def _arrays(r):
    if isinstance(r, np.ndarray):
        return [r]
    if isinstance(r, (tuple, list)):
        return [a_ for x in r for a_ in _arrays(x)]
    return []


def _shares(a, b):
    if a is b and is_mutable_nonscalar(a):
        return True
    return any(np.shares_memory(x, y) for x in _arrays(a) for y in _arrays(b))


def _mutate(r, how):
    """caller-side in-place edit of a returned object"""
    tgt = r
    if isinstance(r, tuple):
        tgt = next((x for x in r if is_mutable_nonscalar(x)), None)
    if isinstance(tgt, np.ndarray) and tgt.size:
        if how == "fill0":
            tgt.fill(0)
        elif how == "scale":
            tgt *= 2
        elif how == "item0":
            tgt.flat[0] = 7
        else:
            tgt[...] = np.nan if tgt.dtype.kind == "f" else 0
    elif isinstance(tgt, list) and tgt:
        if how == "fill0":
            tgt[:] = [0] * len(tgt)
        elif how == "item0":
            tgt[0] = 7
        else:
            tgt.clear()
    elif isinstance(tgt, (dict, set, bytearray)):
        tgt.clear()


def _show(r):
    return r.tolist() if isinstance(r, np.ndarray) else r


def judge_alias(particles, ops):
    """particles: [{"values":…, "pdg":…}], ops: ["call", particle index, member] | ["mutate", held index, how]
    -> [(op index, key, what, detail)]"""
    objs, exps = [], []
    for q in particles:
        v_ = {k: float(x) for k, x in q["values"].items()}
        if q.get("route"):
            o_, ev_, ep_, _ = build_particle(v_, q.get("pdg"), q["route"], q.get("salt", 0))
        else:
            o_, ev_, ep_ = make_particle(v_, q.get("pdg")), v_, q.get("pdg")
        objs.append(o_)
        exps.append((ev_, ep_))
    stored = [np.array(o.data_, copy=True) for o in objs]
    held = []   # [op index, particle index, member, object, snapshot at return time, edited by the caller?]
    out = []

    def bad(i, key, what):
        out.append((i, key, what, dict(particles=particles, ops=ops[:i + 1])))

    def recheck(i, cause, skip=None):
        for h in held:
            if h is skip or h[5]:
                continue
            if not _same(h[3], h[4]):
                bad(i, f"aliasing:{h[2]}:earlier-result-changed-by-{cause}",
                    f"{h[2]}() of particle {h[1]} (op {h[0]}) was {_show(h[4])} when returned and reads {_show(h[3])} after op {i} {ops[i]}")
                h[4] = _snap(h[3])
        for j, (o, st) in enumerate(zip(objs, stored)):
            if not np.array_equal(o.data_, st, equal_nan=True):
                bad(i, f"aliasing:{ops[i][2] if ops[i][0] == 'call' else held[ops[i][1]][2]}:particle-attributes-changed-by-{cause}",
                    f"stored attributes of particle {j} changed after op {i} {ops[i]}")
                stored[j] = np.array(o.data_, copy=True)

    for i, op in enumerate(ops):
        if op[0] == "call":
            _, pi, name = op
            try:
                r = _invoke(objs[pi], name)
            except Exception as e:  # noqa: BLE001
                r = ("raise", type(e).__name__)
            recheck(i, "a-later-call")
            if is_mutable_nonscalar(r):
                if _shares(r, objs[pi].data_) or any(_shares(r, o.data_) for o in objs):
                    bad(i, f"aliasing:{name}:result-shares-memory-with-particle-storage",
                        f"{name}() of particle {pi} returns an object that shares memory with data_")
                for h in held:
                    if is_mutable_nonscalar(h[3]) and _shares(r, h[3]):
                        bad(i, f"aliasing:{name}:results-share-memory",
                            f"{name}() of particle {pi} (op {i}) shares memory with the result of {h[2]}() of particle {h[1]} (op {h[0]})")
                        break
            held.append([i, pi, name, r, _snap(r), False, _snap(r)])
        elif op[0] == "mutate":
            _, hi, how = op
            if hi >= len(held) or not is_mutable_nonscalar(held[hi][3]):
                continue
            h = held[hi]
            before = h[6]  # the value as it was returned
            _mutate(h[3], how)
            h[5] = True
            recheck(i, "a-caller-side-edit-of-another-result", skip=h)
            try:
                again = _invoke(objs[h[1]], h[2])
            except Exception as e:  # noqa: BLE001
                again = ("raise", type(e).__name__)
            if not _same(again, before):
                bad(i, f"aliasing:{h[2]}:later-call-changed-by-a-caller-side-edit",
                    f"after editing ({how}) the object returned by {h[2]}() of particle {h[1]}, a new call returns {_show(again)} instead of {_show(before)}")
            recheck(i, "a-later-call")
    # the values the caller still holds must still satisfy the definition (kinematic methods only)
    for h in held:
        if h[2] in METHODS and not h[5] and isinstance(h[3], np.ndarray) and h[3].shape == (3,):
            v, vp = exps[h[1]]
            res = dict(zip(METHODS, real_all(v, vp)))
            ok_fresh = not any(k.startswith(h[2]) for k, _, _ in check_particle(v, vp, res))
            res[h[2]] = ("vec", [float(x) for x in h[3]])
            items = [it for it in check_particle(v, vp, res) if it[0].startswith(h[2])]
            if items and ok_fresh:
                bad(len(ops) - 1, f"aliasing:{h[2]}:held-result-no-longer-satisfies-definition",
                    f"the array returned by {h[2]}() for particle {h[1]} (op {h[0]}) now reads {_show(h[3])}: {items[0][1]}")
    return out


def gen_alias_case(rng, members):
    n = rng.randint(1, 4)
    particles = []
    for _ in range(n):
        v = {k: sgn(rng) * float(rng.randint(1, 9)) * rng.choice([1.0, 0.5, 0.1]) for k in ATTRS}
        v["t"] = abs(v["z"]) + 1.0
        v["E"] = math.sqrt(1.0 + v["px"] ** 2 + v["py"] ** 2 + v["pz"] ** 2)
        if rng.random() < 0.15:
            v[rng.choice(ATTRS)] = NAN
        q = dict(values=v, pdg=rng.choice([211, 22, None]))
        if rng.random() < 0.35:
            q.update(pdg=rng.choice([211, 22]), route=gen_route(rng), salt=rng.randrange(100))
            try:
                build_particle(v, q["pdg"], q["route"], q["salt"])
            except Exception:  # noqa: BLE001
                q.pop("route")
        particles.append(q)
    pool = list(members) * 3 + METHODS
    ops, ncall = [], 0
    for _ in range(rng.randint(2, 9)):
        if ncall and rng.random() < 0.3:
            ops.append(["mutate", rng.randrange(ncall), rng.choice(MUTATIONS)])
        else:
            ops.append(["call", rng.randrange(n), rng.choice(pool)])
            ncall += 1
    return particles, ops


def shrink_alias(particles, ops, key):
    def fails(ps, os_):
        try:
            return any(k == key for _, k, _, _ in judge_alias(ps, os_))
        except Exception:  # noqa: BLE001
            return False
    hit = [i for i, k, _, _ in judge_alias(particles, ops) if k == key]
    if not hit:
        return particles, ops
    ops = [list(o) for o in ops[:hit[0] + 1]]
    changed = True
    while changed:
        changed = False
        for j in range(len(ops)):
            cand = ops[:j] + ops[j + 1:]
            if ops[j][0] == "call":  # held indices of later mutate ops shift
                nth = sum(1 for o in ops[:j] if o[0] == "call")
                cand = [([o[0], o[1] - 1, o[2]] if o[0] == "mutate" and o[1] > nth else o) for o in cand
                        if not (o[0] == "mutate" and o[1] == nth)]
            if cand and fails(particles, cand):
                ops, changed = cand, True
                break
    used = sorted({o[1] for o in ops if o[0] == "call"})
    if len(used) < len(particles):
        ps = [particles[i] for i in used]
        os_ = [([o[0], used.index(o[1]), o[2]] if o[0] == "call" else o) for o in ops]
        if fails(ps, os_):
            particles, ops = ps, os_
    return particles, ops


# ------------------------------------------------------------------ correspondence (tie C)
def correspond(ctx):
    rng = ctx.rng
    ctx.rule = ("particles with log-uniform magnitudes 1e-6..1e6 (on-shell / free / space-like), ultra-relativistic and soft, "
                "bit-neighbourhoods of every threshold in the methods (1e-10 regulators, 1e-6 phi cut, t=|z|, |E|=|pz|, |E|=p, p=0), "
                "negative energies, every sign combination (negative / zero / positive) of (t,z) and (E,pz) with |z| <,==,> |t| "
                "(random + an exhaustive 12x12 grid), all 2^8 unset subsets x pdg set/unset/massless; all 11 methods per particle; "
                "plus long-lived objects: random histories of setter assignments (all settable attributes, incl. back to unset), "
                "copies (copy / deepcopy / pickle round trip) and method calls on ONE object, every call judged on the current attribute values; "
                "every third particle is built through a constructor row (Oscar2013 / Oscar2013Extended / JETSCAPE / ASCII) given as list, "
                "tuple, ndarray of float / object / str / float32, ndarray subclass, masked array (unset float fields masked over a hidden "
                "finite value), strings with blanks / CR LF, and / or replaced by a copy before use; "
                "non-trivial = at least one method returns a finite value, a vector or raises (i.e. not everything unset); "
                "distinct by the bit patterns of the 8 attributes + pdg")
    fallback = getattr(ctx, "translator_fallback", False)
    n = ctx.n(2000, 60000)
    if fallback:
        n = max(n, 20000)
    cases = []
    for case in corpus():
        if case.get("kind") not in ("sequence", "alias", "route"):
            cases.append((dict(case["values"]), case.get("pdg"), "corpus"))
    cases += sign_grid_cases()
    gens = [gen_generic] * 4 + [gen_ultra] * 2 + [gen_boundary] * 3 + [gen_negE] + [gen_signs] * 2
    for _ in range(n):
        v, tag = rng.choice(gens)(rng)
        cases.append((v, gen_pdg(rng), tag))
    cases += subsets_cases(rng, ctx.n(2, 12))
    for _ in range(ctx.n(10, 200)):  # non-finite inputs exercise the NaN/inf plumbing of both sides
        v, _ = gen_generic(rng)
        v[rng.choice(ATTRS)] = rng.choice([math.inf, -math.inf])
        cases.append((v, gen_pdg(rng), "inf-input"))
    # every third particle comes into being through a constructor row in some array-like representation and / or is
    # replaced by a copy (copy / deepcopy / pickle round trip) before use; the model sees the attribute values it must have
    built = []
    for i, (v, pdg, tag) in enumerate(cases):
        route, obj = None, None
        if i % 3 == 0:
            route = gen_route(rng)
            try:
                obj, ev, epdg, _ = build_particle(v, pdg, route, i)
            except Exception:  # noqa: BLE001  (e.g. an invalid pdg code in a JETSCAPE row; judged by the oracle in search)
                route, obj = None, None
        if obj is None:
            obj, ev, epdg = make_particle(v, pdg), v, pdg
        built.append((obj, ev, epdg, route))
    lines = [enc(ev, epdg) for _, ev, epdg, _ in built]
    outs = common.run_driver("C08", lines)
    nbad = 0
    for i, ((v0, pdg0, tag), (obj, v, pdg, route), out) in enumerate(zip(cases, built, outs)):
        via_array = route is not None
        real = [call(obj, m) for m in METHODS]
        model = parse_model(out)
        sig = "".join(kind_of(r)[0] for r in real)
        nontriv = any(kind_of(r) in ("fin", "vec", "raise") for r in real)
        ctx.case(canon(v, pdg), nontriv,
                 sample=dict(values={k: v.get(k, NAN) for k in ATTRS}, pdg=pdg, category=tag,
                             code=[[r[0], r[1]] for r in real], model=out))
        ctx.count("cat/" + tag)
        ctx.count("sig/" + sig)
        if via_array:
            ctx.count("route/%s/%s/copy=%s" % (route.get("fmt"), route.get("rep"), route.get("copy")))
        if model is None:
            bad = ["(driver answer unparsable: %s)" % out[:80]]
        else:
            bad = [m for m, r, mo in zip(METHODS, real, model)
                   if not (agree_loose(m, r, mo, v) if fallback else agree(r, mo))]
        if bad and nbad < 5:
            nbad += 1
            j = METHODS.index(bad[0]) if bad[0] in METHODS else 0
            ctx.brk("correspondence-broken",
                    f"{bad}: code {real[j]} vs model {model[j] if model else out[:60]} on {v} pdg={pdg} [{tag}] route={route}",
                    case=dict(values={k: f2h(v.get(k, NAN)) for k in ATTRS}, floats=v, pdg=pdg, category=tag, methods=bad,
                              route=route, salt=i))
    ctx.cov["correspondence_cases"] = len(cases)
    # ---- long-lived objects: the model on the CURRENT attribute values vs the object with a history
    seqs = [(c["start"], c["steps"], "corpus") for c in corpus_sequences()]
    seqs += [gen_sequence(rng) + ("random",) for _ in range(ctx.n(150, 4000))]
    states = []
    for si, (start, steps, tag) in enumerate(seqs):
        for i, cur, pdg, got in exec_sequence(start, steps):
            states.append((si, i, cur, pdg, got))
    outs = common.run_driver("C08", [enc(cur, pdg) for _, _, cur, pdg, _ in states])
    nbad = 0
    for (si, i, cur, pdg, got), out in zip(states, outs):
        model = parse_model(out)
        md = dict(zip(METHODS, model)) if model else {}
        ctx.case(("seq", si, i) + canon(cur, pdg) + tuple(sorted(got)), any(kind_of(r) != "nan" for r in got.values()))
        ctx.count("seq/call-steps")
        bad = [m for m, r in got.items()
               if m not in md or not (agree_loose(m, r, md[m], cur) if fallback else agree(r, md[m]))]
        if bad and nbad < 3:
            nbad += 1
            start, steps, tag = seqs[si]
            ctx.brk("correspondence-broken",
                    f"object with a setter/call history, step {i}: {bad}: code {got[bad[0]]} vs model {md.get(bad[0])} "
                    f"on current values {cur} pdg={pdg}",
                    case=dict(kind="sequence", start=start, steps=steps[:i + 1], methods=bad))
    ctx.count("seq/histories", len(seqs))
    ctx.cov["sequence_histories"] = len(seqs)
    ctx.cov["sequence_call_steps"] = len(states)


# ------------------------------------------------------------------ the property on the real code (oracle)
def F(x):
    return Fr(x)


def ratio_log_half(num, den):
    """0.5*ln(num/den) for exact rationals num/den > 0, accurate to a few ulp"""
    r = num / den
    if Fr(1, 2) < r < 2:
        return 0.5 * math.log1p(float(r - 1))
    return 0.5 * math.log(float(r))


def check_particle(v, pdg, res=None):
    """All clauses of the property for ONE particle on the real code.
    Returns a list of (key, what, detail)."""
    out = []
    if res is None:
        res = dict(zip(METHODS, real_all(v, pdg)))
    setv = {k: v.get(k, NAN) for k in ATTRS}
    isset = {k: setv[k] == setv[k] for k in ATTRS}
    finite_in = {k: isset[k] and isfinite(setv[k]) for k in ATTRS}

    def bad(key, what, **d):
        out.append((key, what, dict(values=setv, pdg=pdg, **d)))

    # ---- (1) missing data gives NaN: never a number, never an exception
    for m in METHODS:
        r = res[m]
        missing = [k for k in REQUIRED[m] if not isset[k]]
        if missing:
            if r[0] == "raise":
                bad(f"{m}-unset-exception", f"{m}() raised {r[1]} with {missing} unset (must return NaN)", observed=r)
            elif not (r[0] == "val" and r[1] != r[1]):
                bad(f"{m}-unset-not-nan", f"{m}() returned {r[1]!r} with {missing} unset (must return NaN)", observed=r)
        elif r[0] == "other":
            bad(f"{m}-odd-result", f"{m}() returned {r[1]}", observed=r)
        elif r[0] == "raise" and not (m in ("proper_time", "spacetime_rapidity") and r[1] == "ValueError"):
            bad(f"{m}-exception", f"{m}() raised {r[1]} on set inputs {setv}", observed=r)

    def val(m):
        r = res[m]
        return r[1] if r[0] == "val" else None

    px, py, pz, E, t, z = (setv[k] for k in ("px", "py", "pz", "E", "t", "z"))
    # ---- (2) identities, each only when its own inputs are finite
    if finite_in["px"] and finite_in["py"]:
        pT2 = F(px) ** 2 + F(py) ** 2
        c = val("pT_abs")
        if c is None or not isfinite(c) or c < 0 or abs(F(c) ** 2 - pT2) > 8 * EPS * pT2:
            bad("pT_abs-identity", f"pT_abs()={c!r}: pT^2 != px^2+py^2 = {float(pT2)!r}", observed=c, expected_sq=float(pT2))
        pT = math.hypot(px, py)
        if pT2 > Fr(1e-6) ** 2:  # quantifier: pT > 1e-6
            c = val("phi")
            # the double nearest to pi is BELOW pi, so -math.pi (atan2(-0.0, x<0)) lies inside the real interval (-pi, pi]
            okphi = c is not None and isfinite(c) and -math.pi <= c <= math.pi and \
                abs(pT * math.cos(c) - px) <= 8 * EPS * pT and abs(pT * math.sin(c) - py) <= 8 * EPS * pT
            if not okphi:
                key = "phi-regulator-applied-above-pT-1e-6" if (c == 0.0 and pT < 1.5e-6) else "phi-identity"
                bad(key, f"phi()={c!r} but atan2(py,px)={math.atan2(py, px)!r} for px={px!r}, py={py!r} (pT={pT!r} > 1e-6)",
                    observed=c, expected=math.atan2(py, px))
    if finite_in["px"] and finite_in["py"] and finite_in["pz"]:
        p2 = F(px) ** 2 + F(py) ** 2 + F(pz) ** 2
        c = val("p_abs")
        cT = val("pT_abs")
        if c is None or not isfinite(c) or c < 0 or abs(F(c) ** 2 - p2) > 8 * EPS * p2:
            bad("p_abs-identity", f"p_abs()={c!r}: p^2 != px^2+py^2+pz^2", observed=c, expected_sq=float(p2))
        elif cT is not None and isfinite(cT) and abs(F(c) ** 2 - (F(cT) ** 2 + F(pz) ** 2)) > 16 * EPS * p2:
            bad("p_abs-pT-relation", f"p^2 != pT^2 + pz^2 (p={c!r}, pT={cT!r}, pz={pz!r})", observed=[c, cT])
        p = math.sqrt(float(p2)) if p2 > 0 else 0.0
        pT = math.hypot(px, py)
        if p2 > 0 and p > 1e-150:
            th = val("theta")
            if th is None or not isfinite(th) or not (0 <= th <= math.pi) or abs(math.cos(th) - pz / p) > 8 * EPS:
                bad("theta-identity", f"theta()={th!r}: cos(theta)={math.cos(th) if th is not None and th == th else None!r} != pz/p={pz / p!r}",
                    observed=th, expected_cos=pz / p)
            # regulated directions excluded: |p-|pz|| > 1e-9 (computed without cancellation)
            gap = pT * pT / (p + abs(pz)) if pT > 0 else 0.0
            if gap > 1e-9 and pT > 1e-150:
                ref = math.asinh(pz / pT)  # = artanh(pz/p), well conditioned
                tol = 16 * EPS * (1 + abs(ref)) + 8 * EPS * p / gap
                c = val("pseudorapidity")
                if c is None or not isfinite(c) or abs(c - ref) > tol:
                    bad("pseudorapidity-identity", f"pseudorapidity()={c!r} != artanh(pz/p)={ref!r} (tol {tol:.3g})",
                        observed=c, expected=ref, tol=tol)
                elif th is not None and isfinite(th) and 0 < th < math.pi:
                    alt = -math.log(math.tan(th / 2))
                    tol2 = tol + 16 * EPS * (1 + abs(ref)) + 16 * EPS * (p / pT) ** 2
                    if abs(c - alt) > tol2:
                        bad("pseudorapidity-theta-relation", f"eta={c!r} != -ln tan(theta/2)={alt!r} (tol {tol2:.3g})",
                            observed=[c, th], expected=alt, tol=tol2)
    if finite_in["E"] and finite_in["pz"]:
        c = val("rapidity")
        if abs(abs(E) - abs(pz)) > 1e-9 and abs(E - abs(pz)) > 1e-9:
            if abs(pz) < E:
                ref = ratio_log_half(F(E) + F(pz), F(E) - F(pz))  # = artanh(pz/E) exactly evaluated
                tol = 16 * EPS * (1 + abs(ref))
                if c is None or not isfinite(c) or abs(c - ref) > tol:
                    bad("rapidity-identity", f"rapidity()={c!r} != artanh(pz/E)={ref!r}", observed=c, expected=ref)
            elif E >= 0 and abs(pz) > E:
                if res["rapidity"][0] != "val" or isfinite(c):
                    bad("rapidity-unphysical-finite", f"rapidity()={res['rapidity']!r} for |pz|={abs(pz)!r} > E={E!r} (must be NaN)",
                        observed=res["rapidity"])
        c = val("mT")
        d = F(E) ** 2 - F(pz) ** 2
        tol = 8 * EPS * (F(E) ** 2 + F(pz) ** 2)
        if abs(pz) <= abs(E):
            if c is None or not isfinite(c) or c < 0 or abs(F(c) ** 2 - d) > tol:
                bad("mT-identity", f"mT()={c!r}: mT^2 != E^2-pz^2={float(d)!r}", observed=c, expected_sq=float(d))
        elif res["mT"][0] != "val" or isfinite(c):
            bad("mT-unphysical-finite", f"mT()={res['mT']!r} for |pz| > |E| (must be NaN)", observed=res["mT"])
    if all(finite_in[k] for k in ("E", "px", "py", "pz")):
        c = val("mass_from_energy_momentum")
        p2 = F(px) ** 2 + F(py) ** 2 + F(pz) ** 2
        d = F(E) ** 2 - p2
        tol = 16 * EPS * (F(E) ** 2 + p2)
        if pdg in MASSLESS:
            if c != 0.0:
                bad("mass-massless-pdg", f"mass_from_energy_momentum()={c!r} for documented massless pdg {pdg}", observed=c)
        elif d > tol:
            if c is None or not isfinite(c) or c < 0 or abs(F(c) ** 2 - d) > tol:
                bad("mass-identity", f"mass_from_energy_momentum()={c!r}: m^2 != E^2-p^2={float(d)!r}", observed=c, expected_sq=float(d))
        elif d < -tol:
            if res["mass_from_energy_momentum"][0] != "val" or isfinite(c):
                bad("mass-unphysical-finite", f"mass_from_energy_momentum()={c!r} for |p| > |E| (must be NaN)", observed=c)
        else:  # within numerical precision of the light cone: NaN (documented) or a mass consistent with it
            if c is None or (isfinite(c) and abs(F(c) ** 2 - d) > tol):
                bad("mass-identity", f"mass_from_energy_momentum()={c!r} near the light cone, E^2-p^2={float(d)!r}", observed=c)
    if finite_in["t"] and finite_in["z"]:
        rt, rs = res["proper_time"], res["spacetime_rapidity"]
        if t > abs(z):
            d = F(t) ** 2 - F(z) ** 2
            c = val("proper_time")
            if c is None or not isfinite(c) or c < 0 or abs(F(c) ** 2 - d) > 8 * EPS * (F(t) ** 2 + F(z) ** 2):
                bad("proper_time-identity", f"proper_time()={rt!r}: tau^2 != t^2-z^2={float(d)!r}", observed=rt, expected_sq=float(d))
            ref = ratio_log_half(F(t) + F(z), F(t) - F(z))
            c = val("spacetime_rapidity")
            if c is None or not isfinite(c) or abs(c - ref) > 16 * EPS * (1 + abs(ref)):
                bad("spacetime_rapidity-identity", f"spacetime_rapidity()={rs!r} != artanh(z/t)={ref!r}", observed=rs, expected=ref)
        else:
            for m, r in (("proper_time", rt), ("spacetime_rapidity", rs)):
                if not (r == ("raise", "ValueError") or (r[0] == "val" and r[1] != r[1])):
                    bad(f"{m}-unphysical-finite", f"{m}()={r!r} for |z|={abs(z)!r} >= t={t!r} (must be NaN or ValueError)", observed=r)
    if all(finite_in[k] for k in ("x", "y", "z", "px", "py", "pz")):
        r = res["angular_momentum"]
        X, Y, Z, PX, PY, PZ = (F(setv[k]) for k in ("x", "y", "z", "px", "py", "pz"))
        ex = [Y * PZ - Z * PY, Z * PX - X * PZ, X * PY - Y * PX]
        mag = [abs(Y * PZ) + abs(Z * PY), abs(Z * PX) + abs(X * PZ), abs(X * PY) + abs(Y * PX)]
        if r[0] != "vec" or any(not isfinite(c) or abs(F(c) - e) > 4 * EPS * mg + Fr(1e-300) for c, e, mg in zip(r[1], ex, mag)):
            bad("angular_momentum-identity", f"angular_momentum()={r!r} != r x p = {[float(e) for e in ex]}", observed=r,
                expected=[float(e) for e in ex])
    return out


def in_domain(v):
    """finite four-momentum and space-time point away from the regulated directions (the property's quantifier)"""
    if not all(isfinite(v.get(k, NAN)) for k in ATTRS):
        return False
    pT = math.hypot(v["px"], v["py"])
    p = math.sqrt(pT * pT + v["pz"] ** 2)
    gap = pT * pT / (p + abs(v["pz"])) if p > 0 else 0.0
    return pT > 1e-6 and gap > 1e-9 and abs(v["E"] - abs(v["pz"])) > 1e-9 and v["E"] >= 0


def check_symmetry(v, pdg, rng):
    """reflection pz -> -pz and azimuthal rotation on the real code (particle in the property's domain)"""
    out = []
    base = dict(zip(METHODS, real_all(v, pdg)))

    def bad(key, what, **d):
        out.append((key, what, dict(values={k: v.get(k, NAN) for k in ATTRS}, pdg=pdg, **d)))

    pT = math.hypot(v["px"], v["py"])
    p = math.sqrt(pT * pT + v["pz"] ** 2)
    gap = pT * pT / (p + abs(v["pz"]))
    eta_tol = 32 * EPS * (1 + abs(math.asinh(v["pz"] / pT))) + 16 * EPS * p / gap
    # -- reflection
    w = dict(v)
    w["pz"] = -v["pz"]
    refl = dict(zip(METHODS, real_all(w, pdg)))
    for m, tol in (("rapidity", None), ("pseudorapidity", eta_tol)):
        a, b = base[m], refl[m]
        if a[0] != "val" or b[0] != "val":
            bad(f"{m}-reflection", f"{m}: {a} / {b} under pz -> -pz")
            continue
        if a[1] != a[1] and b[1] != b[1]:
            continue
        tl = tol if tol is not None else 32 * EPS * (1 + abs(a[1]))
        if not (isfinite(a[1]) and isfinite(b[1]) and abs(a[1] + b[1]) <= tl):
            bad(f"{m}-reflection", f"{m}(pz)={a[1]!r}, {m}(-pz)={b[1]!r}: not odd (tol {tl:.3g})", observed=[a[1], b[1]])
    for m in ("p_abs", "pT_abs", "phi", "mT", "mass_from_energy_momentum", "proper_time", "spacetime_rapidity"):
        if not agree(base[m], refl[m]):
            bad(f"{m}-reflection", f"{m} changed under pz -> -pz: {base[m]} / {refl[m]}", observed=[base[m], refl[m]])
    # -- rotation
    al = rng.choice([rng.uniform(-math.pi, math.pi), math.pi / 2, math.pi, -math.pi / 2, 1e-3, 3.0])
    c, s = math.cos(al), math.sin(al)
    w = dict(v)
    w["px"], w["py"] = v["px"] * c - v["py"] * s, v["px"] * s + v["py"] * c
    w["x"], w["y"] = v["x"] * c - v["y"] * s, v["x"] * s + v["y"] * c
    rot = dict(zip(METHODS, real_all(w, pdg)))
    for m in ("rapidity", "mT", "proper_time", "spacetime_rapidity"):
        if not agree(base[m], rot[m], ) or (base[m][0] == "val" and f2h(base[m][1]) != f2h(rot[m][1]) and base[m][1] == base[m][1]):
            bad(f"{m}-rotation", f"{m} changed under an azimuthal rotation: {base[m]} / {rot[m]}", observed=[base[m], rot[m]])
    for m, tol in (("p_abs", 16 * EPS * p), ("pT_abs", 16 * EPS * pT), ("pseudorapidity", 2 * eta_tol + 64 * EPS)):
        a, b = base[m], rot[m]
        if a[0] != "val" or b[0] != "val" or not (isfinite(a[1]) and isfinite(b[1]) and abs(a[1] - b[1]) <= tol):
            bad(f"{m}-rotation", f"{m} changed under an azimuthal rotation by {al!r}: {a} / {b} (tol {tol:.3g})", observed=[a, b])
    a, b = base["theta"], rot["theta"]
    if a[0] != "val" or b[0] != "val" or not abs(math.cos(a[1]) - math.cos(b[1])) <= 32 * EPS:
        bad("theta-rotation", f"theta changed under an azimuthal rotation: {a} / {b}", observed=[a, b])
    a, b = base["mass_from_energy_momentum"], rot["mass_from_energy_momentum"]
    if a[0] == "val" and b[0] == "val" and isfinite(a[1]) and isfinite(b[1]):
        if abs(a[1] ** 2 - b[1] ** 2) > 64 * EPS * (v["E"] ** 2 + p * p):
            bad("mass-rotation", f"mass changed under an azimuthal rotation: {a} / {b}", observed=[a, b])
    a, b = base["phi"], rot["phi"]
    if a[0] == "val" and b[0] == "val" and isfinite(a[1]) and isfinite(b[1]):
        d = (b[1] - a[1] - al) / (2 * math.pi)
        if abs(d - round(d)) > 64 * EPS:
            bad("phi-rotation", f"phi {a[1]!r} -> {b[1]!r} under rotation by {al!r}: not a shift by the angle mod 2pi", observed=[a[1], b[1], al])
    else:
        bad("phi-rotation", f"phi not finite in the domain: {a} / {b}", observed=[a, b])
    a, b = base["angular_momentum"], rot["angular_momentum"]
    if a[0] == "vec" and b[0] == "vec":
        tolz = 64 * EPS * (abs(v["x"]) + abs(v["y"])) * (abs(v["px"]) + abs(v["py"]))
        if abs(a[1][2] - b[1][2]) > tolz:
            bad("angular_momentum-rotation", f"L_z {a[1][2]!r} -> {b[1][2]!r} under rotation by {al!r}", observed=[a[1], b[1]])
    return out


def gen_domain(rng):
    for _ in range(50):
        v, tag = rng.choice([gen_generic, gen_generic, gen_ultra, gen_boundary])(rng)
        if tag.startswith("boundary") and rng.random() < 0.5:
            # push boundary cases just inside the domain
            pass
        if not isfinite(v["E"]):
            continue
        v["E"] = abs(v["E"])
        if in_domain(v):
            return v, tag
    v, tag = gen_generic(rng)
    v["E"] = math.sqrt(1.0 + v["px"] ** 2 + v["py"] ** 2 + v["pz"] ** 2)
    return v, tag


def shrink(v, pdg, key):
    """make a failing particle easier to read: unset what is irrelevant, round what can be rounded"""
    def fails(w, q):
        try:
            return any(k == key for k, _, _ in check_particle(w, q))
        except Exception:  # noqa: BLE001
            return False
    cur, cp = dict(v), pdg
    if not fails(cur, cp):
        return cur, cp
    if cp is not None and fails(cur, None):
        cp = None
    for k in ATTRS:
        w = dict(cur)
        w[k] = NAN
        if cur.get(k, NAN) == cur.get(k, NAN) and fails(w, cp):
            cur = w
    for k in ATTRS:
        x = cur.get(k, NAN)
        if x != x:
            continue
        for digits in (1, 2, 3, 6):
            w = dict(cur)
            w[k] = float(f"%.{digits}g" % x)
            if w[k] != x and fails(w, cp):
                cur = w
                break
    return cur, cp


def search(ctx, budget_s):
    rng = ctx.rng
    t0 = time.time()
    n = 0
    found = {}
    per_family = {}

    def admit(key):
        """one replay per distinct key, at most 6 keys per family (a broken construction route or copy makes every
        method fail; a handful of concrete inputs says it all)"""
        if key in found:
            return False
        fam = key.split(":")[0] if ":" in key else ("instance-reuse" if key.startswith("instance-reuse") else "plain")
        if fam != "plain" and per_family.get(fam, 0) >= 6:
            found[key] = 1
            return False
        per_family[fam] = per_family.get(fam, 0) + 1
        return True

    def report(items, v, pdg, tag):
        for key, what, detail in items:
            if not admit(key):
                continue
            sv, sp = shrink(v, pdg, key)
            items2 = [it for it in check_particle(sv, sp) if it[0] == key]
            if items2:
                key, what, detail = items2[0]
            found[key] = 1
            ctx.violation(key, what, dict(input=dict(values=detail["values"], pdg=detail["pdg"], category=tag), detail=detail,
                                          how_to_replay="./check C08 --replay <this file>"))

    # corpus first
    for case in corpus():
        if case.get("kind") in ("sequence", "alias", "route"):
            continue
        v = {k: float(x) for k, x in case["values"].items()}
        report(check_particle(v, case.get("pdg")), v, case.get("pdg"), "corpus")
        n += 1
    # all unset subsets (exhaustive per base particle)
    for v, pdg, tag in subsets_cases(rng, ctx.n(1, 6)):
        report(check_particle(v, pdg), v, pdg, tag)
        n += 1
    ctx.count("oracle/unset-subsets", n)
    for v, pdg, tag in sign_grid_cases():  # all sign combinations of (t,z) and (E,pz), exhaustive over a small grid
        report(check_particle(v, pdg), v, pdg, tag)
        ctx.case(("oracle",) + canon(v, pdg), True)
        n += 1
    ctx.count("oracle/sign-grid", len(SIGN_GRID) ** 2)
    # long-lived objects driven through setter / copy / call histories
    seqs = [(c["start"], c["steps"], "corpus") for c in corpus_sequences()]
    seqs += [gen_sequence(rng) + ("random",) for _ in range(ctx.n(250, 6000))]
    nsteps = 0
    for start, steps, tag in seqs:
        nsteps += sum(1 for st in steps if st[0] == "call")
        for i, key, what, detail in judge_sequence(start, steps):
            if not admit(key):
                continue
            found[key] = 1
            st2, sp2 = shrink_sequence(start, steps, key)
            again = [it for it in judge_sequence(st2, sp2) if it[1] == key]
            if again:
                i, key, what, detail = again[0]
            ctx.violation(key, what, dict(input=dict(kind="sequence", start=st2, steps=sp2, category="history/" + tag),
                                          detail=detail, how_to_replay="./check C08 --replay <this file>  (re-runs the history "
                                          "on a new object in a new process)"))
        ctx.case(("oracle-seq", json.dumps([start, steps], sort_keys=True, default=str)), True)
        n += 1
    ctx.count("oracle/histories", len(seqs))
    # aliasing of returned non-scalar objects
    members = discover_nonscalar_members()
    ctx.cov["nonscalar_returning_members"] = members
    acases = [(c["particles"], c["ops"], "corpus") for c in corpus() if c.get("kind") == "alias"]
    if members:
        acases += [gen_alias_case(rng, members) + ("random",) for _ in range(ctx.n(120, 3000))]
    for particles, ops, tag in acases:
        for i, key, what, detail in judge_alias(particles, ops):
            if not admit(key):
                continue
            found[key] = 1
            ps2, os2 = shrink_alias(particles, ops, key)
            again = [it for it in judge_alias(ps2, os2) if it[1] == key]
            if again:
                i, key, what, detail = again[0]
            ctx.violation(key, what, dict(input=dict(kind="alias", particles=ps2, ops=os2, category="aliasing/" + tag),
                                          detail=detail, how_to_replay="./check C08 --replay <this file>"))
        ctx.case(("oracle-alias", json.dumps([particles, ops], sort_keys=True, default=str)), True)
        n += 1
    ctx.count("oracle/aliasing-call-sequences", len(acases))
    # construction routes: array-like constructor rows, copies of rows and of particles, one-shot iterators, hostile
    # process environment (cwd, numpy error state / print options, global random states)
    stat = {}
    vgens = [gen_generic] * 3 + [gen_signs] * 2 + [gen_boundary, gen_ultra]
    for i in range(ctx.n(500, 15000)):
        v, tag = rng.choice(vgens)(rng)
        for k in rng.sample(ATTRS, rng.choice([0, 0, 1, 2, 4])):
            v[k] = NAN
        pdg = rng.choice(PDG_CHOICES)
        route = gen_route(rng, one_shot=(i % 12 == 0))
        env = (i % 4 == 0)
        status, items, ev, epdg, _res = judge_route(v, pdg, route, i, env)
        stat_key = f"{status}/{route.get('fmt')}/{route.get('rep')}"
        stat[stat_key] = stat.get(stat_key, 0) + 1
        ctx.case(("oracle-route", json.dumps([v, pdg, route, env], sort_keys=True, default=str)), status == "ok")
        n += 1
        for key, what, detail in items:
            if not admit(key):
                continue
            found[key] = 1
            v2, route2, env2 = shrink_route(v, pdg, route, i, env, key)
            again = [it for it in judge_route(v2, pdg, route2, i, env2)[1] if it[0] == key]
            if again:
                key, what, detail = again[0]
            ctx.violation(key, what, dict(input=dict(kind="route", values=v2, pdg=pdg, route=route2, salt=i, env=env2,
                                                     category="route/" + tag),
                                          detail=detail, how_to_replay="./check C08 --replay <this file>"))
    ctx.cov["route_outcomes"] = dict(sorted(stat.items()))
    ctx.count("oracle/routes", sum(stat.values()))
    ctx.count("oracle/history-call-steps", nsteps)
    limit = ctx.n(3000, 200000)
    gens = [gen_generic] * 3 + [gen_ultra] * 2 + [gen_boundary] * 4 + [gen_negE] + [gen_signs] * 3
    negE_finite = 0
    while time.time() - t0 < budget_s and n < limit:
        v, tag = rng.choice(gens)(rng)
        pdg = gen_pdg(rng)
        res = dict(zip(METHODS, real_all(v, pdg)))
        report(check_particle(v, pdg, res), v, pdg, tag)
        ctx.case(("oracle",) + canon(v, pdg), True)
        n += 1
        if v["E"] < 0 and res["rapidity"][0] == "val" and isfinite(res["rapidity"][1]):
            negE_finite += 1
        if n % 3 == 0:
            w, tg = gen_domain(rng)
            if in_domain(w):
                for key, what, detail in check_symmetry(w, 211, rng):
                    if key not in found:
                        found[key] = 1
                        ctx.violation(key, what, dict(input=dict(values=detail["values"], pdg=211, category="symmetry/" + tg),
                                                      detail=detail, how_to_replay="./check C08 --replay <this file>"))
                ctx.count("oracle/symmetry")
                n += 1
    ctx.cov["oracle_cases"] = n
    ctx.count("oracle/particles", n)
    # ---- monitor of the adjudicated point (not a violation): rapidity for negative energies
    r = call(make_particle(dict(E=-2.0, pz=1.0), None), "rapidity")
    ok, _log = common.lake_build([MONITOR], timeout=600)
    ctx.cov["monitor_negative_energy"] = dict(
        real_code_rapidity_E_minus2_pz_1=r, oracle_cases_with_finite_rapidity_for_negative_E=negE_finite,
        lean_monitor_module=MONITOR, lean_monitor_builds=ok,
        reading="E<0 is outside 'finite four-momenta'; the code returns artanh(pz/E) there (docstring formula); "
                "literal clause |pz|>E => NaN is proved false of the model for E=-2,pz=1 in the monitor module")
    if r[0] == "val" and isfinite(r[1]) and not ok:
        ctx.notes.append("monitor module Props/C08/NegE.lean no longer builds although rapidity(E=-2,pz=1) is still finite")
    if not (r[0] == "val" and isfinite(r[1])):
        ctx.notes.append(f"rapidity(E=-2,pz=1) is now {r}: the literal unphysical clause may hold; monitor module expected to fail")


def corpus():
    p = common.VERIF / "harness/corpus/C08"
    out = []
    if p.exists():
        for f in sorted(p.glob("*.json")):
            out.append(json.loads(f.read_text()))
    return out


def replay_sequence(ctx, path, inp):
    start, steps = inp["start"], inp["steps"]
    print(f"[C08] history on one Particle object: start={start}")
    for i, st in enumerate(steps):
        print(f"[C08]   step {i}: {st}")
    for i, cur, pdg, got in exec_sequence(start, steps):
        fresh = dict(zip(METHODS, real_all(cur, pdg)))
        print(f"[C08] step {i}: object with history -> {got}")
        print(f"[C08] step {i}: fresh object        -> { {m: fresh[m] for m in got} }   (values {cur}, pdg {pdg})")
    items = judge_sequence(start, steps)
    if items:
        print(f"VIOLATION property=C08 replay={path}")
        for i, key, what, _ in items:
            print(f"  [{key}] step {i}: {what}")
        return 1
    print("[C08] replay: property holds along this history now")
    return 0


def replay(ctx, path):
    d = json.loads(open(path).read())
    inp = d.get("input")
    if not inp:
        print(f"[C08] replay file names a broken obligation, not an input: {d.get('broken')}")
        return 1
    if inp.get("kind") == "sequence":
        return replay_sequence(ctx, path, inp)
    if inp.get("kind") == "route":
        v = {k: float(x) for k, x in inp["values"].items()}
        status, items, ev, epdg, res = judge_route(v, inp.get("pdg"), inp["route"], inp.get("salt", 0), inp.get("env", False))
        print(f"[C08] route {inp['route']} env={inp.get('env', False)} values {v} pdg {inp.get('pdg')}")
        print(f"[C08] outcome {status}; attribute values the particle must have: {ev}; results: {res}")
        if items:
            print(f"VIOLATION property=C08 replay={path}")
            for key, what, _ in items:
                print(f"  [{key}] {what}")
            return 1
        print("[C08] replay: property holds for this construction route now")
        return 0
    if inp.get("kind") == "alias":
        print(f"[C08] non-scalar returning members on this tree: {discover_nonscalar_members()}")
        for j, q in enumerate(inp["particles"]):
            print(f"[C08]   particle {j}: {q}")
        for i, op in enumerate(inp["ops"]):
            print(f"[C08]   op {i}: {op}")
        items = judge_alias(inp["particles"], inp["ops"])
        if items:
            print(f"VIOLATION property=C08 replay={path}")
            for i, key, what, _ in items:
                print(f"  [{key}] op {i}: {what}")
            return 1
        print("[C08] replay: returned objects are independent along this call sequence now")
        return 0
    v = {k: float(x) for k, x in inp["values"].items()}
    pdg = inp.get("pdg")
    items = check_particle(v, pdg)
    if in_domain(v):
        import random
        items += check_symmetry(v, pdg if pdg is not None else 211, random.Random(0))
    try:  # model of the tree under test
        translate(ctx)
        common.lake_build(["SparkxVerif.Drv.C08"], timeout=600)
        out = common.run_driver("C08", [enc(v, pdg)])[0]
    except Exception as e:  # noqa: BLE001
        out = f"(driver unavailable: {type(e).__name__}: {e})"
    print(f"[C08] real code: {dict(zip(METHODS, real_all(v, pdg)))}")
    print(f"[C08] model    : {out}")
    if items:
        print(f"VIOLATION property=C08 replay={path}")
        for key, what, _ in items:
            print(f"  [{key}] {what}")
        return 1
    print("[C08] replay: property holds on this input now")
    return 0
