"""C06 — written files read back to the same data; re-writing is a fixpoint.

Tie T: harness/translate/writer.py regenerates Gen/WriterTables.lean (format strings, format_map, column orders,
event-number rule, end-line rule, header pieces) from the tree under test.
Tie C: random (file, events=, filters=, filter-method history) scenarios; the real object is written, read back with
the real class and written again; the same scenario goes to the Lean driver (reader model R + writer model W); the
bytes of both files, the state of the object before writing and of the object read back, and the fixpoint are
compared.  The driver also checks, on the bytes of every written file, the observation hypotheses of the theorems.
Oracle: independent check of the property on the real code (values from the held Particle objects, origins of the
held events tracked with the reference filter semantics of pmodel).
"""
import atexit
import copy
import json
import math
import os
import pickle
import random as pyrandom
import shutil
import tempfile
import time
import warnings
from decimal import Decimal
from fractions import Fraction

import numpy as np

import common
import pmodel
import rmodel
from common import f2h
from translate import writer as wtr

warnings.filterwarnings("ignore")
np.seterr(all="ignore")

CORPUS = common.VERIF / "harness/corpus/C06"
NOT_IMPL = {"oscar": {"particle_status", "keep_quarks"},
            "jetscape": {"participants", "spectators", "spacetime_cut", "spacetime_rapidity_cut"}}
EVCUTS = ("multiplicity_cut", "lower_event_energy_cut")
WERR = [(KeyError, "key"), (IndexError, "index"), (ValueError, "value"), (TypeError, "type")]
_TMP = None


def tmpdir():
    global _TMP
    if _TMP is None:
        _TMP = tempfile.mkdtemp(prefix="verif_C06_")
        atexit.register(lambda: shutil.rmtree(_TMP, ignore_errors=True))
        os.environ["VERIF_TMP"] = _TMP
    return _TMP


# ----------------------------------------------------------------------------- translator (tie T)
def translate(ctx):
    text, regions = wtr.render(common.read_src("Oscar.py"), common.read_src("Jetscape.py"),
                               common.read_src("Particle.py"), common.read_src("loader/OscarLoader.py"))
    changed = common.write_if_changed(common.LEAN / "SparkxVerif/Gen/WriterTables.lean", text)
    golden = common.LEAN / "golden/Gen/WriterTables.lean"
    ctx.cov["gen_equals_golden"] = golden.exists() and golden.read_text() == text
    if changed:
        ctx.notes.append("Gen/WriterTables.lean regenerated (source differs from last run)")
    return regions


# ----------------------------------------------------------------------------- scenarios
def enc_arg(a):
    if a is None:
        return {"t": "none"}
    if isinstance(a, OneShot):
        return {"t": "oneshot", "kind": a.kind, "v": a.values}
    if isinstance(a, np.ndarray):
        return {"t": "ndarray", "v": [int(x) for x in a]}
    if isinstance(a, tuple):
        return {"t": "tuple", "v": [enc_arg(x) for x in a]}
    if isinstance(a, list):
        return {"t": "list", "v": [enc_arg(x) for x in a]}
    if isinstance(a, (int, np.integer)) and not isinstance(a, bool):
        return {"t": "int", "v": int(a)}
    if isinstance(a, float):
        return {"t": "float", "v": f2h(a)}
    return {"t": "str", "v": str(a)}


def dec_arg(d):
    t = d["t"]
    if t == "none":
        return None
    if t == "oneshot":
        return OneShot(d["kind"], d["v"])
    if t == "ndarray":
        return np.array(d["v"])
    if t == "tuple":
        return tuple(dec_arg(x) for x in d["v"])
    if t == "list":
        return [dec_arg(x) for x in d["v"]]
    if t == "int":
        return int(d["v"])
    if t == "float":
        return common.h2f(d["v"])
    return d["v"]


def enc_calls(calls):
    return None if calls is None else [[n, [enc_arg(a) for a in args]] for n, args in calls]


def dec_calls(js):
    return None if js is None else [(n, tuple(dec_arg(a) for a in args)) for n, args in js]


class Spec6(rmodel.FileSpec):
    """FileSpec whose file-level text varies from file to file (third Oscar header line, JETSCAPE version tag), so that
    anything remembered from an earlier file under the same path shows; text devices: CRLF line ends, non-ASCII
    characters in the free-text parts (units line, version line, end-line tail, JETSCAPE first line), trailing blanks
    on lines whose text is free (never on particle or end lines: the clean loaders reject those)"""
    version = "SMASH-3.1"
    jver = "v2"
    crlf = False
    nonascii = False
    trail = False

    def lines(self):
        L = super().lines()
        if self.is_jetscape():
            L[0] = L[0].replace("\tv2\t", "\t" + self.jver + "\t")
            if self.nonascii:
                L[0] += " é—µ"
            if self.trail:
                L[0] += "  "
                L[-1] += " \t "
        else:
            L[2] = "# " + self.version
            if self.nonascii:
                L[1] += " µm Größe —"
                L[2] += " ü"
                L = [l.replace("scattering_projectile_target", "streuung_projektil_zïel") if " end " in l else l for l in L]
            if self.trail:
                L[1] += " "
                L[2] += "  "
        return L

    def text(self):
        nl = "\r\n" if self.crlf else "\n"
        return nl.join(self.lines()) + (nl if self.trailing_nl else "")

    def model_text(self):
        """what Python's text layer (universal newlines) delivers to the loaders: the model reads this"""
        return "\n".join(self.lines()) + ("\n" if self.trailing_nl else "")

    def clone(self, events=None, impacts=None):
        c = Spec6(self.kind, list(self.cols), self.events if events is None else events, labels=None,
                  impacts=list(self.impacts) if impacts is None else impacts, tab_headers=self.tab_headers,
                  trailing_nl=self.trailing_nl, sigma=tuple(self.sigma))
        for a in ("version", "jver", "crlf", "nonascii", "trail"):
            setattr(c, a, getattr(self, a))
        return c


VERSIONS = ["SMASH-3.1", "SMASH-3.1rc-23-g59a05e65f", "SMASH-3.2", "SMASH-2.0.2-7", "SMASH-3.1-220-ge0fbc0856"]
JVERS = ["v2", "v2", "v3", "v2.1"]
SIGMAS = [("0.000314633", "6.06164e-07"), ("0.00271828", "3.5e-06"), ("1.25", "0.015625"), ("42", "0.5"),
          ("7.5e-05", "1e-09")]


def as_spec6(spec, version=None, jver=None):
    spec.__class__ = Spec6
    if version is not None:
        spec.version = version
    if jver is not None:
        spec.jver = jver
    return spec


COPY_MODES = ("copy", "deepcopy", "pickle")


def variant(obj, mode):
    """the object, or a copy of it made the way `mode` says: everything observable must be the same"""
    if mode == "copy":
        return copy.copy(obj)
    if mode == "deepcopy":
        return copy.deepcopy(obj)
    if mode == "pickle":
        return pickle.loads(pickle.dumps(obj))
    return obj


class OneShot:
    """an argument handed over as a one-shot iterable (generator / iter(list) / map); `values` is what it yields"""

    def __init__(self, kind, values):
        self.kind, self.values = kind, [int(v) for v in values]

    def make(self):
        if self.kind == "gen":
            return (v for v in self.values)
        if self.kind == "iter":
            return iter(self.values)
        if self.kind == "map":
            return map(int, self.values)
        return np.array(self.values, dtype=object)


def real_args(args):
    return tuple(a.make() if isinstance(a, OneShot) else a for a in args)


def ref_args(args):
    return tuple(list(a.values) if isinstance(a, OneShot) else a for a in args)


class Scenario:
    """dev = devices that must not change anything observable:
       copies: {'load'|'write'|'reread': 'copy'|'deepcopy'|'pickle'} — the object is replaced by such a copy after loading
               / before writing / after reading back;
       env: True — every call runs with cwd = the directory of the files and BARE relative file names, non-default numpy
            print options, np.seterr(all='warn'), advanced `random` / `np.random` global states"""

    def __init__(self, spec, events=None, ctor=None, ops=(), dev=None):
        self.spec, self.events, self.ctor, self.ops = spec, events, ctor, list(ops)
        self.dev = dict(dev or {})

    def replace(self, **kw):
        d = dict(spec=self.spec, events=self.events, ctor=self.ctor, ops=self.ops, dev=self.dev)
        d.update(kw)
        return Scenario(**d)

    def devices(self):
        """names of the active devices (text devices live in the spec)"""
        out = [k for k in ("copies", "env") if self.dev.get(k)]
        out += [a for a in ("crlf", "nonascii", "trail") if getattr(self.spec, a, False)]
        if any(isinstance(a, OneShot) for _, args in (self.ops or []) for a in args):
            out.append("iterators")
        return out

    def without(self, name):
        if name in ("copies", "env"):
            return self.replace(dev={k: v for k, v in self.dev.items() if k != name})
        if name == "iterators":
            return self.replace(ops=[(n, ref_args(a)) for n, a in self.ops])
        sp = self.spec.clone()
        setattr(sp, name, False)
        return self.replace(spec=sp)

    def plain(self):
        c = self
        for n in self.devices():
            c = c.without(n)
        return c

    @property
    def cls(self):
        return "jetscape" if self.spec.is_jetscape() else "oscar"

    def to_json(self):
        s = self.spec
        return dict(spec=dict(kind=s.kind, cols=list(s.cols), events=s.events, labels=s.labels, impacts=s.impacts,
                              tab_headers=s.tab_headers, trailing_nl=s.trailing_nl, sigma=list(s.sigma),
                              version=getattr(s, "version", "SMASH-3.1"), jver=getattr(s, "jver", "v2"),
                              crlf=getattr(s, "crlf", False), nonascii=getattr(s, "nonascii", False),
                              trail=getattr(s, "trail", False)),
                    events=list(self.events) if isinstance(self.events, tuple) else self.events,
                    events_is_tuple=isinstance(self.events, tuple), ctor=enc_calls(self.ctor), ops=enc_calls(self.ops),
                    dev=self.dev)

    @staticmethod
    def from_json(d):
        s = d["spec"]
        spec = Spec6(s["kind"], s["cols"], s["events"], labels=s["labels"], impacts=s["impacts"],
                     tab_headers=s["tab_headers"], trailing_nl=s["trailing_nl"], sigma=tuple(s["sigma"]))
        spec.version, spec.jver = s.get("version", "SMASH-3.1"), s.get("jver", "v2")
        spec.crlf, spec.nonascii, spec.trail = s.get("crlf", False), s.get("nonascii", False), s.get("trail", False)
        ev = tuple(d["events"]) if d.get("events_is_tuple") else d["events"]
        return Scenario(spec, ev, dec_calls(d["ctor"]), dec_calls(d["ops"]) or [], d.get("dev"))

    def describe(self):
        out = dict(kind=self.spec.kind, sizes=[len(e) for e in self.spec.events], events=self.events,
                   ctor=None if self.ctor is None else [n for n, _ in self.ctor], ops=[n for n, _ in self.ops])
        if self.devices():
            out["devices"] = {n: (self.dev.get(n, True)) for n in self.devices()}
        return out


TEXT_OK = {}      # filled by the probe of the tree under test (is UTF-8 text accepted at all?)
ITER_OK = []      # one-shot iterable kinds the tree under test accepts as a filter argument (probe)

LONG_TOKENS = ["0.123456789012", "123456.789", "9.87654321e-05", "-3.14159265358979", "1234567.5", "0.1", "1e-07",
               "99999.95", "0.000123456789", "2.50000001", "1e+22", "5e-324", "-0.0"]


def gen_spec(rng):
    r = rng.random()
    kinds = None
    if r < 0.1:
        kinds = ["ascii"]
    spec = rmodel.gen_spec(rng, kinds=kinds)
    if spec.kind == "extended" and len(spec.cols) == 22 and rng.random() < 0.25:
        spec.cols = rmodel.EXT_COLS[:21]
        spec.events = [[row[:21] for row in ev] for ev in spec.events]
    if spec.kind == "extended" and rng.random() < 0.3 and len(spec.events) > 1:
        spec.events[0] = []          # empty first event (format widening)
    # numbers that need rounding in %g / %.9g (never in the first column, which identifies the line)
    for ev in spec.events:
        for row in ev:
            for j, c in enumerate(spec.cols):
                if j > 0 and c not in rmodel.INT_COLS and rng.random() < 0.15:
                    row[j] = rng.choice(LONG_TOKENS)
    if not spec.is_jetscape() and rng.random() < 0.15:
        spec.trailing_nl = False
    # file-level text differs from file to file: header version, trailer (sigmaGen), impact parameters
    as_spec6(spec, rng.choice(VERSIONS), rng.choice(JVERS))
    spec.sigma = rng.choice(SIGMAS)
    off = rng.choice([0.0, 0.0, 0.125, 0.25, 3.0, 7.5])
    n = len(spec.events)
    r = rng.random()
    if r < 0.3:
        # plain integers that coincide with event numbers of this file (same literal form as the labels)
        vals = list(range(n)) if rng.random() < 0.5 else rng.sample(range(n + 1), n)
        spec.impacts = [str(v) for v in vals]
    elif r < 0.4:
        spec.impacts = ["%.3e" % (off + 0.5 * i + 1) for i in range(n)]
    else:
        spec.impacts = ["%.3f" % (off + 0.5 * i) for i in range(n)]
    if rng.random() < 0.12:
        spec.crlf = True
    if TEXT_OK.get("nonascii", True) and rng.random() < 0.12:
        spec.nonascii = True
    if rng.random() < 0.12:
        spec.trail = True
    return spec


def admissible_names(spec, cls):
    names = [n for n in pmodel.ALL_FILTERS if n not in NOT_IMPL[cls]]
    cols = set(spec.cols)
    if spec.kind == "ascii":
        if "pdg" not in cols:
            names = [n for n in names if n not in pmodel.NEEDS_PDG]
    return names


def gen_calls(rng, spec, cls, k, bias_evcut=0.35):
    names = admissible_names(spec, cls)
    out = []
    for _ in range(k):
        if rng.random() < bias_evcut:
            out.append(pmodel.gen_call(rng, list(EVCUTS)))
        else:
            out.append(pmodel.gen_call(rng, names))
    return out


def sibling_spec(rng, spec):
    """another file of the same family as `spec`: same kind, columns and file-level header lines (so that a writer that
    copies its header from a source path overwritten with this file still copies the same lines); different events,
    particles, trailer and impact parameters"""
    events, uid = [], 1
    for _ in range(rng.randint(1, 4)):
        ev = []
        for _ in range(0 if rng.random() < 0.2 else rng.randint(1, 4)):
            ev.append(rmodel.gen_row(rng, spec.cols, uid))
            uid += 1
        events.append(ev)
    sib = Spec6(spec.kind, list(spec.cols), events, tab_headers=spec.tab_headers)
    sib.version, sib.jver = getattr(spec, "version", "SMASH-3.1"), getattr(spec, "jver", "v2")
    sib.nonascii, sib.trail, sib.crlf = (getattr(spec, a, False) for a in ("nonascii", "trail", "crlf"))
    sib.sigma = rng.choice([x for x in SIGMAS if x != tuple(spec.sigma)])
    off = rng.choice([0.375, 1.125, 4.0])
    sib.impacts = ["%.3f" % (off + 0.5 * i) for i in range(len(events))]
    return sib


def gen_scenario(rng, spec=None):
    spec = gen_spec(rng) if spec is None else spec
    cls = "jetscape" if spec.is_jetscape() else "oscar"
    nev = len(spec.events)
    r = rng.random()
    events = None
    if r < 0.25:
        events = rng.randrange(nev)
    elif r < 0.5:
        a = rng.randrange(nev)
        events = (a, rng.randrange(a, nev))
    ctor = None
    if rng.random() < 0.2:
        ctor = gen_calls(rng, spec, cls, rng.choice([1, 1, 2]), bias_evcut=0.3)
        if len({n for n, _ in ctor}) != len(ctor):
            ctor = ctor[:1]
    nops = rng.choice([0, 0, 1, 1, 2, 3])
    ops = gen_calls(rng, spec, cls, nops)
    if ITER_OK:
        ops = [(n, (OneShot(rng.choice(ITER_OK), a[0]),)) if (n in pmodel.SPECIES or n == "particle_status")
               and isinstance(a[0], (list, tuple, np.ndarray)) and rng.random() < 0.5 else (n, a) for n, a in ops]
    dev = {}
    if rng.random() < 0.3:
        dev["copies"] = {k: rng.choice(COPY_MODES) for k in ("load", "write", "reread") if rng.random() < 0.6} or \
            {"write": rng.choice(COPY_MODES)}
    if rng.random() < 0.25:
        dev["env"] = True
    return Scenario(spec, events, ctor, ops, dev)


# ----------------------------------------------------------------------------- reference semantics of the filters
def ev_keep(name, args, ev):
    if name == "multiplicity_cut":
        t = args[0]
        lo = -math.inf if t[0] is None else t[0]
        hi = math.inf if t[1] is None else t[1]
        lo, hi = min(lo, hi), max(lo, hi)
        return lo <= len(ev) < hi
    thr = args[0]
    return math.fsum(float(p.E) for p in ev if float(p.E) == float(p.E)) >= thr


def ref_event_chain(calls, ev):
    """constructor filters on one event: survivors (list of particles)"""
    cur = list(ev)
    for name, args in calls:
        cur = pmodel.ref_filter(name, args, [cur])[0]
    return cur


# ----------------------------------------------------------------------------- running the real code
class Skip(Exception):
    pass


def key_of(spec, p):
    return rmodel.first_col_key(spec, p)


def key2line(spec):
    k2l = {}
    for ev, lns in zip(spec.events, spec.particle_line_numbers()):
        for row, ln in zip(ev, lns):
            k2l[float(row[0])] = ln
    return k2l


def impact_index(spec):
    return {float(b): i for i, b in enumerate(spec.impacts)}


def open_obj(spec, path, **kw):
    from sparkx.Oscar import Oscar
    from sparkx.Jetscape import Jetscape
    if spec.is_jetscape():
        if spec.kind == "jetscapeP":
            kw = dict(kw, particletype="parton")
        return Jetscape(path, **kw)
    return Oscar(path, **kw)


def maps_of_text(text, sep_tab):
    """first-column key -> line number and impact parameter -> end-line number, from the text of a file"""
    k2l, ii, nfoot = {}, {}, 0
    for n, line in enumerate(text.split("\n")):
        if not line:
            continue
        if line.startswith("#"):
            if " end " in line:
                ii.setdefault(float(line.split()[-3]), nfoot)
                nfoot += 1
            continue
        k2l[float(line.split(" ")[0])] = n
    return k2l, ii


def state_str(spec, obj, k2l, with_fmt=False, ii=None):
    evs = obj.particle_objects_list()
    ev_s = "|".join("." if not ev else ",".join(str(k2l.get(key_of(spec, p), -1)) for p in ev) for ev in evs)
    s = f"ne={obj.num_events()} counts={rmodel.counts_repr(obj.num_output_per_event())} ev={ev_s}"
    if spec.is_jetscape():
        return s + " last=" + obj.last_line_.encode().hex()
    ii = impact_index(spec) if ii is None else ii
    org = getattr(obj, "event_origin_", None)
    s += " origin=" + ("" if org is None else ",".join(str(int(x)) for x in org))
    s += " imp=" + ",".join(str(ii.get(float(b), -1)) for b in obj.impact_parameters())
    if with_fmt:
        s += f" fmt={obj.oscar_format()} attrs={','.join(obj.custom_attr_list)}"
    return s


def werr(e):
    for k, v in WERR:
        if isinstance(e, k):
            return v
    return "other-" + type(e).__name__


def write_file(text):
    fd, path = tempfile.mkstemp(suffix=".tmp", dir=tmpdir())
    with os.fdopen(fd, "w", newline="") as f:
        f.write(text)
    return path


class EnvGuard:
    """runs one call of the code under test; afterwards cwd, np.geterr() and the global states of `random` and
    `np.random` must be what they were at the call.  `active`: the call runs in `cwd` (bare relative file names), with
    non-default numpy print options, np.seterr(all='warn') and advanced global random states."""

    def __init__(self, active, cwd):
        self.active, self.cwd, self.changed = active, cwd, []

    def __enter__(self):
        self.saved = (os.getcwd(), pyrandom.getstate(), np.random.get_state(), np.geterr(), np.get_printoptions())
        if self.active:
            os.chdir(self.cwd)
            np.set_printoptions(precision=2, threshold=3, edgeitems=1, linewidth=30, suppress=True, sign="+")
            np.seterr(all="warn")
            pyrandom.seed(12345)
            pyrandom.random()
            np.random.seed(54321)
            np.random.random(3)
        self.at_call = (os.getcwd(), pyrandom.getstate(), np.random.get_state(), np.geterr())
        return self

    def __exit__(self, *exc):
        now = (os.getcwd(), pyrandom.getstate(), np.random.get_state(), np.geterr())
        names = ("cwd", "random state", "np.random state", "np.geterr()")
        for nm, a, b in zip(names, self.at_call, now):
            same = a == b if nm != "np.random state" else (a[0] == b[0] and np.array_equal(a[1], b[1]) and a[2:] == b[2:])
            if not same:
                self.changed.append(nm)
        os.chdir(self.saved[0])
        pyrandom.setstate(self.saved[1])
        np.random.set_state(self.saved[2])
        np.seterr(**self.saved[3])
        np.set_printoptions(**self.saved[4])
        return False


class RealRun:
    """everything observed of the real code on one scenario"""

    def __init__(self, sc, paths=None):
        """paths = (input, written, re-written) when the caller decides where the files live (sessions re-use paths);
        the input file is (over)written by `load()`"""
        self.sc = sc
        spec = sc.spec
        self.k2l = key2line(spec)
        self.own_paths = paths is None
        if paths is None:
            d = tmpdir()
            fd, self.path = tempfile.mkstemp(suffix=spec.suffix(), prefix="in_", dir=d)
            os.close(fd)
            self.out1 = self.path + ".w1" + spec.suffix()
            self.out2 = self.path + ".w2" + spec.suffix()
        else:
            self.path, self.out1, self.out2 = paths[:3]
        # output path aliasing: when the written file goes over a source path, the same object is first written to
        # this fresh path; the two files must be byte-identical
        self.ref = paths[3] if paths is not None and len(paths) > 3 else None
        self.w_ref = None
        self.skipped = None
        # devices
        self.copies = sc.dev.get("copies") or {}
        self.env = bool(sc.dev.get("env"))
        self.env_changed = []
        self.abs_paths = [x for x in (self.path, self.out1, self.out2, self.ref) if x]
        self.cwd = os.path.dirname(self.path)
        if self.env:
            # bare relative names; only paths that live in the directory we chdir into
            if all(os.path.dirname(x) == self.cwd for x in self.abs_paths):
                self.path, self.out1, self.out2 = (os.path.basename(x) for x in (self.path, self.out1, self.out2))
                self.ref = os.path.basename(self.ref) if self.ref else None
            else:
                self.env = False

        self.keep = None          # line numbers kept by the constructor filters (reference semantics)
        self.dops = []            # driver encoding of the method history
        self.origins = None       # ghost: file index of every held event ([] = placeholder)
        self.removed_by_ctor = self.removed_by_cut = False
        self.placeholder = False
        self.ctor_removed_all = False
        self.state = self.w = self.rr = self.w2 = None
        self.obj = self.obj2 = None

    def act(self, name):
        """one action (load / run_ops / do_write / do_reread / do_rewrite) under the environment guard"""
        g = EnvGuard(self.env, self.cwd)
        try:
            with g:
                getattr(self, name)()
        finally:
            for c in g.changed:
                self.env_changed.append(f"{c} (during {name})")

    def cleanup(self):
        if not self.own_paths:
            return
        for p in self.abs_paths:
            if os.path.exists(p):
                os.unlink(p)

    def load(self):
        sc, spec = self.sc, self.sc.spec
        with open(self.path, "w", newline="", encoding="utf-8") as f:
            f.write(spec.text())
        kw = {}
        if sc.events is not None:
            kw["events"] = sc.events
        nev = len(spec.events)
        a, b = (0, nev - 1) if sc.events is None else (sc.events if isinstance(sc.events, tuple) else (sc.events, sc.events))
        origins = list(range(a, b + 1))
        if sc.ctor is not None:
            kw["filters"] = rmodel.filters_dict(sc.ctor)
            ref = open_obj(spec, self.path)
            keep, org = [], []
            for i in origins:
                ev = ref.particle_objects_list()[i]
                sur = ref_event_chain(sc.ctor, ev)
                keep += [self.k2l[key_of(spec, p)] for p in sur]
                if sur or not ev:
                    org.append(i)
                else:
                    self.removed_by_ctor = True
            self.keep = keep
            origins = org
            if not origins:
                self.ctor_removed_all = True
        self.origins = origins
        self.obj = variant(open_obj(spec, self.path, **kw), self.copies.get("load"))

    def run_ops(self):
        sc, spec, obj = self.sc, self.sc.spec, self.obj
        for name, args in sc.ops:
            evs = obj.particle_objects_list()
            if name in EVCUTS:
                bits = [ev_keep(name, args, ev) for ev in evs]
                self.dops.append("e:" + "".join("1" if x else "0" for x in bits))
                if not self.placeholder and not self.ctor_removed_all:
                    new = [o for o, k in zip(self.origins, bits) if k]
                    if len(new) != len(self.origins):
                        self.removed_by_cut = True
                    self.origins = new
                    if not new:
                        self.placeholder = True
            else:
                want = pmodel.ref_filter(name, ref_args(args), evs)
                self.dops.append("p:" + ",".join(str(self.k2l[key_of(spec, p)]) for ev in want for p in ev))
            getattr(obj, name)(*real_args(args))

    def do_write(self):
        self.obj = variant(self.obj, self.copies.get("write"))
        spec, obj = self.sc.spec, self.obj
        self.state = state_str(spec, obj, self.k2l)
        if self.ref is not None:
            try:
                obj.print_particle_lists_to_file(self.ref)
                with open(self.ref, newline="", encoding="utf-8") as f:
                    self.w_ref = f.read()
            except Exception as e:
                self.w_ref = e
        if os.path.exists(self.out1) and self.out1 != self.path and self.ref is None:
            os.unlink(self.out1)         # a writer that raises must not leave the previous file of this path behind
        try:
            obj.print_particle_lists_to_file(self.out1)
        except Exception as e:
            self.w = e
            return
        with open(self.out1, newline="", encoding="utf-8") as f:
            self.w = f.read()

    def do_reread(self):
        if self.w is None or isinstance(self.w, Exception):
            return
        spec = self.sc.spec
        try:
            self.obj2 = variant(open_obj(spec, self.out1), self.copies.get("reread"))
        except Exception as e:
            self.rr = e
            return
        k2l2, ii2 = maps_of_text(self.w, False)
        self.rr = state_str(spec, self.obj2, k2l2, with_fmt=True, ii=ii2)

    def do_rewrite(self):
        if self.obj2 is None:
            return
        try:
            self.obj2.print_particle_lists_to_file(self.out2)
            with open(self.out2, newline="", encoding="utf-8") as f:
                self.w2 = f.read()
        except Exception as e:
            self.w2 = e

    def write_cycle(self):
        self.act("do_write")
        self.act("do_reread")
        self.act("do_rewrite")

    def answer(self):
        """the driver's answer format"""
        st = "st=" + self.state
        if isinstance(self.w, Exception):
            return f"ok\t{st}\tw=err:{werr(self.w)}\trr=-\tw2=-"
        w = "w=" + self.w.encode().hex()
        if isinstance(self.rr, Exception):
            return f"ok\t{st}\t{w}\trr=err:read-{rmodel.classify(self.rr)[4:]}\tw2=-"
        if isinstance(self.w2, Exception):
            w2 = "err:" + werr(self.w2)
        else:
            w2 = "same" if self.w2 == self.w else self.w2.encode().hex()
        return f"ok\t{st}\t{w}\trr={self.rr}\tw2={w2}"


def real_run(sc):
    r = RealRun(sc)
    try:
        r.act("load")
    except Exception as e:
        r.cleanup()
        raise Skip(f"load raised {type(e).__name__}")
    try:
        r.act("run_ops")
    except Skip:
        r.cleanup()
        raise
    except Exception as e:
        r.cleanup()
        raise Skip(f"filter raised {type(e).__name__}: {e}")
    r.write_cycle()
    return r


# ----------------------------------------------------------------------------- sessions: several objects, re-used paths
class Session:
    """A sequence of round trips in ONE process.  `steps[i] = (scenario, (in, out, out2))` with symbolic path slots
    (`dat3`, `oscar1`, …: the same slot = the same path on disk); `actions` = the order of `load` (write the input
    file, open it, run the filter history), `write`, `reread`, `rewrite` of the steps.  About half of the slots are
    re-used by later steps with DIFFERENT content (an output path written, read, overwritten and read again; an input
    path whose content changed; a path used by an Oscar and later by a Jetscape object), and the round trips of the
    objects of a group are interleaved.  Anything remembered per path / per class from an earlier file therefore
    shows as a difference of the later round trip."""

    def __init__(self, steps=None, actions=None):
        self.steps = steps or []
        self.actions = actions or []

    def to_json(self):
        return dict(steps=[dict(scenario=sc.to_json(), slots=list(sl)) for sc, sl in self.steps],
                    actions=[[k, i] for k, i in self.actions])

    @staticmethod
    def from_json(d):
        return Session([(Scenario.from_json(x["scenario"]), tuple(x["slots"])) for x in d["steps"]],
                       [(k, i) for k, i in d["actions"]])

    def without(self, drop):
        """the session without the steps in `drop`"""
        keep = [i for i in range(len(self.steps)) if i not in drop]
        ren = {old: new for new, old in enumerate(keep)}
        return Session([self.steps[i] for i in keep], [(k, ren[i]) for k, i in self.actions if i in ren]), ren

    def describe(self):
        return [dict(step=i, slots=list(sl), **sc.describe()) for i, (sc, sl) in enumerate(self.steps)]


def slot_suffix(slot):
    return ".dat" if slot.startswith("dat") else ".oscar"


class SessionBuilder:
    def __init__(self, rng, reuse=0.5, pool_size=3):
        self.rng, self.reuse, self.pool_size = rng, reuse, pool_size
        self.pool = {".dat": [], ".oscar": []}
        self.n = 0
        self.session = Session()

    def pick(self, suffix, forbidden):
        rng = self.rng
        cand = [p for p in self.pool[suffix] if p not in forbidden]
        if cand and rng.random() < self.reuse:
            return rng.choice(cand)
        self.n += 1
        slot = f"{suffix[1:]}{self.n}"
        if len(self.pool[suffix]) < self.pool_size:
            self.pool[suffix].append(slot)
        elif rng.random() < 0.3:
            self.pool[suffix][rng.randrange(self.pool_size)] = slot
        return slot

    def add_group(self, scs, share_out=None):
        """the scenarios of one group: inputs on distinct paths; written files possibly on the same path (then one
        after the other: write, read back, re-write, next object); everything else interleaved"""
        rng, ses = self.rng, self.session
        first = len(ses.steps)
        used, outs = set(), []
        for sc in scs:
            suffix = ".dat" if sc.spec.is_jetscape() or rng.random() < 0.3 else ".oscar"
            i = self.pick(suffix, used)
            used.add(i)
            ses.steps.append([sc, [i, None, None]])
        for k, sc in enumerate(scs):
            sl = ses.steps[first + k][1]
            suffix = slot_suffix(sl[0])
            same = [o for o in outs if slot_suffix(o) == suffix]
            if same and (share_out if share_out is not None else rng.random() < 0.4):
                o = rng.choice(same)
            else:
                o = self.pick(suffix, used | set(outs))
            outs.append(o)
            sl[1] = o
        used |= set(outs)
        for k in range(len(scs)):
            sl = ses.steps[first + k][1]
            sl[2] = self.pick(slot_suffix(sl[0]), used)
            used.add(sl[2])
            ses.steps[first + k] = (ses.steps[first + k][0], tuple(sl))
        for k in range(len(scs)):
            ses.actions.append(("load", first + k))
        queues = {first + k: ["write", "reread", "rewrite"] for k in range(len(scs))}
        busy = {}
        while queues:
            ready = [i for i, q in queues.items() if q[0] != "write" or busy.get(ses.steps[i][1][1], i) == i]
            i = rng.choice(ready)
            a = queues[i].pop(0)
            out = ses.steps[i][1][1]
            if a == "write":
                busy[out] = i
            ses.actions.append((a, i))
            if not queues[i]:
                del queues[i]
                busy.pop(out, None)
        return list(range(first, first + len(scs)))


def add_alias_group(b, rng, sc, other=None, other_in_place=False):
    """output path aliasing.  `sc` alone: the object is written over its OWN source path ("filter a file in place").
    With `other` (a scenario on a sibling file, see `sibling_spec`): both are loaded, `sc` is written over the source
    path of `other`, read back from there and re-written; afterwards `other` — whose source now holds `sc`'s file — is
    written (to a fresh path, or in place), read back and re-written.  Every aliased write is preceded by a write of the
    same object to a fresh path (4th slot) with which it must agree byte for byte."""
    ses = b.session
    first = len(ses.steps)
    suffix = ".dat" if sc.spec.is_jetscape() or rng.random() < 0.3 else ".oscar"
    used = set()

    def fresh():
        x = b.pick(suffix, used)
        used.add(x)
        return x
    pa = fresh()
    if other is None:
        ses.steps.append((sc, (pa, pa, fresh(), fresh())))
        ses.actions += [("load", first), ("write", first), ("reread", first), ("rewrite", first)]
        return [first]
    pb = fresh()
    ses.steps.append((sc, (pa, pb, fresh(), fresh())))
    ob = pb if other_in_place else fresh()
    ses.steps.append((other, (pb, ob, fresh(), fresh())))
    ses.actions += [("load", first), ("load", first + 1)]
    ses.actions += [(a, first) for a in ("write", "reread", "rewrite")]
    ses.actions += [(a, first + 1) for a in ("write", "reread", "rewrite")]
    return [first, first + 1]


def build_session(rng, scenarios, reuse=0.5, alias=0.25):
    """`alias`: share of the scenarios whose written file goes over a source path (own / another live object's)"""
    b = SessionBuilder(rng, reuse)
    i = 0
    while i < len(scenarios):
        if rng.random() < alias:
            sc = scenarios[i]
            i += 1
            if rng.random() < 0.5:
                add_alias_group(b, rng, sc)
            else:
                add_alias_group(b, rng, sc, gen_scenario(rng, sibling_spec(rng, sc.spec)), rng.random() < 0.4)
            continue
        k = rng.choice([1, 1, 2, 2, 3, 4])
        b.add_group(scenarios[i:i + k])
        i += k
    return b.session


def absout(r):
    return r.abs_paths[1]


def run_session(session):
    """executes the actions; returns one RealRun per step (`.skipped` set when its load / filter history raised)"""
    d = tempfile.mkdtemp(prefix="ses_", dir=tmpdir())
    paths = {}

    def path_of(slot):
        if slot not in paths:
            paths[slot] = os.path.join(d, "f_" + slot + slot_suffix(slot))
        return paths[slot]
    runs = [RealRun(sc, tuple(path_of(x) for x in sl)) for sc, sl in session.steps]
    tainted = {}
    try:
        for kind, i in session.actions:
            r = runs[i]
            if r.skipped:
                continue
            if kind == "load":
                try:
                    r.act("load")
                except Exception as e:
                    r.skipped = f"load raised {type(e).__name__}"
                    continue
                try:
                    r.act("run_ops")
                except Exception as e:
                    r.skipped = f"filter raised {type(e).__name__}"
            elif kind == "write":
                if tainted.get(r.abs_paths[0], i) != i:
                    # its source path was overwritten (by another object of the session) with a file that holds no
                    # event / cannot be read: whatever the writer copies from there is not this object's business
                    r.skipped = "source path overwritten with an unreadable file"
                    continue
                r.act("do_write")
                tainted.pop(absout(r), None)
                if isinstance(r.w, Exception):
                    tainted[absout(r)] = i
            elif kind == "reread":
                r.act("do_reread")
                if isinstance(r.rr, Exception):
                    tainted[absout(r)] = i
            elif kind == "rewrite":
                r.act("do_rewrite")
    finally:
        shutil.rmtree(d, ignore_errors=True)
    return runs


def session_oracle(session, k):
    runs = run_session(session)
    r = runs[k]
    if r.skipped or r.state is None:
        return None
    return oracle(session.steps[k][0], r)


def shrink_session(session, k, key, budget_s=25.0):
    """drop steps (other than the failing one) while the same failure stays; first those that share no path with it"""
    t0 = time.time()

    def fails(ses, kk):
        try:
            res = session_oracle(ses, kk)
        except Exception:
            return False
        return res is not None and res[0] == key
    cur, kk = session, k
    mine = set(cur.steps[kk][1])
    unrelated = {i for i, (_, sl) in enumerate(cur.steps) if i != kk and not (mine & set(sl))}
    if unrelated:
        cand, ren = cur.without(unrelated)
        if fails(cand, ren[kk]):
            cur, kk = cand, ren[kk]
    changed = True
    while changed and time.time() - t0 < budget_s:
        changed = False
        for i in range(len(cur.steps) - 1, -1, -1):
            if i == kk:
                continue
            cand, ren = cur.without({i})
            if fails(cand, ren[kk]):
                cur, kk, changed = cand, ren[kk], True
                break
    return cur, kk


def path_sequences(rng):
    """small sessions aimed at path re-use: A written to P and read back, then B (other content) written to the same
    P and read back; A loaded from P, then B loaded from the same P (its content changed); three objects of a group
    written to one path with everything else interleaved; an Oscar file and a JETSCAPE file sharing a path"""
    out = []
    for kinds in (["jetscape"], ["jetscapeP"], ["oscar2013"], ["extended"], ["ascii"], ["jetscape", "oscar2013"]):
        sfx = "dat" if any(k.startswith("jetscape") for k in kinds) else "oscar"
        for mode in ("out", "in", "group"):
            scs = []
            for j in range(3):
                spec = rmodel.gen_spec(rng, kinds=[kinds[j % len(kinds)]], nev=rng.randint(1, 3))
                as_spec6(spec, VERSIONS[j % len(VERSIONS)], JVERS[(j + 1) % len(JVERS)])
                spec.sigma = SIGMAS[j % len(SIGMAS)]
                spec.impacts = ["%.3f" % (j + 0.5 * i) for i in range(len(spec.events))]
                scs.append(Scenario(spec))
            if mode == "out":        # additionally: in place, and over the source of another live object
                for variant in ("own", "other", "other-in-place"):
                    b = SessionBuilder(rng, reuse=0.0)
                    if variant == "own":
                        add_alias_group(b, rng, scs[0])
                    else:
                        add_alias_group(b, rng, scs[0], Scenario(sibling_spec(rng, scs[0].spec)), variant != "other")
                    out.append(b.session)
            if mode == "group":
                b = SessionBuilder(rng, reuse=0.0)
                b.pool = {".dat": [], ".oscar": []}
                b.add_group(scs, share_out=True)
                # all three on the suffix of the family
                ses = b.session
                ses.steps = [(sc, tuple(sfx + x.lstrip("daoscr") + "g" for x in sl)) for sc, sl in ses.steps]
                out.append(ses)
                continue
            ses = Session()
            for j, sc in enumerate(scs):
                sl = (f"{sfx}in{j}", f"{sfx}P", f"{sfx}w{j}") if mode == "out" else (f"{sfx}P", f"{sfx}o{j}", f"{sfx}w{j}")
                ses.steps.append((sc, sl))
                ses.actions += [("load", j), ("write", j), ("reread", j), ("rewrite", j)]
            out.append(ses)
    return out


# ----------------------------------------------------------------------------- float()/'%g' tables for the driver
def fmt3(v):
    out = []
    for f in ("%g", "%.9g", "%d"):
        try:
            out.append(f % v)
        except (ValueError, OverflowError):
            out.append("")
    return out


def conv(cast, tok):
    try:
        return float(tok) if cast == "f" else float(int(tok))
    except (ValueError, OverflowError):
        return None


def build_tables(tokens):
    """closure of the tokens of the file under float()/int() and the three conversions"""
    ptab, ftab = {}, {}
    todo = set(tokens)
    rounds = 0
    while todo and rounds < 6:
        rounds += 1
        new_vals = []
        for t in todo:
            for cast in ("f", "i"):
                if (cast, t) in ptab:
                    continue
                v = conv(cast, t)
                if v is None:
                    continue
                ptab[(cast, t)] = f2h(v)
                if f2h(v) not in ftab:
                    new_vals.append(v)
        todo = set()
        for v in new_vals:
            if f2h(v) in ftab:
                continue
            s3 = fmt3(v)
            ftab[f2h(v)] = s3
            for s in s3:
                if s and ("f", s) not in ptab:
                    todo.add(s)
    return ptab, ftab


def check_contracts(ctx, ptab, ftab):
    """H_int, H_idem, H_prec on every value the tables supply"""
    bad = []
    for bits, (g, g9, d) in ftab.items():
        v = common.h2f(bits)
        for spec, s, digits in (("g", g, 6), ("g9", g9, 9)):
            if not s:
                continue
            w = float(s)
            if ("%g" if spec == "g" else "%.9g") % w != s:
                bad.append(("H_idem", spec, v, s))
            if v == v and abs(v) != math.inf and v != 0 and not prec_ok(v, w, digits):
                bad.append(("H_prec", spec, v, s))
        if d and v == int(v):
            if float(int(d)) != v or "%d" % float(int(d)) != d:
                bad.append(("H_int", "d", v, d))
        ctx.count("contract-values")
    for b in bad[:3]:
        ctx.brk("correspondence-broken", f"format contract {b[0]} fails for spec {b[1]}: value {b[2]!r} -> {b[3]!r}")
    return not bad


def prec_ok(v, w, digits):
    """precision of the output format: the printed numeral is within half a unit of the `digits`-th significant
    digit of v (|dec - v| <= 1/2 * 10^(e(v) - digits + 1)), and w is the double nearest to that numeral; hence
    |w - v| <= 1/2 * 10^(e(v) - digits + 1) + ulp(w)/2, checked exactly"""
    fv, fw = Fraction(v), Fraction(w)
    e = Decimal(abs(v)).adjusted()          # floor(log10 |v|), exact
    bound = Fraction(1, 2) * (Fraction(10) ** (e - digits + 1))
    return abs(fw - fv) <= bound + Fraction(math.ulp(w)) / 2


def driver_line(sc, r):
    spec = sc.spec
    toks = {t for ev in spec.events for row in ev for t in row}
    ptab, ftab = build_tables(toks)
    pt = ";".join(f"{c}:{t}={b}" for (c, t), b in sorted(ptab.items())) or "-"
    ft = ";".join(f"{b}={','.join(s)}" for b, s in sorted(ftab.items())) or "-"
    kind = "oscar" if not spec.is_jetscape() else spec.kind
    keep = "-" if r.keep is None else "k:" + ",".join(str(x) for x in r.keep)
    ops = "+".join(r.dops) if r.dops else "-"
    text = spec.model_text() if hasattr(spec, "model_text") else spec.text()
    return "\t".join(["write", kind, rmodel.sel_enc(sc.events), keep, ops, pt, ft, common.hexs(text)]), ptab, ftab


def strip_obs(ans):
    """remove the model-only `obs=` field; returns (answer without it, obs)"""
    parts = ans.split("\t")
    obs = [p for p in parts if p.startswith("obs=")]
    return "\t".join(p for p in parts if not p.startswith("obs=")), (obs[0][4:] if obs else "-")


def nontrivial(sc, r):
    return sc.events is not None or r.removed_by_cut or r.removed_by_ctor or any(
        n not in EVCUTS for n, _ in sc.ops) or sc.ctor is not None


# ----------------------------------------------------------------------------- correspondence (tie C)
def correspond(ctx):
    rng = ctx.rng
    ctx.rule = ("random well-formed Oscar2013 / Oscar2013Extended (20, 21, 22 columns) / ASCII (random column subsets) / "
                "JETSCAPE hadron+parton files (1-6 events, empty events anywhere, a 10+-particle event, tokens that need rounding "
                "in %g/%.9g, with and without final newline) x events= none / k / (a,b) x optional filters= x a history of 0-3 "
                "filter methods (35% event-removing cuts, boundary-biased arguments); the real object is written, read back and "
                "written again; bytes of both files, object state before writing and after reading back, and the observation "
                "hypotheses of the theorems on the written bytes are compared with the Lean model; all cases of a run live in "
                "one process as a session: about half of the input / output paths are re-used by later cases with different "
                "content (write, read, overwrite, read; input path whose content changed; Oscar and JETSCAPE on one path) and "
                "the round trips of 1-4 objects are interleaved; a quarter of the objects are written over a SOURCE path (their "
                "own = in-place update, or that of another live object on a sibling file which is written afterwards), after "
                "a reference write of the same object to a fresh path with which the bytes must agree; devices that must not "
                "change anything observable: 30% of the objects are replaced by copy.copy / copy.deepcopy / pickle round trips "
                "after loading, before writing, after reading back; 25% of the cases run every call with cwd = the files' "
                "directory and bare relative names, non-default numpy print options, np.seterr(all='warn'), advanced random / "
                "np.random states (and every call must leave cwd, np.geterr() and both random states as found); 12% each CRLF "
                "line ends, non-ASCII free text, trailing blanks on free-text lines; one-shot iterables as filter arguments "
                "where the probe shows they are accepted (else the rejection is asserted); impact parameters also as plain "
                "integers equal to event numbers; header version, sigmaGen and impact parameters differ from "
                "file to file; non-trivial = selection, "
                "constructor filters or at least one filter method; distinct by (file text, events=, filters, history)")
    ctx.assumptions.append("float()/int() and '%g'/'%.9g'/'%d' are parameters of the model (tables supplied by Python for "
                           "every token/value of a case); their contracts H_int, H_idem, H_prec are checked on every supplied "
                           "value and on a sweep of random doubles")
    ctx.assumptions.append("CRLF files: the model reads the text as Python's universal-newline layer delivers it (\\r\\n -> "
                           "\\n); files are UTF-8 (the interpreter runs in UTF-8 mode). Trailing blanks on particle and end "
                           "lines, generators / object arrays as filter arguments and events= given as list / numpy integer "
                           "are rejected by the clean code (probed per run) and are not inputs of the property")
    ctx.assumptions.append("classification lemma (the loaders' substring tests and token splits on a written line are those of "
                           "its kind) is NOT proved: the driver evaluates `analyse` on the bytes of every written file and "
                           "checks the hypotheses `obsKind` line by line")
    for key, what, sc in probe(ctx):
        ctx.brk("correspondence-broken", what, case=dict(scenario=sc.to_json()))
    cases = []
    for d in corpus():
        if "scenario" in d["input"]:
            cases.append(Scenario.from_json(d["input"]["scenario"]))
    N = ctx.n(220, 4000)
    for _ in range(N):
        cases.append(gen_scenario(rng))
    lines, runs = [], []
    all_ok = True
    # all cases run in ONE session: half of the paths are re-used with different content, round trips interleaved
    sessions = path_sequences(rng) + [build_session(rng, cases)]
    reused = 0
    for ses in sessions:
        seen_slots = set()
        for _, sl in ses.steps:
            reused += sum(1 for x in set(sl) if x in seen_slots)
            seen_slots |= set(sl)
        for (sc, sl), r in zip(ses.steps, run_session(ses)):
            if r.skipped or r.state is None:
                ctx.count("skipped/" + str(r.skipped)[:40])
                continue
            line, ptab, ftab = driver_line(sc, r)
            all_ok &= check_contracts(ctx, ptab, ftab)
            lines.append(line)
            runs.append((sc, r, ses, sl))
    ctx.count("path-slots-reused", reused)
    outs = common.run_driver("C06", lines) if lines else []
    for (sc, r, ses, sl), out in zip(runs, outs):
        real = r.answer()
        model, obs = strip_obs(out)
        tag = f"{sc.spec.kind}/{'whole' if sc.events is None else 'single' if isinstance(sc.events, int) else 'range'}" \
              f"/{'ctor' if sc.ctor is not None else 'noctor'}/{len(sc.ops)}ops"
        ctx.count(tag)
        if r.removed_by_cut:
            ctx.count("event-removed-by-cut")
        if r.removed_by_ctor:
            ctx.count("event-removed-by-ctor-filter")
        if r.placeholder:
            ctx.count("all-events-removed")
        if isinstance(r.w, Exception):
            ctx.count("write-raises/" + type(r.w).__name__)
        elif isinstance(r.rr, Exception):
            ctx.count("reread-raises/" + type(r.rr).__name__)
        ctx.case((sc.spec.text(), sc.events, repr(enc_calls(sc.ctor)), repr(enc_calls(sc.ops))), nontrivial(sc, r),
                 sample=dict(scenario=sc.describe(), code=real[:300], model=model[:300]))
        if real != model or (not isinstance(r.w, Exception) and obs != "ok"):
            # where model and code part ways is where the oracle search looks first
            ctx.__dict__.setdefault("suspects", []).append((sc, ses, ses.steps.index((sc, sl))))
        if real != model:
            ctx.brk("correspondence-broken", f"{sc.describe()} (session paths {list(sl)}): code `{shorten(real)}` vs model "
                                             f"`{shorten(model)}`",
                    case=dict(scenario=sc.to_json(), slots=list(sl), code=real, model=model,
                              note="ran inside a session with re-used paths; the model is per scenario"))
        elif not isinstance(r.w, Exception) and obs != "ok":
            ctx.brk("correspondence-broken", f"{sc.describe()}: observation hypothesis of the theorems fails on the written "
                                             f"file ({obs})", case=dict(scenario=sc.to_json(), obs=obs))
    sweep_contracts(ctx)


def shorten(s, n=70):
    return "\t".join(p if len(p) <= n else p[:n] + "…" for p in s.split("\t"))


def sweep_contracts(ctx):
    """H_idem / H_prec / H_int on random doubles of all magnitudes"""
    rng = ctx.rng
    n = ctx.n(3000, 100000)
    bad = 0
    for i in range(n):
        if i % 3 == 0:
            v = rng.uniform(-1, 1) * 10 ** rng.randint(-12, 12)
        elif i % 3 == 1:
            v = common.h2f("%016x" % rng.getrandbits(64))
            if v != v or abs(v) == math.inf or v == 0:
                continue
        else:
            v = float(rng.randint(-10 ** 9, 10 ** 9))
        for f, digits in (("%g", 6), ("%.9g", 9)):
            s = f % v
            w = float(s)
            if f % w != s or not prec_ok(v, w, digits):
                bad += 1
                ctx.brk("correspondence-broken", f"format contract fails: {f} % {v!r} = {s}")
        if v == int(v) and abs(v) < 2 ** 53:
            s = "%d" % v
            if float(int(s)) != v:
                bad += 1
                ctx.brk("correspondence-broken", f"H_int fails for {v!r}")
    ctx.count("contract-sweep", n)


# ----------------------------------------------------------------------------- oracle on the real code
def situation(sc, r):
    if r.ctor_removed_all:
        return "ctor-filters-removed-all"
    if r.placeholder:
        return "all-events-removed"
    if r.removed_by_ctor:
        return "ctor-filters-removed-event"
    if r.removed_by_cut:
        return "event-cut"
    if sc.events is None:
        return "whole"
    return "range" if isinstance(sc.events, tuple) else "single"


def col_attrs(spec):
    return [rmodel.ATTR_OF.get(c, c) for c in spec.cols]


def mask_label(footer):
    p = footer.rstrip("\n").split(" ")
    if len(p) > 2:
        p[2] = "*"
    return " ".join(p)


def oracle(sc, r):
    """None or (key, what): the property checked on what the real code did (no model involved)"""
    spec = sc.spec
    cls = sc.cls
    sit = situation(sc, r)
    key = lambda sym: f"{cls}:{sit}:{sym}"
    if r.env_changed:
        return key("global-state-changed"), "a call left a changed global state behind: " + ", ".join(r.env_changed)
    if isinstance(r.w, Exception):
        return key("write-raises-" + type(r.w).__name__), f"print_particle_lists_to_file raised {type(r.w).__name__}: {r.w}"
    if r.w_ref is not None:
        if isinstance(r.w_ref, Exception):
            return key("write-raises-" + type(r.w_ref).__name__), f"print_particle_lists_to_file raised {r.w_ref}"
        if r.w_ref != r.w:
            a, b = r.w_ref.split("\n"), r.w.split("\n")
            i = next((k for k in range(min(len(a), len(b))) if a[k] != b[k]), min(len(a), len(b)))
            return key("output-over-source"), \
                f"the file written over a source path ({'its own' if r.out1 == r.path else 'that of another live object'}) " \
                f"differs from the same object written to a fresh path: line {i}: " \
                f"{(b[i] if i < len(b) else None)!r} instead of {(a[i] if i < len(a) else None)!r}"
    if isinstance(r.rr, Exception):
        return key("reread-raises-" + type(r.rr).__name__), \
            f"the written file cannot be read back: {type(r.rr).__name__}: {str(r.rr)[:120]}"
    o, o2 = r.obj, r.obj2
    # file-level text: what the object holds / copies must be that of ITS input file (nothing remembered from another)
    src = spec.lines()
    if cls == "jetscape":
        want_sig = (float(spec.sigma[0]), float(spec.sigma[1]))
        for who, ob in (("loaded", o), ("read-back", o2)):
            if tuple(float(x) for x in ob.get_sigmaGen()) != want_sig:
                return key("sigmaGen"), f"sigmaGen of the {who} object {tuple(ob.get_sigmaGen())} != {want_sig} of its file"
        if r.w.split("\n")[0] != src[0] or r.w.rstrip("\n").split("\n")[-1] != src[-1].strip():
            return key("header-trailer"), "first / last line written are not those of the input file: " \
                f"{r.w.split(chr(10))[0]!r} … {r.w.rstrip(chr(10)).split(chr(10))[-1]!r}"
    else:
        if r.w.split("\n")[:3] != src[:3]:
            return key("header"), f"header lines written {r.w.split(chr(10))[:3]} != those of the input file {src[:3]}"
    evs, evs2 = o.particle_objects_list(), o2.particle_objects_list()
    if o.num_events() != o2.num_events() or len(evs) != len(evs2):
        return key("counts"), f"number of events {o.num_events()} -> {o2.num_events()}"
    c1, c2 = np.asarray(o.num_output_per_event()), np.asarray(o2.num_output_per_event())
    if c1.ndim != 2 or c2.ndim != 2 or list(c1[:, 1]) != list(c2[:, 1]) or [len(e) for e in evs] != [len(e) for e in evs2]:
        return key("counts"), f"per-event counts {c1.tolist()} -> {c2.tolist()}"
    attrs = col_attrs(spec)
    for i, (e1, e2) in enumerate(zip(evs, evs2)):
        for p, q in zip(e1, e2):
            for c, a in zip(spec.cols, attrs):
                v, w = getattr(p, a), getattr(q, a)
                if c in rmodel.INT_COLS:
                    if not (v == w):
                        return key("values"), f"event {i}: integer column {c}: {v!r} -> {w!r}"
                else:
                    v, w = float(v), float(w)
                    digits = 9 if c in ("p0", "px", "py", "pz") and cls == "oscar" else 6
                    if v != v or abs(v) == math.inf or v == 0:
                        if not (v == w or (v != v and w != w)):
                            return key("values"), f"event {i}: column {c}: {v!r} -> {w!r}"
                    elif not prec_ok(v, w, digits):
                        return key("values"), f"event {i}: column {c}: {v!r} -> {w!r} beyond the precision of the format"
    if cls == "oscar":
        org = r.origins
        code_org = getattr(o, "event_origin_", None)
        if code_org is not None and not r.ctor_removed_all and [int(x) for x in code_org] != list(org):
            return key("origin"), f"event_origin_ {list(code_org)} != positions of the held events in the input file {org}"
        if not r.placeholder:
            foot_in = spec.lines()[3:]
            foot_in = [l for l in foot_in if " end " in l]
            got = o2.event_end_lines_
            for i, oi in enumerate(org):
                if i >= len(got) or mask_label(got[i]) != mask_label(foot_in[oi]):
                    return key("foreign-footer"), \
                        f"held event {i} is event {oi} of the input; it was written with the end line " \
                        f"`{got[i].strip() if i < len(got) else None}` instead of its own `{foot_in[oi]}`"
            want = [float(spec.impacts[oi]) for oi in org]
            if [float(b) for b in o2.impact_parameters()] != want:
                return key("impact-parameter"), f"impact parameters read back {o2.impact_parameters()} != {want}"
            if [float(b) for b in o.impact_parameters()] != want:
                return key("stale-impact-parameters"), \
                    f"impact_parameters() of the object that was written: {o.impact_parameters()} != {want} (its events' own)"
    else:
        if tuple(o.get_sigmaGen()) != tuple(o2.get_sigmaGen()):
            return key("sigmaGen"), f"sigmaGen {o.get_sigmaGen()} -> {o2.get_sigmaGen()}"
    if isinstance(r.w2, Exception):
        return key("rewrite-raises-" + type(r.w2).__name__), f"writing the re-read object raised {type(r.w2).__name__}"
    if r.w2 != r.w:
        return key("not-a-fixpoint"), "writing the re-read object does not reproduce the file"
    return None


def oracle_scenario(sc):
    try:
        r = real_run(sc)
    except Skip:
        return None, None
    try:
        return oracle(sc, r), r
    finally:
        r.cleanup()


def shrink(sc, key):
    """delta-debugging on ops / ctor filters / events / particles"""
    def fails(c):
        try:
            res, _ = oracle_scenario(c)
        except Exception:
            return False
        return res is not None and res[0] == key

    cur = sc
    changed = True
    while changed:
        changed = False
        for i in range(len(cur.ops)):
            c = cur.replace(ops=cur.ops[:i] + cur.ops[i + 1:])
            if fails(c):
                cur, changed = c, True
                break
        if changed:
            continue
        if cur.ctor is not None:
            for cand in ([None] if len(cur.ctor) <= 1 else [cur.ctor[:i] + cur.ctor[i + 1:] for i in range(len(cur.ctor))]):
                c = cur.replace(ctor=cand)
                if fails(c):
                    cur, changed = c, True
                    break
        if changed:
            continue
        s = cur.spec
        # drop an event outside / inside the selection
        for i in range(len(s.events)):
            if len(s.events) <= 1:
                break
            evs = s.events[:i] + s.events[i + 1:]
            imps = s.impacts[:i] + s.impacts[i + 1:]
            ev = cur.events
            if isinstance(ev, tuple):
                a, b = ev
                if i < a:
                    ev = (a - 1, b - 1)
                elif i <= b:
                    if a == b:
                        continue
                    ev = (a, b - 1)
            elif isinstance(ev, int):
                if i == ev:
                    continue
                if i < ev:
                    ev -= 1
            ns = as_spec6(s).clone(events=evs, impacts=imps)
            c = cur.replace(spec=ns, events=ev)
            if fails(c):
                cur, changed = c, True
                break
        if changed:
            continue
        for i, evn in enumerate(s.events):
            for j in range(len(evn)):
                evs = [list(e) for e in s.events]
                del evs[i][j]
                ns = as_spec6(s).clone(events=evs)
                c = cur.replace(spec=ns)
                if fails(c):
                    cur, changed = c, True
                    break
            if changed:
                break
    return cur


def targeted(rng):
    """scenarios aimed at the places where writer and reader conventions meet"""
    out = []
    for kind in ("oscar2013", "extended", "ascii", "jetscape", "jetscapeP"):
        for _ in range(2):
            spec = rmodel.gen_spec(rng, kinds=[kind], nev=rng.randint(2, 5))
            nev = len(spec.events)
            cls = "jetscape" if spec.is_jetscape() else "oscar"
            out.append(Scenario(spec))
            out.append(Scenario(spec, rng.randrange(nev)))
            a = rng.randrange(nev)
            out.append(Scenario(spec, (a, rng.randrange(a, nev))))
            out.append(Scenario(spec, None, None, [("multiplicity_cut", ((rng.choice([1, 2, 3]), None),))]))
            out.append(Scenario(spec, None, None, [("multiplicity_cut", ((1000, None),))]))
            out.append(Scenario(spec, None, [("multiplicity_cut", ((rng.choice([1, 2, 3]), None),))], []))
            out.append(Scenario(spec, None, None, [("charged_particles", ())] if "charge" in spec.cols or cls == "jetscape"
                                else []))
    # all 22 ASCII columns, one empty event held alone, empty first event of a 22-column file
    allc = rmodel.FileSpec("ascii", list(rmodel.EXT_COLS), [[rmodel.gen_row(rng, rmodel.EXT_COLS, 1)],
                                                           [rmodel.gen_row(rng, rmodel.EXT_COLS, 2)]])
    out.append(Scenario(allc))
    one_empty = rmodel.gen_spec(rng, kinds=["oscar2013"], nev=3)
    one_empty.events[1] = []
    out.append(Scenario(one_empty, 1))
    ext = rmodel.gen_spec(rng, kinds=["extended"], nev=3)
    ext.cols = rmodel.EXT_COLS
    ext.events = [[], [rmodel.gen_row(rng, rmodel.EXT_COLS, 1)], [rmodel.gen_row(rng, rmodel.EXT_COLS, 2)]]
    out.append(Scenario(ext))
    return out


def probe(ctx):
    """asks the tree under test, once per run, which of the new input classes it accepts.
    * one-shot iterables (generator, iter(list), map) and numpy object arrays as the argument of a filter that takes "a
      list": either rejected with an exception, or the result is that of the list — never silently something else
      (returns violations); accepted kinds are then used in the histories;
    * UTF-8 (non-ASCII) text in the free-text parts of a file: used only if a file with it loads."""
    ITER_OK.clear()
    TEXT_OK.clear()
    bad = []
    prng = pyrandom.Random(7)
    for kind in ("oscar2013", "jetscape"):
        spec = as_spec6(rmodel.gen_spec(prng, kinds=[kind], nev=3, maxpart=4))
        for ev in spec.events:           # make sure the filter has something to keep and to drop in EVERY event
            for j, row in enumerate(ev):
                row[spec.cols.index("pdg")] = "211" if j % 2 == 0 else "2212"
        base = Scenario(spec, None, None, [("particle_species", ([211],))])
        try:
            r0 = real_run(base)
        except Skip:
            continue
        want = r0.state
        r0.cleanup()
        for it in ("gen", "iter", "map", "objarray"):
            sc = Scenario(spec, None, None, [("particle_species", (OneShot(it, [211]),))])
            try:
                r = real_run(sc)
            except Skip as e:
                ctx.count(f"probe/{kind}/{it}/rejected")
                continue
            got = r.state
            r.cleanup()
            if got == want:
                ctx.count(f"probe/{kind}/{it}/accepted")
                if it not in ITER_OK:
                    ITER_OK.append(it)
            else:
                bad.append((f"{sc.cls}:one-shot-argument:silently-different",
                            f"particle_species({it} of [211]) is neither rejected nor treated like the list [211]: state "
                            f"`{got}` instead of `{want}`", sc))
    for kind in ("oscar2013", "jetscape"):
        spec = as_spec6(rmodel.gen_spec(prng, kinds=[kind], nev=2))
        spec.nonascii = True
        try:
            r = real_run(Scenario(spec))
            ok = not isinstance(r.w, Exception) and not isinstance(r.rr, Exception)
            r.cleanup()
        except Skip:
            ok = False
        TEXT_OK["nonascii"] = TEXT_OK.get("nonascii", True) and ok
    ctx.cov["probe"] = dict(one_shot_iterables_accepted=list(ITER_OK), nonascii_text_accepted=TEXT_OK.get("nonascii"))
    return bad


def report(ctx, sc, res, seen, ses=None, k=None):
    """a failing step: is it the scenario alone (fresh paths), or only the sequence?"""
    alone, _ = oracle_scenario(sc)
    if alone is not None:
        # does it need one of the devices (copies / environment / text / one-shot iterables)?
        key, needed = alone[0], []
        if sc.devices():
            plain, _ = oracle_scenario(sc.plain())
            if plain is None or plain[0] != alone[0]:
                cur = sc
                for dname in sc.devices():
                    c = cur.without(dname)
                    rr, _ = oracle_scenario(c)
                    if rr is not None and rr[0] == alone[0]:
                        cur = c
                sc, needed = cur, cur.devices()
                cls, _, sym = alone[0].split(":", 2)
                key = f"{cls}:with-{'+'.join(needed)}:{sym}"
            else:
                sc = sc.plain()
        if key in seen:
            return
        seen.add(key)
        small = shrink(sc, alone[0])
        res2, _ = oracle_scenario(small)
        res2 = res2 or alone
        what = res2[1] if not needed else f"only with {' + '.join(needed)} (the same scenario without is fine): {res2[1]}"
        ctx.violation(key, what, dict(input=dict(scenario=small.to_json(), describe=small.describe()),
                                      how_to_replay="./check C06 --replay <this file>"))
        return
    cls, _, sym = res[0].split(":", 2)
    key = f"{cls}:sequence:{sym}"
    if key in seen or ses is None:
        return
    seen.add(key)
    small, kk = shrink_session(ses, k, res[0])
    res2 = session_oracle(small, kk) or res
    ctx.violation(key, f"only with the path layout / order of this session in one process (paths re-used with different "
                       f"content, or the written file going over a source path; the same scenario alone, on fresh paths, "
                       f"is fine): step {kk}, slots (in, out, re-written, reference) {list(small.steps[kk][1])}: {res2[1]}",
                  dict(input=dict(session=small.to_json(), failing_step=kk, describe=small.describe()),
                       how_to_replay="./check C06 --replay <this file>"))


def search(ctx, budget_s):
    rng = ctx.rng
    t0 = time.time()
    n = 0
    seen = set()
    for key, what, sc in probe(ctx):
        if key not in seen:
            seen.add(key)
            ctx.violation(key, what, dict(input=dict(scenario=sc.to_json(), describe=sc.describe()),
                                          how_to_replay="./check C06 --replay <this file>"))
    first = [Scenario.from_json(d["input"]["scenario"]) for d in corpus() if "scenario" in d["input"]] + targeted(rng)
    sessions = [Session.from_json(d["input"]["session"]) for d in corpus() if "session" in d["input"]]
    sessions += path_sequences(rng)
    # first of all the cases on which model and code differed in the correspondence run (alone, then in their session)
    for sc, ses, k in getattr(ctx, "suspects", [])[:12]:
        n += 1
        res, r = oracle_scenario(sc)
        if r is None:
            continue
        ctx.count("oracle/suspect-from-correspondence")
        if res:
            report(ctx, sc, res, seen)
        else:
            res = session_oracle(ses, k)
            if res:
                report(ctx, sc, res, seen, ses, k)
    # single round trips on fresh paths (corpus, targeted), then sessions
    for sc in first:
        n += 1
        res, r = oracle_scenario(sc)
        if r is None:
            continue
        ctx.case(("oracle", sc.spec.text(), sc.events, repr(enc_calls(sc.ctor)), repr(enc_calls(sc.ops))), nontrivial(sc, r))
        ctx.count("oracle/" + situation(sc, r))
        if res:
            report(ctx, sc, res, seen)
    limit = 6000 if ctx.thorough else 350
    while n < limit and (sessions or time.time() - t0 < budget_s):
        ses = sessions.pop(0) if sessions else build_session(rng, [gen_scenario(rng) for _ in range(40)])
        runs = run_session(ses)
        ctx.count("oracle/sessions")
        for k, ((sc, sl), r) in enumerate(zip(ses.steps, runs)):
            n += 1
            if r.skipped or r.state is None:
                continue
            res = oracle(sc, r)
            ctx.case(("oracle", sc.spec.text(), sc.events, repr(enc_calls(sc.ctor)), repr(enc_calls(sc.ops))),
                     nontrivial(sc, r))
            ctx.count("oracle/" + situation(sc, r))
            if res:
                report(ctx, sc, res, seen, ses, k)
    ctx.cov["oracle_cases"] = n


def corpus():
    out = []
    if CORPUS.exists():
        for f in sorted(CORPUS.glob("*.json")):
            out.append(json.loads(f.read_text()))
    return out


def replay(ctx, path):
    d = json.loads(open(path).read())
    inp = d.get("input")
    if not inp:
        print(f"[C06] replay file names a broken obligation, not an input: {d.get('broken')}")
        return 1
    if "session" in inp:
        ses, k = Session.from_json(inp["session"]), inp["failing_step"]
        res = session_oracle(ses, k)
        for i, dsc in enumerate(ses.describe()):
            print(f"[C06] step {i}{' <- failing' if i == k else ''}: {dsc}")
        print("[C06] actions:", " ".join(f"{a}{i}" for a, i in ses.actions))
        if res:
            print(f"VIOLATION property=C06 replay={path}")
            print(res[0], "-", res[1])
            return 1
        print("[C06] replay: property holds on this sequence now")
        return 0
    sc = Scenario.from_json(inp["scenario"])
    res, r = oracle_scenario(sc)
    try:    # the model of the tree under test (Gen tables) for the side-by-side print
        translate(ctx)
        common.lake_build(["SparkxVerif.Drv.C06"])
    except Exception as e:
        print(f"[C06] (could not regenerate the model: {e})")
    if r is not None:
        r2 = real_run(sc)
        line, _, _ = driver_line(sc, r2)
        out = common.run_driver("C06", [line])[0]
        print("[C06] code :", shorten(r2.answer(), 200))
        print("[C06] model:", shorten(strip_obs(out)[0], 200))
        r2.cleanup()
    if res:
        print(f"VIOLATION property=C06 replay={path}")
        print(res[0], "-", res[1])
        return 1
    print("[C06] replay: property holds on this input now")
    return 0
